; obligation builder:builder.buildParser:ensures[reject]
; clause: (err != nil ==> res != nil) && (err == nil && haveLeftRecursion && !old(b.supportLeftRecursion) ==> res != nil)
; at return at builder.go:166
; path: else@builder.go:149 / else@builder.go:154 / loop#1 exit / return at builder.go:166
(set-option :produce-models true)
(set-logic ALL)
(declare-sort Str 0)
(declare-sort Any 0)
(declare-datatypes ((Slice_Any 0)) (((mk_Slice_Any (arr_Slice_Any (Array Int Any)) (off_Slice_Any Int) (len_Slice_Any Int) (cap_Slice_Any Int)))))
(declare-datatypes ((Slice_Int 0)) (((mk_Slice_Int (arr_Slice_Int (Array Int Int)) (off_Slice_Int Int) (len_Slice_Int Int) (cap_Slice_Int Int)))))
(declare-datatypes ((Slice_Str 0)) (((mk_Slice_Str (arr_Slice_Str (Array Int Str)) (off_Slice_Str Int) (len_Slice_Str Int) (cap_Slice_Str Int)))))
(declare-datatypes ((Slice_Slice_Str 0)) (((mk_Slice_Slice_Str (arr_Slice_Slice_Str (Array Int Slice_Str)) (off_Slice_Slice_Str Int) (len_Slice_Slice_Str Int) (cap_Slice_Slice_Str Int)))))
(declare-datatypes ((S_Pos 0)) (((mk_S_Pos (S_Pos_Filename Str) (S_Pos_Line Int) (S_Pos_Col Int) (S_Pos_Off Int)))))
(declare-datatypes ((S_posValue 0)) (((mk_S_posValue (S_posValue_p S_Pos) (S_posValue_Val Str)))))
(declare-fun typeOf (Any) Int)
(declare-const nilAny Any)
(declare-fun slen (Str) Int)
(declare-const emptyStr Str)
(declare-fun scat (Str Str) Str)
(declare-fun runeCount (Str) Int)
(declare-fun runeOf (Str Int) Int)
(declare-fun sle (Str Str) Bool)
(declare-fun elem_Slice_Any (Slice_Any Int) Any)
(declare-fun IsExpr (Any) Bool)
(declare-fun elem_Slice_Int (Slice_Int Int) Int)
(declare-fun sprintf_1 (Str Any) Str)
(declare-fun errorOfStr (Str) Any)
(declare-fun box_Int (Int Int) Any)
(declare-fun unbox_Int (Any) Int)
(declare-fun NF (Any) Bool)
(declare-fun InFirst (Any Str) Bool)
(declare-fun KeptR (Slice_Int Int (Array Int Int) Int) Bool)
(declare-fun decR (Slice_Int) Int)
(declare-fun decW (Slice_Int) Int)
(declare-fun sprintf_3 (Str Any Any Any) Str)
(declare-const str!0 Str) ; "incorrect grammar: %w"
(assert (= (slen str!0) 21))
(assert (= (runeCount str!0) 21))
(declare-const str!1 Str) ; "%d:%d (%d)"
(assert (= (slen str!1) 10))
(assert (= (runeCount str!1) 10))
(assert (distinct str!0 str!1))
(declare-const in_b Int)
(declare-const Alloc@pre (Array Int Bool))
(declare-const in_grammar Int)
(declare-const H_ChoiceExpr_Alternatives@pre (Array Int Slice_Any))
(declare-const H_SeqExpr_Exprs@pre (Array Int Slice_Any))
(declare-const H_ActionExpr_Expr@pre (Array Int Any))
(declare-const H_LabeledExpr_Expr@pre (Array Int Any))
(declare-const H_AndExpr_Expr@pre (Array Int Any))
(declare-const H_NotExpr_Expr@pre (Array Int Any))
(declare-const H_ZeroOrOneExpr_Expr@pre (Array Int Any))
(declare-const H_ZeroOrMoreExpr_Expr@pre (Array Int Any))
(declare-const H_OneOrMoreExpr_Expr@pre (Array Int Any))
(declare-const H_RecoveryExpr_Expr@pre (Array Int Any))
(declare-const H_RecoveryExpr_RecoverExpr@pre (Array Int Any))
(declare-const H_RuleRefExpr_Name@pre (Array Int Int))
(declare-const H_Rule_Expr@pre (Array Int Any))
(declare-const H_Rule_Name@pre (Array Int Int))
(declare-const H_Grammar_Rules@pre (Array Int Slice_Int))
(declare-const H_ChoiceExpr_Nullable@pre (Array Int Bool))
(declare-const H_ChoiceExpr_Nullable!1 (Array Int Bool))
(declare-const H_SeqExpr_Nullable@pre (Array Int Bool))
(declare-const H_SeqExpr_Nullable!2 (Array Int Bool))
(declare-const H_ActionExpr_Nullable@pre (Array Int Bool))
(declare-const H_ActionExpr_Nullable!3 (Array Int Bool))
(declare-const H_RecoveryExpr_Nullable@pre (Array Int Bool))
(declare-const H_RecoveryExpr_Nullable!4 (Array Int Bool))
(declare-const H_RuleRefExpr_Nullable@pre (Array Int Bool))
(declare-const H_RuleRefExpr_Nullable!5 (Array Int Bool))
(declare-const H_Rule_Nullable@pre (Array Int Bool))
(declare-const H_Rule_Nullable!6 (Array Int Bool))
(declare-const H_Rule_Visited@pre (Array Int Bool))
(declare-const H_Rule_Visited!7 (Array Int Bool))
(declare-const H_Rule_LeftRecursive@pre (Array Int Bool))
(declare-const H_Rule_LeftRecursive!8 (Array Int Bool))
(declare-const H_Rule_Leader@pre (Array Int Bool))
(declare-const H_Rule_Leader!9 (Array Int Bool))
(declare-const Alloc!10 (Array Int Bool))
(declare-const ret_PrepareGrammar!11 Bool)
(declare-const ret_PrepareGrammar!12 Any)
(declare-const H_builder_supportLeftRecursion@pre (Array Int Bool))
(declare-const res!13 Any)
(declare-const G_ErrHaveLeftRecursion@pre Any)
(declare-const res!14 Any)
(declare-const H_builder_haveLeftRecursion@pre (Array Int Bool))
(declare-const H_builder_haveLeftRecursion!15 (Array Int Bool))
(declare-const H_Grammar_Init@pre (Array Int Int))
(declare-const H_builder_err@pre (Array Int Any))
(declare-const H_builder_err!16 (Array Int Any))
(declare-const Alloc!17 (Array Int Bool))
(declare-const H_builder_err!18 (Array Int Any))
(declare-const H_builder_exprIndex@pre (Array Int Int))
(declare-const H_builder_exprIndex!19 (Array Int Int))
(declare-const H_builder_ruleName@pre (Array Int Str))
(declare-const H_builder_ruleName!20 (Array Int Str))
(declare-const H_builder_globalState@pre (Array Int Bool))
(declare-const H_builder_globalState!21 (Array Int Bool))
(declare-const H_builder_rangeTable@pre (Array Int Bool))
(declare-const H_builder_rangeTable!22 (Array Int Bool))
(declare-const H_ActionExpr_FuncIx@pre (Array Int Int))
(declare-const H_ActionExpr_FuncIx!23 (Array Int Int))
(declare-const H_AndCodeExpr_FuncIx@pre (Array Int Int))
(declare-const H_AndCodeExpr_FuncIx!24 (Array Int Int))
(declare-const H_NotCodeExpr_FuncIx@pre (Array Int Int))
(declare-const H_NotCodeExpr_FuncIx!25 (Array Int Int))
(declare-const H_StateCodeExpr_FuncIx@pre (Array Int Int))
(declare-const H_StateCodeExpr_FuncIx!26 (Array Int Int))
(declare-const Alloc!27 (Array Int Bool))
(declare-const H_builder_err!28 (Array Int Any))
(declare-const H_builder_ruleName!29 (Array Int Str))
(declare-const H_builder_argsStack@pre (Array Int Slice_Slice_Str))
(declare-const H_builder_argsStack!30 (Array Int Slice_Slice_Str))
(declare-const H_ActionExpr_FuncIx!31 (Array Int Int))
(declare-const H_AndCodeExpr_FuncIx!32 (Array Int Int))
(declare-const H_NotCodeExpr_FuncIx!33 (Array Int Int))
(declare-const H_StateCodeExpr_FuncIx!34 (Array Int Int))
(declare-const Alloc!35 (Array Int Bool))
(declare-const idx1!36 Int)
(declare-const rule!37 Int)
(declare-const H_builder_err!38 (Array Int Any))
(declare-const H_builder_ruleName!39 (Array Int Str))
(declare-const H_builder_argsStack!40 (Array Int Slice_Slice_Str))
(declare-const H_ActionExpr_FuncIx!41 (Array Int Int))
(declare-const H_AndCodeExpr_FuncIx!42 (Array Int Int))
(declare-const H_NotCodeExpr_FuncIx!43 (Array Int Int))
(declare-const H_StateCodeExpr_FuncIx!44 (Array Int Int))
(declare-const Alloc!45 (Array Int Bool))
(declare-const H_builder_err!46 (Array Int Any))
(declare-const Alloc!47 (Array Int Bool))
(declare-const H_LitMatcher_posValue@pre (Array Int S_posValue))
(declare-const H_CharClassMatcher_Chars@pre (Array Int Slice_Int))
(declare-const H_CharClassMatcher_Ranges@pre (Array Int Slice_Int))
(declare-const H_CharClassMatcher_UnicodeClasses@pre (Array Int Slice_Str))
(declare-const H_Identifier_posValue@pre (Array Int S_posValue))
(declare-const G_ErrNoLeader@pre Any)
(declare-const G_ErrInvalidParameters@pre Any)
(assert (= (typeOf nilAny) 0))
(assert (forall ((x Any)) (! (=> (= (typeOf x) 0) (= x nilAny)) :pattern ((typeOf x)))))
(assert (forall ((s Str)) (! (>= (slen s) 0) :pattern ((slen s)))))
(assert (= (slen emptyStr) 0))
(assert (forall ((s Str)) (! (=> (= (slen s) 0) (= s emptyStr)) :pattern ((slen s)))))
(assert (forall ((a Str) (b Str)) (! (= (slen (scat a b)) (+ (slen a) (slen b))) :pattern ((scat a b)))))
(assert (forall ((a Str) (b Str) (c Str)) (! (=> (= (scat a b) (scat a c)) (= b c)) :pattern ((scat a b) (scat a c)))))
(assert (forall ((a Str) (b Str) (c Str)) (! (= (scat (scat a b) c) (scat a (scat b c))) :pattern ((scat (scat a b) c)))))
(assert (forall ((a Str)) (! (= (scat a emptyStr) a) :pattern ((scat a emptyStr)))))
(assert (forall ((a Str)) (! (= (scat emptyStr a) a) :pattern ((scat emptyStr a)))))
(assert (forall ((s Str)) (! (>= (runeCount s) 0) :pattern ((runeCount s)))))
(assert (forall ((a Str)) (! (sle a a) :pattern ((sle a a)))))
(assert (forall ((a Str) (b Str)) (! (or (sle a b) (sle b a)) :pattern ((sle a b)))))
(assert (forall ((a Str) (b Str)) (! (=> (and (sle a b) (sle b a)) (= a b)) :pattern ((sle a b) (sle b a)))))
(assert (forall ((a Str) (b Str) (c Str)) (! (=> (and (sle a b) (sle b c)) (sle a c)) :pattern ((sle a b) (sle b c)))))
(assert (forall ((s Slice_Any) (i Int)) (! (= (elem_Slice_Any s i) (select (arr_Slice_Any s) (+ (off_Slice_Any s) i))) :pattern ((elem_Slice_Any s i)))))
(assert (forall ((s Slice_Int) (i Int)) (! (= (elem_Slice_Int s i) (select (arr_Slice_Int s) (+ (off_Slice_Int s) i))) :pattern ((elem_Slice_Int s i)))))
(assert (forall ((s Str)) (! (not (= (errorOfStr s) nilAny)) :pattern ((errorOfStr s)))))
(assert (forall ((t Int) (v Int)) (! (=> (> t 0) (= (typeOf (box_Int t v)) t)) :pattern ((box_Int t v)))))
(assert (forall ((t Int) (v Int)) (! (=> (> t 0) (= (unbox_Int (box_Int t v)) v)) :pattern ((box_Int t v)))))
(assert (forall ((q_c_39 Int)) (! (= (NF (box_Int 1 q_c_39)) (= (slen (S_posValue_Val (select H_LitMatcher_posValue@pre q_c_39))) 0)) :pattern ((NF (box_Int 1 q_c_39)))))) ; axiom nf-lit
(assert (forall ((q_c_40 Int)) (! (= (NF (box_Int 2 q_c_40)) (and (and (= (len_Slice_Int (select H_CharClassMatcher_Chars@pre q_c_40)) 0) (= (len_Slice_Int (select H_CharClassMatcher_Ranges@pre q_c_40)) 0)) (= (len_Slice_Str (select H_CharClassMatcher_UnicodeClasses@pre q_c_40)) 0))) :pattern ((NF (box_Int 2 q_c_40)))))) ; axiom nf-class
(assert (forall ((q_c_41 Int)) (! (not (NF (box_Int 3 q_c_41))) :pattern ((NF (box_Int 3 q_c_41)))))) ; axiom nf-any
(assert (forall ((q_c_42 Int) (q_n_43 Str)) (! (= (InFirst (box_Int 4 q_c_42) q_n_43) (exists ((q_k_44 Int)) (and (and (<= 0 q_k_44) (< q_k_44 (len_Slice_Any (select H_ChoiceExpr_Alternatives@pre q_c_42)))) (InFirst (elem_Slice_Any (select H_ChoiceExpr_Alternatives@pre q_c_42) q_k_44) q_n_43)))) :pattern ((InFirst (box_Int 4 q_c_42) q_n_43))))) ; axiom first-choice
(assert (forall ((q_c_45 Int) (q_n_46 Str)) (! (= (InFirst (box_Int 5 q_c_45) q_n_46) (exists ((q_k_47 Int)) (and (and (and (<= 0 q_k_47) (< q_k_47 (len_Slice_Any (select H_SeqExpr_Exprs@pre q_c_45)))) (InFirst (elem_Slice_Any (select H_SeqExpr_Exprs@pre q_c_45) q_k_47) q_n_46)) (forall ((q_j_48 Int)) (=> (and (<= 0 q_j_48) (< q_j_48 q_k_47)) (NF (elem_Slice_Any (select H_SeqExpr_Exprs@pre q_c_45) q_j_48))))))) :pattern ((InFirst (box_Int 5 q_c_45) q_n_46))))) ; axiom first-seq
(assert (forall ((q_c_49 Int) (q_n_50 Str)) (! (= (InFirst (box_Int 6 q_c_49) q_n_50) (InFirst (select H_ActionExpr_Expr@pre q_c_49) q_n_50)) :pattern ((InFirst (box_Int 6 q_c_49) q_n_50))))) ; axiom first-action
(assert (forall ((q_c_51 Int) (q_n_52 Str)) (! (= (InFirst (box_Int 7 q_c_51) q_n_52) (InFirst (select H_LabeledExpr_Expr@pre q_c_51) q_n_52)) :pattern ((InFirst (box_Int 7 q_c_51) q_n_52))))) ; axiom first-labeled
(assert (forall ((q_c_53 Int) (q_n_54 Str)) (! (= (InFirst (box_Int 8 q_c_53) q_n_54) (InFirst (select H_ZeroOrOneExpr_Expr@pre q_c_53) q_n_54)) :pattern ((InFirst (box_Int 8 q_c_53) q_n_54))))) ; axiom first-opt
(assert (forall ((q_c_55 Int) (q_n_56 Str)) (! (= (InFirst (box_Int 9 q_c_55) q_n_56) (InFirst (select H_ZeroOrMoreExpr_Expr@pre q_c_55) q_n_56)) :pattern ((InFirst (box_Int 9 q_c_55) q_n_56))))) ; axiom first-star
(assert (forall ((q_c_57 Int) (q_n_58 Str)) (! (= (InFirst (box_Int 10 q_c_57) q_n_58) (InFirst (select H_OneOrMoreExpr_Expr@pre q_c_57) q_n_58)) :pattern ((InFirst (box_Int 10 q_c_57) q_n_58))))) ; axiom first-plus
(assert (forall ((q_c_59 Int) (q_n_60 Str)) (! (= (InFirst (box_Int 11 q_c_59) q_n_60) (InFirst (select H_AndExpr_Expr@pre q_c_59) q_n_60)) :pattern ((InFirst (box_Int 11 q_c_59) q_n_60))))) ; axiom first-and
(assert (forall ((q_c_61 Int) (q_n_62 Str)) (! (= (InFirst (box_Int 12 q_c_61) q_n_62) (InFirst (select H_NotExpr_Expr@pre q_c_61) q_n_62)) :pattern ((InFirst (box_Int 12 q_c_61) q_n_62))))) ; axiom first-not
(assert (forall ((q_c_63 Int) (q_n_64 Str)) (! (= (InFirst (box_Int 13 q_c_63) q_n_64) (or (InFirst (select H_RecoveryExpr_Expr@pre q_c_63) q_n_64) (InFirst (select H_RecoveryExpr_RecoverExpr@pre q_c_63) q_n_64))) :pattern ((InFirst (box_Int 13 q_c_63) q_n_64))))) ; axiom first-recovery
(assert (forall ((q_c_65 Int) (q_n_66 Str)) (! (= (InFirst (box_Int 14 q_c_65) q_n_66) (and (not (= (select H_RuleRefExpr_Name@pre q_c_65) 0)) (= q_n_66 (S_posValue_Val (select H_Identifier_posValue@pre (select H_RuleRefExpr_Name@pre q_c_65)))))) :pattern ((InFirst (box_Int 14 q_c_65) q_n_66))))) ; axiom first-ruleref
(assert (forall ((q_c_67 Int) (q_n_68 Str)) (! (= (InFirst (box_Int 15 q_c_67) q_n_68) (InFirst (select H_Rule_Expr@pre q_c_67) q_n_68)) :pattern ((InFirst (box_Int 15 q_c_67) q_n_68))))) ; axiom first-rule
(assert (forall ((q_c_69 Int) (q_n_70 Str)) (! (not (InFirst (box_Int 16 q_c_69) q_n_70)) :pattern ((InFirst (box_Int 16 q_c_69) q_n_70))))) ; axiom first-throw
(assert (forall ((q_c_71 Int) (q_n_72 Str)) (! (not (InFirst (box_Int 17 q_c_71) q_n_72)) :pattern ((InFirst (box_Int 17 q_c_71) q_n_72))))) ; axiom first-state
(assert (forall ((q_c_73 Int) (q_n_74 Str)) (! (not (InFirst (box_Int 18 q_c_73) q_n_74)) :pattern ((InFirst (box_Int 18 q_c_73) q_n_74))))) ; axiom first-andcode
(assert (forall ((q_c_75 Int) (q_n_76 Str)) (! (not (InFirst (box_Int 19 q_c_75) q_n_76)) :pattern ((InFirst (box_Int 19 q_c_75) q_n_76))))) ; axiom first-notcode
(assert (forall ((q_c_77 Int) (q_n_78 Str)) (! (not (InFirst (box_Int 1 q_c_77) q_n_78)) :pattern ((InFirst (box_Int 1 q_c_77) q_n_78))))) ; axiom first-lit
(assert (forall ((q_c_79 Int) (q_n_80 Str)) (! (not (InFirst (box_Int 2 q_c_79) q_n_80)) :pattern ((InFirst (box_Int 2 q_c_79) q_n_80))))) ; axiom first-class
(assert (forall ((q_c_81 Int) (q_n_82 Str)) (! (not (InFirst (box_Int 3 q_c_81) q_n_82)) :pattern ((InFirst (box_Int 3 q_c_81) q_n_82))))) ; axiom first-any
(assert (forall ((q_e_83 Any)) (! (= (IsExpr q_e_83) (or (or (or (or (or (or (or (or (or (or (or (or (or (or (or (or (or (and (= (typeOf q_e_83) 4) (not (= (unbox_Int q_e_83) 0))) (and (= (typeOf q_e_83) 5) (not (= (unbox_Int q_e_83) 0)))) (and (= (typeOf q_e_83) 6) (not (= (unbox_Int q_e_83) 0)))) (and (= (typeOf q_e_83) 7) (not (= (unbox_Int q_e_83) 0)))) (and (= (typeOf q_e_83) 11) (not (= (unbox_Int q_e_83) 0)))) (and (= (typeOf q_e_83) 12) (not (= (unbox_Int q_e_83) 0)))) (and (= (typeOf q_e_83) 8) (not (= (unbox_Int q_e_83) 0)))) (and (= (typeOf q_e_83) 9) (not (= (unbox_Int q_e_83) 0)))) (and (= (typeOf q_e_83) 10) (not (= (unbox_Int q_e_83) 0)))) (and (= (typeOf q_e_83) 13) (not (= (unbox_Int q_e_83) 0)))) (and (= (typeOf q_e_83) 14) (not (= (unbox_Int q_e_83) 0)))) (and (= (typeOf q_e_83) 16) (not (= (unbox_Int q_e_83) 0)))) (and (= (typeOf q_e_83) 17) (not (= (unbox_Int q_e_83) 0)))) (and (= (typeOf q_e_83) 18) (not (= (unbox_Int q_e_83) 0)))) (and (= (typeOf q_e_83) 19) (not (= (unbox_Int q_e_83) 0)))) (and (= (typeOf q_e_83) 1) (not (= (unbox_Int q_e_83) 0)))) (and (= (typeOf q_e_83) 2) (not (= (unbox_Int q_e_83) 0)))) (and (= (typeOf q_e_83) 3) (not (= (unbox_Int q_e_83) 0))))) :pattern ((IsExpr q_e_83))))) ; axiom isexpr-def
(assert (forall ((q_o_84 Slice_Int) (q_j_85 Int) (q_a_86 (Array Int Int)) (q_n_87 Int)) (! (=> (and (and (and (KeptR q_o_84 q_j_85 q_a_86 q_n_87) (<= 0 q_j_85)) (< q_j_85 (len_Slice_Int q_o_84))) (forall ((q_i_88 Int)) (=> (and (<= 0 q_i_88) (< q_i_88 q_j_85)) (not (= (elem_Slice_Int q_o_84 q_i_88) (elem_Slice_Int q_o_84 q_j_85)))))) (KeptR q_o_84 (+ q_j_85 1) (store q_a_86 q_n_87 (elem_Slice_Int q_o_84 q_j_85)) (+ q_n_87 1))) :pattern ((KeptR q_o_84 q_j_85 q_a_86 q_n_87))))) ; axiom keptr-take
(assert (forall ((q_o_89 Slice_Int) (q_j_90 Int) (q_a_91 (Array Int Int)) (q_n_92 Int)) (! (=> (and (and (and (KeptR q_o_89 q_j_90 q_a_91 q_n_92) (<= 0 q_j_90)) (< q_j_90 (len_Slice_Int q_o_89))) (not (forall ((q_i_93 Int)) (=> (and (<= 0 q_i_93) (< q_i_93 q_j_90)) (not (= (elem_Slice_Int q_o_89 q_i_93) (elem_Slice_Int q_o_89 q_j_90))))))) (KeptR q_o_89 (+ q_j_90 1) q_a_91 q_n_92)) :pattern ((KeptR q_o_89 q_j_90 q_a_91 q_n_92))))) ; axiom keptr-skip
(assert (and (and (not (= G_ErrNoLeader@pre nilAny)) (not (= G_ErrHaveLeftRecursion@pre nilAny))) (not (= G_ErrInvalidParameters@pre nilAny)))) ; axiom errs-nonnil
(assert (forall ((q_b_94 Slice_Int)) (! (and (=> (= (len_Slice_Int q_b_94) 0) (and (= (decR q_b_94) 65533) (= (decW q_b_94) 0))) (=> (> (len_Slice_Int q_b_94) 0) (and (and (<= 1 (decW q_b_94)) (<= (decW q_b_94) 4)) (<= (decW q_b_94) (len_Slice_Int q_b_94))))) :pattern ((decW q_b_94))))) ; axiom dec-eof
(assert (forall ((q_a_95 Any) (q_b_96 Any) (q_c_97 Any)) (! (> (slen (sprintf_3 str!1 q_a_95 q_b_96 q_c_97)) 0) :pattern ((sprintf_3 str!1 q_a_95 q_b_96 q_c_97))))) ; axiom sprintf-pos-nonempty
(assert (forall ((q_b_98 Slice_Int)) (! (and (<= 0 (decR q_b_98)) (<= (decR q_b_98) 1114111)) :pattern ((decR q_b_98))))) ; axiom dec-range
(assert (forall ((q_c_99 Int)) (! (= (NF (box_Int 4 q_c_99)) (select H_ChoiceExpr_Nullable@pre q_c_99)) :pattern ((NF (box_Int 4 q_c_99)))))) ; axiom nf-choice
(assert (forall ((q_c_100 Int)) (! (= (NF (box_Int 5 q_c_100)) (select H_SeqExpr_Nullable@pre q_c_100)) :pattern ((NF (box_Int 5 q_c_100)))))) ; axiom nf-seq
(assert (forall ((q_c_101 Int)) (! (= (NF (box_Int 6 q_c_101)) (select H_ActionExpr_Nullable@pre q_c_101)) :pattern ((NF (box_Int 6 q_c_101)))))) ; axiom nf-action
(assert (forall ((q_c_102 Int)) (! (= (NF (box_Int 13 q_c_102)) (select H_RecoveryExpr_Nullable@pre q_c_102)) :pattern ((NF (box_Int 13 q_c_102)))))) ; axiom nf-recovery
(assert (forall ((q_c_103 Int)) (! (= (NF (box_Int 14 q_c_103)) (select H_RuleRefExpr_Nullable@pre q_c_103)) :pattern ((NF (box_Int 14 q_c_103)))))) ; axiom nf-ruleref
(assert (forall ((q_c_104 Int)) (! (= (NF (box_Int 15 q_c_104)) (select H_Rule_Nullable@pre q_c_104)) :pattern ((NF (box_Int 15 q_c_104)))))) ; axiom nf-rule
(assert (forall ((q_c_105 Int)) (! (= (NF (box_Int 7 q_c_105)) (NF (select H_LabeledExpr_Expr@pre q_c_105))) :pattern ((NF (box_Int 7 q_c_105)))))) ; axiom nf-labeled
(assert (forall ((q_c_106 Int)) (! (= (NF (box_Int 10 q_c_106)) (NF (select H_OneOrMoreExpr_Expr@pre q_c_106))) :pattern ((NF (box_Int 10 q_c_106)))))) ; axiom nf-plus
(assert (forall ((q_c_107 Int)) (! (NF (box_Int 11 q_c_107)) :pattern ((NF (box_Int 11 q_c_107)))))) ; axiom nf-and
(assert (forall ((q_c_108 Int)) (! (NF (box_Int 12 q_c_108)) :pattern ((NF (box_Int 12 q_c_108)))))) ; axiom nf-not
(assert (forall ((q_c_109 Int)) (! (NF (box_Int 8 q_c_109)) :pattern ((NF (box_Int 8 q_c_109)))))) ; axiom nf-opt
(assert (forall ((q_c_110 Int)) (! (NF (box_Int 9 q_c_110)) :pattern ((NF (box_Int 9 q_c_110)))))) ; axiom nf-star
(assert (forall ((q_c_111 Int)) (! (NF (box_Int 16 q_c_111)) :pattern ((NF (box_Int 16 q_c_111)))))) ; axiom nf-throw
(assert (forall ((q_c_112 Int)) (! (NF (box_Int 17 q_c_112)) :pattern ((NF (box_Int 17 q_c_112)))))) ; axiom nf-state
(assert (forall ((q_c_113 Int)) (! (NF (box_Int 18 q_c_113)) :pattern ((NF (box_Int 18 q_c_113)))))) ; axiom nf-andcode
(assert (forall ((q_c_114 Int)) (! (NF (box_Int 19 q_c_114)) :pattern ((NF (box_Int 19 q_c_114)))))) ; axiom nf-notcode
(assert (forall ((q_o_115 Slice_Int) (q_a_116 (Array Int Int))) (! (KeptR q_o_115 0 q_a_116 0) :pattern ((KeptR q_o_115 0 q_a_116 0))))) ; axiom keptr-base
(assert (forall ((r Int)) (! (and (<= 0 (len_Slice_Any (select H_ChoiceExpr_Alternatives@pre r))) (<= (len_Slice_Any (select H_ChoiceExpr_Alternatives@pre r)) (cap_Slice_Any (select H_ChoiceExpr_Alternatives@pre r))) (<= 0 (off_Slice_Any (select H_ChoiceExpr_Alternatives@pre r)))) :pattern ((select H_ChoiceExpr_Alternatives@pre r)))))
(assert (forall ((r Int)) (! (and (<= 0 (len_Slice_Any (select H_SeqExpr_Exprs@pre r))) (<= (len_Slice_Any (select H_SeqExpr_Exprs@pre r)) (cap_Slice_Any (select H_SeqExpr_Exprs@pre r))) (<= 0 (off_Slice_Any (select H_SeqExpr_Exprs@pre r)))) :pattern ((select H_SeqExpr_Exprs@pre r)))))
(assert (forall ((r Int)) (! (and (<= 0 (len_Slice_Int (select H_Grammar_Rules@pre r))) (<= (len_Slice_Int (select H_Grammar_Rules@pre r)) (cap_Slice_Int (select H_Grammar_Rules@pre r))) (<= 0 (off_Slice_Int (select H_Grammar_Rules@pre r)))) :pattern ((select H_Grammar_Rules@pre r)))))
(assert (forall ((r Int)) (! (and (<= 0 (len_Slice_Slice_Str (select H_builder_argsStack@pre r))) (<= (len_Slice_Slice_Str (select H_builder_argsStack@pre r)) (cap_Slice_Slice_Str (select H_builder_argsStack@pre r))) (<= 0 (off_Slice_Slice_Str (select H_builder_argsStack@pre r)))) :pattern ((select H_builder_argsStack@pre r)))))
(assert (forall ((r Int)) (! (and (<= 0 (len_Slice_Int (select H_CharClassMatcher_Chars@pre r))) (<= (len_Slice_Int (select H_CharClassMatcher_Chars@pre r)) (cap_Slice_Int (select H_CharClassMatcher_Chars@pre r))) (<= 0 (off_Slice_Int (select H_CharClassMatcher_Chars@pre r)))) :pattern ((select H_CharClassMatcher_Chars@pre r)))))
(assert (forall ((r Int)) (! (and (<= 0 (len_Slice_Int (select H_CharClassMatcher_Ranges@pre r))) (<= (len_Slice_Int (select H_CharClassMatcher_Ranges@pre r)) (cap_Slice_Int (select H_CharClassMatcher_Ranges@pre r))) (<= 0 (off_Slice_Int (select H_CharClassMatcher_Ranges@pre r)))) :pattern ((select H_CharClassMatcher_Ranges@pre r)))))
(assert (forall ((r Int)) (! (and (<= 0 (len_Slice_Str (select H_CharClassMatcher_UnicodeClasses@pre r))) (<= (len_Slice_Str (select H_CharClassMatcher_UnicodeClasses@pre r)) (cap_Slice_Str (select H_CharClassMatcher_UnicodeClasses@pre r))) (<= 0 (off_Slice_Str (select H_CharClassMatcher_UnicodeClasses@pre r)))) :pattern ((select H_CharClassMatcher_UnicodeClasses@pre r)))))
(assert (or (= in_b 0) (select Alloc@pre in_b)))
(assert (or (= in_grammar 0) (select Alloc@pre in_grammar)))
(assert (and (and (and (not (= in_b 0)) (not (= in_grammar 0))) (and (and (and (and (and (and (and (and (and (and (and (and (and (and (forall ((q_c_1 Int) (q_k_2 Int)) (! (=> (and (and (not (= q_c_1 0)) (<= 0 q_k_2)) (< q_k_2 (len_Slice_Any (select H_ChoiceExpr_Alternatives@pre q_c_1)))) (IsExpr (elem_Slice_Any (select H_ChoiceExpr_Alternatives@pre q_c_1) q_k_2))) :pattern ((elem_Slice_Any (select H_ChoiceExpr_Alternatives@pre q_c_1) q_k_2)))) (forall ((q_c_3 Int) (q_k_4 Int)) (! (=> (and (and (not (= q_c_3 0)) (<= 0 q_k_4)) (< q_k_4 (len_Slice_Any (select H_SeqExpr_Exprs@pre q_c_3)))) (IsExpr (elem_Slice_Any (select H_SeqExpr_Exprs@pre q_c_3) q_k_4))) :pattern ((elem_Slice_Any (select H_SeqExpr_Exprs@pre q_c_3) q_k_4))))) (forall ((q_c_5 Int)) (! (=> (not (= q_c_5 0)) (IsExpr (select H_ActionExpr_Expr@pre q_c_5))) :pattern ((select H_ActionExpr_Expr@pre q_c_5))))) (forall ((q_c_6 Int)) (! (=> (not (= q_c_6 0)) (IsExpr (select H_LabeledExpr_Expr@pre q_c_6))) :pattern ((select H_LabeledExpr_Expr@pre q_c_6))))) (forall ((q_c_7 Int)) (! (=> (not (= q_c_7 0)) (IsExpr (select H_AndExpr_Expr@pre q_c_7))) :pattern ((select H_AndExpr_Expr@pre q_c_7))))) (forall ((q_c_8 Int)) (! (=> (not (= q_c_8 0)) (IsExpr (select H_NotExpr_Expr@pre q_c_8))) :pattern ((select H_NotExpr_Expr@pre q_c_8))))) (forall ((q_c_9 Int)) (! (=> (not (= q_c_9 0)) (IsExpr (select H_ZeroOrOneExpr_Expr@pre q_c_9))) :pattern ((select H_ZeroOrOneExpr_Expr@pre q_c_9))))) (forall ((q_c_10 Int)) (! (=> (not (= q_c_10 0)) (IsExpr (select H_ZeroOrMoreExpr_Expr@pre q_c_10))) :pattern ((select H_ZeroOrMoreExpr_Expr@pre q_c_10))))) (forall ((q_c_11 Int)) (! (=> (not (= q_c_11 0)) (IsExpr (select H_OneOrMoreExpr_Expr@pre q_c_11))) :pattern ((select H_OneOrMoreExpr_Expr@pre q_c_11))))) (forall ((q_c_12 Int)) (! (=> (not (= q_c_12 0)) (IsExpr (select H_RecoveryExpr_Expr@pre q_c_12))) :pattern ((select H_RecoveryExpr_Expr@pre q_c_12))))) (forall ((q_c_13 Int)) (! (=> (not (= q_c_13 0)) (IsExpr (select H_RecoveryExpr_RecoverExpr@pre q_c_13))) :pattern ((select H_RecoveryExpr_RecoverExpr@pre q_c_13))))) (forall ((q_c_14 Int)) (! (=> (not (= q_c_14 0)) (not (= (select H_RuleRefExpr_Name@pre q_c_14) 0))) :pattern ((select H_RuleRefExpr_Name@pre q_c_14))))) (forall ((q_c_15 Int)) (! (=> (not (= q_c_15 0)) (IsExpr (select H_Rule_Expr@pre q_c_15))) :pattern ((select H_Rule_Expr@pre q_c_15))))) (forall ((q_c_16 Int)) (! (=> (not (= q_c_16 0)) (not (= (select H_Rule_Name@pre q_c_16) 0))) :pattern ((select H_Rule_Name@pre q_c_16))))) (forall ((q_c_17 Int) (q_k_18 Int)) (! (=> (and (and (not (= q_c_17 0)) (<= 0 q_k_18)) (< q_k_18 (len_Slice_Int (select H_Grammar_Rules@pre q_c_17)))) (not (= (elem_Slice_Int (select H_Grammar_Rules@pre q_c_17) q_k_18) 0))) :pattern ((elem_Slice_Int (select H_Grammar_Rules@pre q_c_17) q_k_18)))))) (forall ((q_k_19 Int)) (=> (and (<= 0 q_k_19) (< q_k_19 (len_Slice_Int (select H_Grammar_Rules@pre in_grammar)))) (not (= (elem_Slice_Int (select H_Grammar_Rules@pre in_grammar) q_k_19) 0))))))
(assert (and (and (not (= in_grammar 0)) (and (and (and (and (and (and (and (and (and (and (and (and (and (and (forall ((q_c_20 Int) (q_k_21 Int)) (! (=> (and (and (not (= q_c_20 0)) (<= 0 q_k_21)) (< q_k_21 (len_Slice_Any (select H_ChoiceExpr_Alternatives@pre q_c_20)))) (IsExpr (elem_Slice_Any (select H_ChoiceExpr_Alternatives@pre q_c_20) q_k_21))) :pattern ((elem_Slice_Any (select H_ChoiceExpr_Alternatives@pre q_c_20) q_k_21)))) (forall ((q_c_22 Int) (q_k_23 Int)) (! (=> (and (and (not (= q_c_22 0)) (<= 0 q_k_23)) (< q_k_23 (len_Slice_Any (select H_SeqExpr_Exprs@pre q_c_22)))) (IsExpr (elem_Slice_Any (select H_SeqExpr_Exprs@pre q_c_22) q_k_23))) :pattern ((elem_Slice_Any (select H_SeqExpr_Exprs@pre q_c_22) q_k_23))))) (forall ((q_c_24 Int)) (! (=> (not (= q_c_24 0)) (IsExpr (select H_ActionExpr_Expr@pre q_c_24))) :pattern ((select H_ActionExpr_Expr@pre q_c_24))))) (forall ((q_c_25 Int)) (! (=> (not (= q_c_25 0)) (IsExpr (select H_LabeledExpr_Expr@pre q_c_25))) :pattern ((select H_LabeledExpr_Expr@pre q_c_25))))) (forall ((q_c_26 Int)) (! (=> (not (= q_c_26 0)) (IsExpr (select H_AndExpr_Expr@pre q_c_26))) :pattern ((select H_AndExpr_Expr@pre q_c_26))))) (forall ((q_c_27 Int)) (! (=> (not (= q_c_27 0)) (IsExpr (select H_NotExpr_Expr@pre q_c_27))) :pattern ((select H_NotExpr_Expr@pre q_c_27))))) (forall ((q_c_28 Int)) (! (=> (not (= q_c_28 0)) (IsExpr (select H_ZeroOrOneExpr_Expr@pre q_c_28))) :pattern ((select H_ZeroOrOneExpr_Expr@pre q_c_28))))) (forall ((q_c_29 Int)) (! (=> (not (= q_c_29 0)) (IsExpr (select H_ZeroOrMoreExpr_Expr@pre q_c_29))) :pattern ((select H_ZeroOrMoreExpr_Expr@pre q_c_29))))) (forall ((q_c_30 Int)) (! (=> (not (= q_c_30 0)) (IsExpr (select H_OneOrMoreExpr_Expr@pre q_c_30))) :pattern ((select H_OneOrMoreExpr_Expr@pre q_c_30))))) (forall ((q_c_31 Int)) (! (=> (not (= q_c_31 0)) (IsExpr (select H_RecoveryExpr_Expr@pre q_c_31))) :pattern ((select H_RecoveryExpr_Expr@pre q_c_31))))) (forall ((q_c_32 Int)) (! (=> (not (= q_c_32 0)) (IsExpr (select H_RecoveryExpr_RecoverExpr@pre q_c_32))) :pattern ((select H_RecoveryExpr_RecoverExpr@pre q_c_32))))) (forall ((q_c_33 Int)) (! (=> (not (= q_c_33 0)) (not (= (select H_RuleRefExpr_Name@pre q_c_33) 0))) :pattern ((select H_RuleRefExpr_Name@pre q_c_33))))) (forall ((q_c_34 Int)) (! (=> (not (= q_c_34 0)) (IsExpr (select H_Rule_Expr@pre q_c_34))) :pattern ((select H_Rule_Expr@pre q_c_34))))) (forall ((q_c_35 Int)) (! (=> (not (= q_c_35 0)) (not (= (select H_Rule_Name@pre q_c_35) 0))) :pattern ((select H_Rule_Name@pre q_c_35))))) (forall ((q_c_36 Int) (q_k_37 Int)) (! (=> (and (and (not (= q_c_36 0)) (<= 0 q_k_37)) (< q_k_37 (len_Slice_Int (select H_Grammar_Rules@pre q_c_36)))) (not (= (elem_Slice_Int (select H_Grammar_Rules@pre q_c_36) q_k_37) 0))) :pattern ((elem_Slice_Int (select H_Grammar_Rules@pre q_c_36) q_k_37)))))) (forall ((q_k_38 Int)) (=> (and (<= 0 q_k_38) (< q_k_38 (len_Slice_Int (select H_Grammar_Rules@pre in_grammar)))) (not (= (elem_Slice_Int (select H_Grammar_Rules@pre in_grammar) q_k_38) 0))))))
(assert (forall ((r Int)) (! (=> (select Alloc@pre r) (select Alloc!10 r)) :pattern ((select Alloc!10 r)))))
(assert (=> (not (= ret_PrepareGrammar!12 nilAny)) (not ret_PrepareGrammar!11)))
(assert (not (and (not (= ret_PrepareGrammar!12 nilAny)) (select H_builder_supportLeftRecursion@pre in_b))))
(assert (not (and (not (select H_builder_supportLeftRecursion@pre in_b)) ret_PrepareGrammar!11)))
(assert (= H_builder_haveLeftRecursion!15 (store H_builder_haveLeftRecursion@pre in_b ret_PrepareGrammar!11)))
(assert (forall ((r Int)) (! (=> (select Alloc!10 r) (select Alloc!17 r)) :pattern ((select Alloc!17 r)))))
(assert (forall ((r Int)) (! (=> (select Alloc!17 r) (select Alloc!27 r)) :pattern ((select Alloc!27 r)))))
(assert (and (<= 0 (len_Slice_Int (select H_Grammar_Rules@pre in_grammar))) (<= (len_Slice_Int (select H_Grammar_Rules@pre in_grammar)) (cap_Slice_Int (select H_Grammar_Rules@pre in_grammar))) (<= 0 (off_Slice_Int (select H_Grammar_Rules@pre in_grammar)))))
(assert (forall ((r Int)) (! (and (<= 0 (len_Slice_Slice_Str (select H_builder_argsStack!30 r))) (<= (len_Slice_Slice_Str (select H_builder_argsStack!30 r)) (cap_Slice_Slice_Str (select H_builder_argsStack!30 r))) (<= 0 (off_Slice_Slice_Str (select H_builder_argsStack!30 r)))) :pattern ((select H_builder_argsStack!30 r)))))
(assert (forall ((r Int)) (! (=> (select Alloc!27 r) (select Alloc!35 r)) :pattern ((select Alloc!35 r)))))
(assert (<= 0 idx1!36))
(assert (<= idx1!36 (len_Slice_Int (select H_Grammar_Rules@pre in_grammar))))
(assert (not (< idx1!36 (len_Slice_Int (select H_Grammar_Rules@pre in_grammar)))))
(assert (forall ((r Int)) (! (=> (select Alloc!35 r) (select Alloc!47 r)) :pattern ((select Alloc!47 r)))))
(assert (not (=> (not (= ret_PrepareGrammar!12 nilAny)) (not (= (select H_builder_err!46 in_b) nilAny)))))
(check-sat)
(get-value (in_b in_grammar))
