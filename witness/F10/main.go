package main

import (
	"fmt"
	"os"
)

// F10: [Z-a]i. The general procedure lower-cases the range endpoints to z-a (empty), so "[" is
// rejected by a parser generated without -optimize-basic-latin; the Basic Latin table expands the
// original range Z..a member by member and accepts "[". This parser is generated WITH the flag:
// defect present iff "[" is accepted.
func main() {
	_, err := Parse("", []byte("["))
	if err == nil {
		fmt.Println("defect present: \"[\" accepted by [Z-a]i with -optimize-basic-latin (rejected without)")
		os.Exit(0)
	}
	fmt.Println("defect gone:", err)
	os.Exit(1)
}
