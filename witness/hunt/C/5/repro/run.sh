#!/bin/sh
# usage: run.sh <pigeon source tree>
# exit 0: violation observed, exit 1: not observed (or the tooling failed)
set -u
SRC=${1:?usage: run.sh <pigeon source tree>}
export GOFLAGS=-mod=mod GOPROXY=off GOSUMDB=off GOTOOLCHAIN=local
GO=${GO:-go1.26}
HERE=$(cd "$(dirname "$0")" && pwd)
W=$(mktemp -d)
trap 'rm -rf "$W"' EXIT
(cd "$SRC" && $GO build -o "$W/pigeon" .) || { echo "cannot build pigeon"; exit 1; }
P="$W/pigeon"

# gen_build <dir> <grammar> <flags...>: generate a parser and build $W/<dir>/demo.
# memoOpts() yields Memoize(true) unless the parser is built with -optimize-parser
# (which removes the option).
gen_build() {
	d="$W/$1"; g="$2"; shift 2
	mkdir -p "$d"
	printf 'module demo\n\ngo 1.25\n' > "$d/go.mod"
	cp "$HERE/main.go" "$d/main.go"
	case " $* " in
	*" -optimize-parser "*) printf 'package main\n\nfunc memoOpts() []Option { return nil }\n' > "$d/memo.go" ;;
	*) printf 'package main\n\nfunc memoOpts() []Option { return []Option{Memoize(true)} }\n' > "$d/memo.go" ;;
	esac
	"$P" "$@" -o "$d/parser.go" "$g" || return 1
	(cd "$d" && $GO build -o demo .) || return 1
}

# finding 5: a recovery expression that throws its own label recurses without bound at one offset;
# the grammar is accepted without -support-left-recursion.
gen_build st "$HERE/selfthrow.peg" || { echo "grammar rejected (not observed)"; exit 1; }
echo "-- grammar accepted without -support-left-recursion"
"$W/st/demo" plain a b
OUT=$(timeout 120 "$W/st/demo" plain c 2>&1 | head -5); echo "$OUT"
if echo "$OUT" | grep -q "stack overflow\|goroutine stack exceeds"; then
	echo "VIOLATION: unbounded recursion (fatal stack overflow) at offset 0 on input \"c\""
	exit 0
fi
echo "not observed"
exit 1
