package main

import (
	"encoding/json"
	"fmt"
	"go/ast"
	"go/token"
	"os"
	"os/exec"
	"path/filepath"
	"sort"
	"strings"
	"time"
)

func isFuncDecl(d ast.Decl) bool { _, ok := d.(*ast.FuncDecl); return ok }

// isVarG: the probe grammar literal `var g = &grammar{...}` is grammar-dependent data, not runtime code.
func isVarG(d ast.Decl) bool {
	gd, ok := d.(*ast.GenDecl)
	if !ok || gd.Tok != token.VAR {
		return false
	}
	for _, sp := range gd.Specs {
		for _, n := range sp.(*ast.ValueSpec).Names {
			if n.Name == "g" {
				return true
			}
		}
	}
	return false
}

func (d *Driver) loadKnown() error {
	d.knownHit = map[string]bool{}
	if hb, err := os.ReadFile(filepath.Join(d.Verif, "solver_hints.json")); err == nil {
		json.Unmarshal(hb, &solverHints)
	}
	b, err := os.ReadFile(filepath.Join(d.Verif, "known_findings.json"))
	if err != nil {
		if os.IsNotExist(err) {
			return nil
		}
		return err
	}
	var f struct {
		Findings []KnownFinding `json:"findings"`
	}
	if err := json.Unmarshal(b, &f); err != nil {
		return err
	}
	d.known = f.Findings
	return nil
}

// witnessStillFails runs the finding's witness command; exit 0 = the defect is still present.
var witnessCache = map[string]bool{}

func (d *Driver) witnessStillFails(k KnownFinding) bool {
	if v, ok := witnessCache[k.ID]; ok {
		return v
	}
	if k.Witness == "" {
		witnessCache[k.ID] = true
		return true
	}
	cmd := exec.Command("sh", "-c", k.Witness)
	cmd.Dir = d.Verif
	cmd.Env = append(os.Environ(), "GOFLAGS=-mod=mod", "GOPROXY=off", "GOSUMDB=off", "GOTOOLCHAIN=local", "VERIF_REPO="+d.Repo)
	out, err := cmd.CombinedOutput()
	still := err == nil
	if d.Verbose {
		fmt.Fprintf(os.Stderr, "witness %s: still-fails=%v\n%s\n", k.ID, still, out)
	}
	witnessCache[k.ID] = still
	return still
}

// applyKnownRegions: for every query of an obligation listed as a known finding whose witness still
// fails on the real code, assume the complement of the finding's region (so that any OTHER violation
// of the same clause is still reported).
func (fx *FnCtx) applyKnownRegions(d *Driver) {
	for _, k := range d.known {
		if k.Status != "known" {
			continue
		}
		for _, q := range fx.queries {
			if q.pending == nil || q.IsCover {
				continue
			}
			if !matchObligation(q.Obligation, k) {
				continue
			}
			if !d.witnessStillFails(k) {
				continue // repaired: the obligation must discharge in full
			}
			d.knownHit[k.ID] = true
			if k.Region == "" || k.Region == "true" {
				q.pending.goal = "true"
				q.KnownID = k.ID
				continue
			}
			e, err := parseSpecExpr(k.Region)
			if err != nil {
				fx.fail("known finding %s: bad region: %v", k.ID, err)
			}
			r := fx.specBool(fx.entry, e)
			q.pending.facts = append(q.pending.facts, "(not "+r+")")
			q.KnownID = k.ID
		}
	}
}

// activeDriver lets the VC generator ask, while it executes a body, whether an assertion it is about to ASSUME
// (after having emitted it as an obligation) is excused by a known finding: an excused assertion is only known to
// hold outside the finding's region, so only that may be assumed -- assuming it in full would make everything
// after it vacuously true inside the region.
var activeDriver *Driver

// assumeAfterAssert returns what may be assumed after the assertion `name` (obligation name without the
// "<target>:<func>:" prefix) with goal `goal` has been emitted.
func (fx *FnCtx) assumeAfterAssert(name, goal string) string {
	d := activeDriver
	if d == nil {
		return goal
	}
	full := fx.oblPrefix() + ":" + name
	for _, k := range d.known {
		if k.Status != "known" || !matchObligation(full, k) || !d.witnessStillFails(k) {
			continue
		}
		if k.Region == "" || k.Region == "true" {
			return "true"
		}
		e, err := parseSpecExpr(k.Region)
		if err != nil {
			fx.fail("known finding %s: bad region: %v", k.ID, err)
		}
		return "(=> (not " + fx.specBool(fx.entry, e) + ") " + goal + ")"
	}
	return goal
}

// calleeRegion: is the clause `rest` of callee `key` excused by a known finding? Then its region, evaluated in the
// callee's pre-state at this call ("" = everywhere).
func (fx *FnCtx) calleeRegion(key, rest string, pre *Env) (string, bool) {
	d := activeDriver
	if d == nil {
		return "", false
	}
	full := fx.pkg.Name + ":" + key + ":" + rest
	for _, k := range d.known {
		if k.Status != "known" || !matchObligation(full, k) || !d.witnessStillFails(k) {
			continue
		}
		if k.Region == "" || k.Region == "true" {
			return "", true
		}
		e, err := parseSpecExpr(k.Region)
		if err != nil {
			fx.fail("known finding %s: bad region: %v", k.ID, err)
		}
		return fx.specBool(pre, e), true
	}
	return "", false
}

func matchObligation(name string, k KnownFinding) bool {
	// name = "<target>:<func>:<rest>"; k.Obligation = "<func>:<rest>" (any target) or full name
	if name == k.Obligation {
		return true
	}
	i := strings.Index(name, ":")
	if i < 0 || name[i+1:] != k.Obligation {
		return false
	}
	if len(k.Targets) == 0 {
		return true
	}
	for _, t := range k.Targets {
		if strings.HasPrefix(name, t) {
			return true
		}
	}
	return false
}

type oblResult struct {
	Name      string   `json:"name"`
	Clause    string   `json:"clause,omitempty"`
	Paths     int      `json:"paths"`
	Discharged bool    `json:"discharged"`
	Solvers   []string `json:"solvers"`
	Millis    int64    `json:"solver_ms"`
	Known     string   `json:"known_finding_region_excluded,omitempty"`
	Bounded   bool     `json:"bounded_stand_in,omitempty"`
}

func (d *Driver) report() int {
	byName := map[string][]*Query{}
	var order []string
	covers := 0
	vacuous := []string{}
	for _, q := range d.queries {
		if q.IsCover {
			covers++
			if q.Result == "unsat" {
				vacuous = append(vacuous, q.Obligation)
			}
			continue
		}
		if _, ok := byName[q.Obligation]; !ok {
			order = append(order, q.Obligation)
		}
		byName[q.Obligation] = append(byName[q.Obligation], q)
	}
	sort.Strings(order)
	var results []oblResult
	var failed []*Query
	solverCount := map[string]int{}
	var totalMs int64
	var slow []string
	for _, n := range order {
		qs := byName[n]
		r := oblResult{Name: n, Clause: qs[0].Clause, Paths: len(qs), Discharged: true, Bounded: qs[0].Kind == "bounded"}
		sv := map[string]bool{}
		for _, q := range qs {
			r.Millis += q.Millis
			totalMs += q.Millis
			if q.Result == "unsat" {
				sv[q.Solver] = true
				solverCount[q.Solver]++
			} else {
				r.Discharged = false
				failed = append(failed, q)
			}
			if q.KnownID != "" {
				r.Known = q.KnownID
			}
			if q.Millis > 5000 {
				slow = append(slow, fmt.Sprintf("%s p%d %dms", q.Obligation, q.Path, q.Millis))
			}
		}
		r.Solvers = sortedKeys(sv)
		results = append(results, r)
	}
	// bounded stand-ins are reported, can raise a violation, and are never counted as proved
	discharged, nProof, nBounded, boundedHeld := 0, 0, 0, 0
	for _, r := range results {
		if r.Bounded {
			nBounded++
			if r.Discharged {
				boundedHeld++
			}
			continue
		}
		nProof++
		if r.Discharged {
			discharged++
		}
	}
	d.nBounded, d.boundedHeld = nBounded, boundedHeld
	// ----- verdict -----
	exit := 0
	prop := d.Prop
	if prop == "" {
		prop = "ALL"
	}
	violations := 0
	os.MkdirAll(filepath.Join(d.Verif, "replays"), 0o755)
	reported := map[string]bool{}
	for _, q := range failed {
		if reported[q.Obligation] {
			continue
		}
		reported[q.Obligation] = true
		violations++
		exit = 1
		rp := d.writeReplay(q, byName[q.Obligation])
		suffix := ""
		if !rp.reproduced {
			suffix = " no-failing-input-found"
		}
		fmt.Printf("VIOLATION property=%s replay=%s obligation=%s result=%s%s\n", prop, rp.path, q.Obligation, q.Result, suffix)
	}
	for _, v := range vacuous {
		fmt.Printf("ERROR vacuous contract (precondition unsatisfiable): %s\n", v)
		exit = 2
	}
	for _, np := range d.notProved {
		fmt.Printf("NOTE not proved (outside subset): %s\n", np)
	}
	if d.WriteInv && d.OnlyFunc == "" && d.OnlyVariant == "" && len(failed) == 0 {
		d.writeInventory(results)
	} else if d.WriteInv {
		fmt.Println("NOTE inventory not written (partial run or undischarged obligations)")
	}
	if len(results) == 0 {
		fmt.Printf("ERROR no obligations generated for property %s\n", prop)
		exit = 2
	}
	// inventory: obligations that used to exist must still exist
	missing := d.checkInventory(prop, order)
	for _, m := range missing {
		// an obligation that discharged on the unchanged tree can no longer even be generated
		// (function removed, renamed, or no longer inside the verifiable subset): not decided = not passed
		rp := filepath.Join(d.Verif, "replays", sanitize(m)+".json")
		why := "obligation is in the inventory but was not generated on this run"
		for _, np := range d.notProved {
			parts := strings.Split(m, ":")
			if len(parts) > 1 && strings.Contains(np, parts[1]) {
				why = "function left the verifiable subset: " + np
			}
		}
		b, _ := json.MarshalIndent(map[string]any{"obligation": m, "result": "not-generated", "reason": why, "reproduced_on_real_code": false}, "", " ")
		os.WriteFile(rp, b, 0o644)
		fmt.Printf("VIOLATION property=%s replay=%s obligation=%s result=not-generated (%s) no-failing-input-found\n", prop, rp, m, why)
		violations++
		exit = 1
	}
	// a function that discharged obligations of this property on the unchanged tree and can no longer be
	// brought under its contract in SOME instantiation (its other instantiations still produce the same
	// obligation names, so the inventory alone does not notice): not decided = not passed
	for _, np := range d.notProved {
		// "<target>: <func>: <message>"  or  "<target>:<func>: <message>"
		target, fn := "", ""
		if i := strings.Index(np, ": "); i > 0 {
			target = np[:i]
			rest := np[i+2:]
			if j := strings.Index(target, "]:"); j > 0 {
				fn, target = target[j+2:], target[:j+1]
			} else if j := strings.Index(target, ":"); j > 0 && !strings.HasPrefix(target, "rt[") {
				fn, target = target[j+1:], target[:j]
			}
			if fn == "" {
				if j := strings.Index(rest, ": "); j > 0 {
					fn = rest[:j]
				}
			}
		}
		if fn == "" {
			continue
		}
		prefix := stripTarget(target+":") + fn + ":"
		if strings.HasPrefix(fn, "instantiation does not type-check") {
			prefix, fn = "rt:", "typecheck" // the whole instantiation is gone
		}
		// (every function that reaches this point was selected because its contract carries clauses of this property or
		// it calls something that does: whether or not the inventory already lists obligations of it, "cannot be
		// verified any more" is never a pass. On the unchanged tree no function is outside the subset.)
		_ = prefix
		name := target + ":" + fn + ":contract-applies"
		rp := filepath.Join(d.Verif, "replays", sanitize(name)+".json")
		b, _ := json.MarshalIndent(map[string]any{"obligation": name, "result": "not-generated", "reason": "the function can no longer be verified against its contract in this instantiation: " + np, "reproduced_on_real_code": false}, "", " ")
		os.WriteFile(rp, b, 0o644)
		fmt.Printf("VIOLATION property=%s replay=%s obligation=%s result=not-generated (function left the verifiable subset: %s) no-failing-input-found\n", prop, rp, name, np)
		violations++
		exit = 1
	}
	// known findings
	var knownLines []string
	for _, k := range d.known {
		if k.Status != "known" || (d.Prop != "" && !literalTag(k.Properties, d.Prop)) {
			continue
		}
		if d.witnessStillFails(k) {
			pr := d.Prop
			if pr == "" {
				pr = strings.Join(k.Properties, ",")
			}
			l := fmt.Sprintf("KNOWN-FINDING: property=%s %s obligation=%s %s", pr, k.ID, k.Obligation, k.What)
			fmt.Println(l)
			knownLines = append(knownLines, l)
		}
	}
	bnd := ""
	if nBounded > 0 {
		bnd = fmt.Sprintf(" (+ %d bounded stand-ins, %d held: not counted as proved)", nBounded, boundedHeld)
	}
	fmt.Printf("%s: %d obligations, %d discharged%s, %d queries, %d functions, %d cover probes, %.1fs\n", prop, nProof, discharged, bnd, len(d.queries), len(d.funcsDone), covers, time.Since(d.start).Seconds())
	if d.Evidence != "" {
		d.writeEvidence(prop, results, discharged, solverCount, totalMs, slow, knownLines, violations, covers)
	}
	if exit == 2 {
		// internal errors are reported as a broken check, never as a pass
		return 2
	}
	return exit
}

func (d *Driver) checkInventory(prop string, have []string) []string {
	b, err := os.ReadFile(filepath.Join(d.Verif, "obligations.json"))
	if err != nil {
		return nil
	}
	var inv map[string][]string
	if json.Unmarshal(b, &inv) != nil {
		return nil
	}
	if d.OnlyFunc != "" || d.OnlyVariant != "" {
		return nil
	}
	hs := map[string]bool{}
	for _, h := range have {
		hs[stripTarget(h)] = true
	}
	var missing []string
	for _, n := range inv[prop] {
		if !hs[n] {
			missing = append(missing, n)
		}
	}
	return missing
}

func (d *Driver) inventoryHasPrefix(prop, prefix string) bool {
	b, err := os.ReadFile(filepath.Join(d.Verif, "obligations.json"))
	if err != nil {
		return false
	}
	var inv map[string][]string
	if json.Unmarshal(b, &inv) != nil {
		return false
	}
	if prop == "ALL" {
		for _, l := range inv {
			for _, n := range l {
				if strings.HasPrefix(n, prefix) {
					return true
				}
			}
		}
		return false
	}
	for _, n := range inv[prop] {
		if strings.HasPrefix(n, prefix) {
			return true
		}
	}
	return false
}

// stripTarget: "rt[o0b0l0s0]:read:ensures[x]" -> "rt:read:ensures[x]" (variant-independent inventory key)
func stripTarget(n string) string {
	if strings.HasPrefix(n, "rt[") {
		if i := strings.Index(n, "]"); i > 0 {
			return "rt" + n[i+1:]
		}
	}
	return n
}

type replayInfo struct {
	path       string
	reproduced bool
}

func (d *Driver) writeReplay(q *Query, all []*Query) replayInfo {
	path := filepath.Join(d.Verif, "replays", sanitize(q.Obligation)+".json")
	type pathInfo struct {
		Path   int    `json:"path"`
		Result string `json:"result"`
		Solver string `json:"solver"`
		Where  string `json:"where"`
		Output string `json:"solver_output"`
		SMT    string `json:"smt2_file,omitempty"`
	}
	var ps []pathInfo
	for _, x := range all {
		if x.Result == "unsat" {
			continue
		}
		out := x.Model
		if len(out) > 6000 {
			out = out[:6000] + "...(truncated)"
		}
		smtFile := filepath.Join(d.Verif, "replays", sanitize(x.Obligation)+fmt.Sprintf("_p%d.smt2", x.Path))
		os.WriteFile(smtFile, []byte(x.SMT), 0o644)
		ps = append(ps, pathInfo{x.Path, x.Result, x.Solver, x.Where, out, smtFile})
	}
	rep := map[string]any{
		"obligation": q.Obligation,
		"function":   q.Func,
		"kind":       q.Kind,
		"clause":     q.Clause,
		"failed_paths": ps,
		"reproduced_on_real_code": false,
		"note": "the obligation is generated from /repo's current source; it discharged on the unchanged tree. Re-run: bin/govc -prop <id> -func " + q.Func + " -keep -v",
	}
	ri := replayInfo{path: path}
	// model replay on the real code where a replayer exists for this function family
	if ok, detail := d.tryReplay(q); detail != "" {
		rep["replay_detail"] = detail
		rep["reproduced_on_real_code"] = ok
		ri.reproduced = ok
	}
	b, _ := json.MarshalIndent(rep, "", " ")
	os.WriteFile(path, b, 0o644)
	return ri
}

func (d *Driver) writeEvidence(prop string, results []oblResult, discharged int, solverCount map[string]int, totalMs int64, slow, known []string, violations, covers int) {
	level := levelOf(prop)
	var samples []any
	for i, r := range results {
		if i%maxInt(1, len(results)/6) == 0 && len(samples) < 8 {
			samples = append(samples, map[string]any{"obligation": r.Name, "clause": r.Clause, "paths": r.Paths, "discharged": r.Discharged, "solvers": r.Solvers})
		}
	}
	if len(samples) == 0 {
		samples = append(samples, "no obligations")
	}
	trusted := []string{
		"govc itself: symbolic executor over go/ast+go/types, Burstall-Bornat heap, slices as values (arr,off,len,cap), maps as (dom,val) arrays, mathematical integers with declared ranges",
		"assumed contracts of standard-library functions (specs/extern.spec)",
		"SMT solvers z3 5.1.0 / z3 4.8.12 / cvc5 1.0.3 (one unsat answer accepted in quick tier)",
		"meta-arguments listed in DESIGN.md section 12 (structural induction over the run, PEG determinacy)",
	}
	cov := map[string]any{
		"obligations":   len(results) - d.nBounded,
		"discharged":    discharged,
		"bounded_stand_ins": map[string]any{"count": d.nBounded, "held": d.boundedHeld, "bound": boundedSCCBound, "note": "checked by running the real functions on every input within the bound against an independent oracle; labelled bounded, not counted in obligations/discharged"},
		"queries":       len(d.queries),
		"cover_probes":  covers,
		"checker_cmd":   "bin/govc -prop " + prop + " -tier " + d.Tier + " -targets " + d.Targets,
		"trusted_base":  trusted,
		"samples":       samples,
		"functions_under_contract": d.funcsDone,
		"solver_discharge_counts":  solverCount,
		"solver_ms_total":          totalMs,
		"slow_queries":             slow,
		"queries_retried_with_longer_timeout": d.retried,
		"not_proved":               d.notProved,
		"frontend_copy_unreachable": d.unreachable,
		"known_findings_printed":   known,
		"obligation_results":       results,
		"explanation": "every obligation is generated on this run from /repo's working tree (runtime template instantiated by the real builder; ast/builder parsed in place) against the //@ contracts, one SMT query per (obligation, path); discharged = all paths unsat",
		"evaluations":         len(d.queries),
		"distinct_nontrivial": len(results),
		"rule":                "one case = one (obligation, control-flow path) SMT query; distinct_nontrivial counts distinct obligation names",
	}
	ev := map[string]any{
		"property_id": prop,
		"tier":        d.Tier,
		"seed":        seedFromEnv(),
		"level":       level,
		"coverage":    cov,
		"assumptions": assumptionsFor(prop),
		"wall_s":      time.Since(d.start).Seconds(),
		"violations":  violations,
	}
	b, _ := json.MarshalIndent(ev, "", " ")
	os.MkdirAll(filepath.Dir(d.Evidence), 0o755)
	os.WriteFile(d.Evidence, b, 0o644)
}

func maxInt(a, b int) int {
	if a > b {
		return a
	}
	return b
}

func seedFromEnv() int {
	var n int
	fmt.Sscan(os.Getenv("VERIF_SEED"), &n)
	return n
}

func levelOf(prop string) string {
	switch prop {
	case "C04", "C09", "C13", "C18":
		return "other"
	}
	return "proof"
}

func assumptionsFor(prop string) []string {
	extra := map[string][]string{
		"C12": {"Memoize(false): a memo hit replays no failure events, so with Memoize(true) the final message can differ (defect F14, DESIGN 16.3); the global maximum over the run is an induction over the per-function obligations (meta)"},
		"C07": {"scc.go is under contract for shape and safety (components are fresh non-empty sets of non-empty names; members of a component with several members have outgoing edges; no panic; every vertex handed in is in some component): PROVED. That the components are disjoint and are the classes of mutual reachability and that every simple cycle is enumerated is only checked by the BOUNDED stand-in (all directed graphs with <= 4 vertices); termination of the two recursive closures is not claimed", "front-end guarantees TreeWF()/CodeWF()/NamesWF()/RuleNamesWF() (non-empty rule and reference names) are assumed (C03 is not applicable)"},
		"C08": {"'the leader lies on every cycle of its component' is a BOUNDED stand-in (all directed graphs with <= 4 vertices), not a proof"},
		"C19": {"inst[v]:rebuild-identical obligations are exhaustive over the 48 probe builds (each repeated once in the same process), not a proof over all grammars", "SCC / cycle enumeration / leader determinism: BOUNDED stand-in (all directed graphs with <= 4 vertices, several vertex orders, repeated calls), not a proof", "ComputeNullables' order dependence inside cycles (F11) is not decided"},
		"C13": {"front-end guarantees TreeWF()/CodeWF()/NamesWF()/RuleNamesWF() are assumed (C03 not applicable); strings.Reader model assumed; termination of the optimizer fixpoint, of NullableVisit (exponential in the depth of the rule-reference DAG: DESIGN 17.5, D5), of the recursive closures of scc.go and of the front-end parser itself not under contract", "inst[v]:builds obligations are exhaustive over the 48 probe grammar/flag combinations of the instantiation harness, not a proof over all grammars"},
		"C04": {"strings.Reader is abstracted to a stream of runes with an assumed progress/EOF contract"},
		"C06": {"user code predicates are functions of their own labels and the position (C06's hypothesis, stated as the assumed contract of the run field)"},
		"C18": {"user code blocks do not keep c.state beyond the block: the live state map is cleared and pooled when the block returns (defect F17, DESIGN 16.3: the project's own test grammar returns c.state); no schedule is explored, confinement implies race freedom by a standard meta-theorem"},
		"C05": {"user code blocks do not keep c.state beyond the block (F17)"},
		"C09": {"the optimize visitor's slice surgery is outside the slice model; visitors are assumed to keep the tree well-formed"},
	}
	return append(extra[prop], assumptionsBase()...)
}

func assumptionsBase() []string {
	return []string{
		"machine arithmetic treated as mathematical (ranges asserted at introduction; only uint64 ++ generates an overflow obligation)",
		"partial correctness: termination only where a decreases clause is discharged",
		"user code blocks and Cloner.Clone obey their declared call contracts",
		"slice value semantics: no two live slice values observe each other's backing array beyond their own length",
		"objects allocated by a callee are unconstrained in the caller except through the callee's postcondition",
	}
}

// tryReplay is filled in per function family (replay.go).
func (d *Driver) tryReplay(q *Query) (bool, string) {
	return replayModel(d, q)
}

// writeInventory records, per property, the obligations that discharged on this (unchanged-tree) run.
func (d *Driver) writeInventory(results []oblResult) {
	path := filepath.Join(d.Verif, "obligations.json")
	inv := map[string][]string{}
	if b, err := os.ReadFile(path); err == nil {
		json.Unmarshal(b, &inv)
	}
	tagsOf := map[string][]string{}
	for _, q := range d.queries {
		if !q.IsCover {
			tagsOf[q.Obligation] = q.Tags
		}
	}
	fresh := map[string]map[string]bool{}
	for _, r := range results {
		if !r.Discharged {
			continue
		}
		for _, t := range tagsOf[r.Name] {
			if t == "local" {
				continue
			}
			if fresh[t] == nil {
				fresh[t] = map[string]bool{}
			}
			fresh[t][stripTarget(r.Name)] = true
		}
	}
	if b, err := os.ReadFile(filepath.Join(d.Verif, "aliases.json")); err == nil {
		var al map[string][]string
		if json.Unmarshal(b, &al) == nil {
			for alias, ts := range al {
				// the property's own obligations (every package) plus the runtime obligations of the aliased ones
				u := map[string]bool{}
				for k := range fresh[alias] {
					u[k] = true
				}
				for _, t := range ts {
					for k := range fresh[t] {
						if strings.HasPrefix(k, "rt:") {
							u[k] = true
						}
					}
				}
				fresh[alias] = u
			}
		}
	}
	for t, m := range fresh {
		if d.Prop != "" && t != d.Prop {
			continue
		}
		inv[t] = sortedKeys(m)
	}
	b, _ := json.MarshalIndent(inv, "", " ")
	os.WriteFile(path, b, 0o644)
	// solver hints: for obligations whose queries needed a second solver
	hints := map[string]string{}
	if hb, err := os.ReadFile(filepath.Join(d.Verif, "solver_hints.json")); err == nil {
		json.Unmarshal(hb, &hints)
	}
	for _, q := range d.queries {
		if q.IsCover || q.Result != "unsat" {
			continue
		}
		sv := strings.Fields(q.Solver)[0]
		if sv != "z3-new" && q.Millis > 1500 {
			hints[stripTarget(q.Obligation)] = sv
		}
	}
	hb, _ := json.MarshalIndent(hints, "", " ")
	os.WriteFile(filepath.Join(d.Verif, "solver_hints.json"), hb, 0o644)
}

func literalTag(tags []string, p string) bool {
	for _, t := range tags {
		if t == p {
			return true
		}
	}
	return false
}
