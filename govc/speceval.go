package main

// Evaluation of contract (spec) expressions to SMT terms in an environment.

import (
	"fmt"
	"go/constant"
	"go/types"
	"strings"
)

var (
	tInt    = types.Typ[types.Int]
	tBool   = types.Typ[types.Bool]
	tString = types.Typ[types.String]
	tAny    = types.NewInterfaceType(nil, nil)
)

// resolveType resolves the small type syntax used in contracts.
func (fx *FnCtx) resolveType(s string) types.Type {
	s = strings.TrimSpace(s)
	switch {
	case strings.HasPrefix(s, "*"):
		return types.NewPointer(fx.resolveType(s[1:]))
	case strings.HasPrefix(s, "[]"):
		return types.NewSlice(fx.resolveType(s[2:]))
	case strings.HasPrefix(s, "map["):
		d := 0
		for i := 3; i < len(s); i++ {
			if s[i] == '[' {
				d++
			} else if s[i] == ']' {
				d--
				if d == 0 {
					return types.NewMap(fx.resolveType(s[4:i]), fx.resolveType(s[i+1:]))
				}
			}
		}
	case strings.HasPrefix(s, "["):
		// [N]T
		j := strings.Index(s, "]")
		var n int64
		fmt.Sscan(s[1:j], &n)
		return types.NewArray(fx.resolveType(s[j+1:]), n)
	}
	switch s {
	case "int":
		return tInt
	case "bool":
		return tBool
	case "string":
		return tString
	case "any":
		return tAny
	case "rune":
		return types.Typ[types.Int32]
	case "byte":
		return types.Typ[types.Uint8]
	case "uint64":
		return types.Typ[types.Uint64]
	case "error":
		return types.Universe.Lookup("error").Type()
	case "ref":
		return types.NewPointer(types.NewStruct(nil, nil))
	case "struct{}":
		return types.NewStruct(nil, nil)
	}
	if i := strings.Index(s, "."); i > 0 {
		// pkg.Type
		for _, imp := range fx.pkg.Types.Imports() {
			if imp.Name() == s[:i] {
				if o := imp.Scope().Lookup(s[i+1:]); o != nil {
					return o.Type()
				}
			}
		}
		fx.fail("unknown type %s", s)
	}
	if o := fx.pkg.Types.Scope().Lookup(s); o != nil {
		if _, ok := o.(*types.TypeName); ok {
			return o.Type()
		}
	}
	// contracts shared between packages name the types of the declaring package unqualified
	for _, imp := range fx.pkg.Types.Imports() {
		if strings.HasPrefix(imp.Path(), "github.com/mna/pigeon") {
			if o := imp.Scope().Lookup(s); o != nil {
				if _, ok := o.(*types.TypeName); ok {
					return o.Type()
				}
			}
		}
	}
	fx.fail("unknown type %q in contract", s)
	return nil
}

// specSort: sort for a type string in a spec function signature. Besides Go types:
// set[T] (Array T Bool), arr[K]V (Array K V).
func (fx *FnCtx) specSort(s string) (string, types.Type) {
	s = strings.TrimSpace(s)
	if strings.HasPrefix(s, "set[") {
		k, _ := fx.specSort(s[4 : len(s)-1])
		return "(Array " + k + " Bool)", nil
	}
	if strings.HasPrefix(s, "arr[") {
		d := 0
		for i := 3; i < len(s); i++ {
			if s[i] == '[' {
				d++
			} else if s[i] == ']' {
				d--
				if d == 0 {
					k, _ := fx.specSort(s[4:i])
					v, _ := fx.specSort(s[i+1:])
					return "(Array " + k + " " + v + ")", nil
				}
			}
		}
	}
	t := fx.resolveType(s)
	return fx.sc.SortOf(t), t
}

func isInterface(t types.Type) bool {
	if t == nil {
		return false
	}
	_, ok := t.Underlying().(*types.Interface)
	return ok
}

// coerce converts v to sort `want` (boxing into Any, nil literals).
func (fx *FnCtx) coerce(v Val, want string, wantTy types.Type) Val {
	if v.Ty != nil && wantTy != nil && v.S == "Int" && want == "Int" {
		if fm, ok := v.Ty.Underlying().(*types.Map); ok {
			if tm, ok := wantTy.Underlying().(*types.Map); ok {
				d1, _, _, _ := fx.sc.mapSorts(fm)
				d2, _, _, _ := fx.sc.mapSorts(tm)
				if d1 != d2 {
					fx.fail("map value flows between map types with separate heaps (%v -> %v)", v.Ty, wantTy)
				}
			}
		}
	}
	if v.S == want {
		return v
	}
	if v.S == "nil" {
		switch {
		case want == "Any":
			return Val{"nilAny", "Any", wantTy}
		case want == "Int":
			return Val{"0", "Int", wantTy}
		case strings.HasPrefix(want, "Slice_"):
			return Val{fx.sc.zeroOfSort(want, nil), want, wantTy}
		}
	}
	if want == "Any" {
		if v.Ty == nil {
			fx.fail("cannot box untyped value %s", v.T)
		}
		return Val{fx.sc.Box(v, v.Ty), "Any", wantTy}
	}
	fx.fail("sort mismatch: have %s (%s), want %s", v.S, v.T, want)
	return v
}

func (fx *FnCtx) specBool(env *Env, e SExpr) string {
	v := fx.evalSpec(env, e)
	if v.S != "Bool" {
		fx.fail("spec expression %s is not boolean (%s)", e, v.S)
	}
	return v.T
}

func (fx *FnCtx) evalSpec(env *Env, e SExpr) Val {
	switch x := e.(type) {
	case *SInt:
		t := x.V
		if strings.HasPrefix(t, "-") {
			t = "(- " + t[1:] + ")"
		}
		return Val{t, "Int", tInt}
	case *SBool:
		return Val{fmt.Sprint(x.V), "Bool", tBool}
	case *SStr:
		return Val{fx.sc.StrLit(x.V), "Str", tString}
	case *SNil:
		return Val{"nil", "nil", nil}
	case *SIdent:
		return fx.specIdent(env, x.Name)
	case *SCall:
		if x.Fn == "outer" && len(x.Args) == 1 {
			// outer(e): e in the function's own names, hiding the callee's parameter names of a caller-side clause
			o := *env
			o.callee = nil
			return fx.evalSpec(&o, x.Args[0])
		}
		if x.Fn == "atcall" && len(x.Args) == 1 {
			// atcall(e): like outer(e), with the heap as it was immediately before the call under discussion
			if env.callHeap == nil {
				fx.fail("atcall() is only available in must-call / all-calls clauses")
			}
			o := *env
			o.callee = nil
			o.heap = env.callHeap
			return fx.evalSpec(&o, x.Args[0])
		}
		return fx.specCall(env, x)
	case *SOld:
		if env.old == nil {
			fx.fail("old() not available here")
		}
		o := *env.old
		o.bound = env.bound
		o.callee = env.callee
		// old(e): heap and parameters as at entry; locals of the body keep their current value
		if len(env.named) > 0 {
			m := copyNamed(env.named)
			for k, v := range env.old.named {
				m[k] = v
			}
			o.named = m
		}
		return fx.evalSpec(&o, x.X)
	case *SUnary:
		v := fx.evalSpec(env, x.X)
		if x.Op == "!" {
			return Val{"(not " + v.T + ")", "Bool", tBool}
		}
		return Val{"(- " + v.T + ")", "Int", v.Ty}
	case *SDeref:
		v := fx.evalSpec(env, x.X)
		el, ok := derefType(v.Ty)
		if !ok {
			fx.fail("spec: deref of non-pointer %s", x.X)
		}
		return fx.loadDeref(env.heap, v, el)
	case *SIte:
		c := fx.specBool(env, x.C)
		a := fx.evalSpec(env, x.A)
		b := fx.evalSpec(env, x.B)
		a, b = fx.unify(a, b)
		return Val{"(ite " + c + " " + a.T + " " + b.T + ")", a.S, a.Ty}
	case *SBinary:
		return fx.specBinary(env, x)
	case *SSel:
		// package-qualified constant?
		if id, ok := x.X.(*SIdent); ok {
			if _, isVar := env.bound[id.Name]; !isVar {
				if _, isNamed := env.named[id.Name]; !isNamed {
					for _, imp := range fx.pkg.Types.Imports() {
						if imp.Name() == id.Name {
							o := imp.Scope().Lookup(x.Name)
							if c, ok := o.(*types.Const); ok {
								return fx.constVal(c.Val(), c.Type())
							}
							if o != nil {
								// imported package-level variable: opaque global
								s := fx.sc.SortOf(o.Type())
								return Val{fx.heapArr(env.heap, globalHeap(id.Name+"."+x.Name), s), s, o.Type()}
							}
							fx.fail("spec: unknown %s.%s", id.Name, x.Name)
						}
					}
				}
			}
		}
		v := fx.evalSpec(env, x.X)
		return fx.selectField(env.heap, v, x.Name)
	case *SIndex:
		v := fx.evalSpec(env, x.X)
		i := fx.evalSpec(env, x.I)
		return fx.indexVal(env.heap, v, i)
	case *SSlice:
		v := fx.evalSpec(env, x.X)
		var lo, hi *Val
		if x.Lo != nil {
			l := fx.evalSpec(env, x.Lo)
			lo = &l
		}
		if x.Hi != nil {
			h := fx.evalSpec(env, x.Hi)
			hi = &h
		}
		return fx.sliceVal(v, lo, hi)
	case *SQuant:
		n := env
		var decl []string
		var qnames []string
		for _, qv := range x.Vars {
			s, ty := fx.specSort(qv.Type)
			fx.qcount++
			name := fmt.Sprintf("q_%s_%d", qv.Name, fx.qcount) // unique: nested quantifiers (preds) must not capture
			qnames = append(qnames, name)
			n = n.with(qv.Name, Val{name, s, ty})
			decl = append(decl, "("+name+" "+s+")")
		}
		body := fx.specBool(n, x.Body)
		var ranges []string
		for qi, qv := range x.Vars {
			_, ty := fx.specSort(qv.Type)
			if qv.Type == "int" {
				continue // spec integers are mathematical
			}
			if r := fx.rangeFact(Val{qnames[qi], "Int", ty}); r != "" && x.Forall {
				ranges = append(ranges, r)
			}
		}
		if len(ranges) > 0 && x.Forall {
			body = "(=> (and " + strings.Join(ranges, " ") + " true) " + body + ")"
		}
		pat := ""
		if len(x.Pats) > 0 {
			var ps []string
			fx.inPattern = true
			for _, p := range x.Pats {
				ps = append(ps, fx.evalSpec(n, p).T)
			}
			fx.inPattern = false
			pats := " :pattern (" + strings.Join(ps, " ") + ")"
			for _, grp := range x.AltPats {
				var gs []string
				fx.inPattern = true
				for _, p := range grp {
					gs = append(gs, fx.evalSpec(n, p).T)
				}
				fx.inPattern = false
				pats += " :pattern (" + strings.Join(gs, " ") + ")"
			}
			body = "(! " + body + pats + ")"
		}
		_ = pat
		q := "exists"
		if x.Forall {
			q = "forall"
		}
		return Val{"(" + q + " (" + strings.Join(decl, " ") + ") " + body + ")", "Bool", tBool}
	}
	fx.fail("evalSpec: unsupported %T", e)
	return Val{}
}

func (fx *FnCtx) constVal(c constant.Value, t types.Type) Val {
	switch c.Kind() {
	case constant.Int:
		s := c.ExactString()
		if strings.HasPrefix(s, "-") {
			s = "(- " + s[1:] + ")"
		}
		return Val{s, "Int", t}
	case constant.Bool:
		return Val{fmt.Sprint(constant.BoolVal(c)), "Bool", t}
	case constant.String:
		return Val{fx.sc.StrLit(constant.StringVal(c)), "Str", t}
	}
	fx.fail("unsupported constant %v", c)
	return Val{}
}

func (fx *FnCtx) specIdent(env *Env, name string) Val {
	if v, ok := env.bound[name]; ok {
		return v
	}
	if v, ok := env.callee[name]; ok {
		return v
	}
	if v, ok := env.named[name]; ok {
		return v
	}
	if cv := fx.cellByName(name); cv != nil {
		v, _ := fx.cellRead(env.heap, cv)
		return v
	}
	// package-level object
	if o := fx.pkg.Types.Scope().Lookup(name); o != nil {
		switch o := o.(type) {
		case *types.Const:
			return fx.constVal(o.Val(), o.Type())
		case *types.Var:
			s := fx.sc.SortOf(o.Type())
			return Val{fx.heapArr(env.heap, globalHeap(name), s), s, o.Type()}
		}
	}
	for _, g := range fx.cs.Ghosts {
		if g.Name == name {
			s, ty := fx.specSort(g.Type)
			return Val{fx.heapArr(env.heap, globalHeap(name), s), s, ty}
		}
	}
	if sf, ok := fx.cs.Specs[name]; ok && len(sf.Params) == 0 {
		return fx.specCall(env, &SCall{Fn: name})
	}
	// a local variable of the function that is not defined on this path: unconstrained
	if t, ok := fx.localTypes[name]; ok {
		s := fx.sc.SortOf(t)
		return Val{fx.sc.Fresh("undef_"+name, s), s, t}
	}
	fx.fail("spec: unknown identifier %q", name)
	return Val{}
}

func (fx *FnCtx) unify(a, b Val) (Val, Val) {
	if a.S == b.S {
		return a, b
	}
	if a.S == "nil" && b.S == "nil" {
		return Val{"0", "Int", nil}, Val{"0", "Int", nil}
	}
	if a.S == "nil" {
		return fx.coerce(a, b.S, b.Ty), b
	}
	if b.S == "nil" {
		return a, fx.coerce(b, a.S, a.Ty)
	}
	if a.S == "Any" {
		return a, fx.coerce(b, "Any", a.Ty)
	}
	if b.S == "Any" {
		return fx.coerce(a, "Any", b.Ty), b
	}
	fx.fail("cannot unify sorts %s and %s (%s vs %s)", a.S, b.S, a.T, b.T)
	return a, b
}

func (fx *FnCtx) specBinary(env *Env, x *SBinary) Val {
	switch x.Op {
	case "&&", "||", "==>", "<==>":
		a := fx.specBool(env, x.X)
		b := fx.specBool(env, x.Y)
		op := map[string]string{"&&": "and", "||": "or", "==>": "=>", "<==>": "="}[x.Op]
		return Val{"(" + op + " " + a + " " + b + ")", "Bool", tBool}
	}
	a := fx.evalSpec(env, x.X)
	b := fx.evalSpec(env, x.Y)
	switch x.Op {
	case "==", "!=":
		// slice == nil
		if b.S == "nil" && strings.HasPrefix(a.S, "Slice_") {
			t := "(= (len_" + a.S + " " + a.T + ") 0)"
			if x.Op == "!=" {
				t = "(not " + t + ")"
			}
			return Val{t, "Bool", tBool}
		}
		a, b = fx.unify(a, b)
		t := "(= " + a.T + " " + b.T + ")"
		if x.Op == "!=" {
			t = "(not " + t + ")"
		}
		return Val{t, "Bool", tBool}
	case "<", "<=", ">", ">=":
		if a.S == "Str" {
			switch x.Op {
			case "<=":
				return Val{"(sle " + a.T + " " + b.T + ")", "Bool", tBool}
			case "<":
				return Val{"(and (sle " + a.T + " " + b.T + ") (not (= " + a.T + " " + b.T + ")))", "Bool", tBool}
			case ">=":
				return Val{"(sle " + b.T + " " + a.T + ")", "Bool", tBool}
			default:
				return Val{"(and (sle " + b.T + " " + a.T + ") (not (= " + a.T + " " + b.T + ")))", "Bool", tBool}
			}
		}
		return Val{"(" + x.Op + " " + a.T + " " + b.T + ")", "Bool", tBool}
	case "+":
		if a.S == "Str" {
			return Val{fx.scat(a.T, b.T), "Str", tString}
		}
		return Val{"(+ " + a.T + " " + b.T + ")", "Int", a.Ty}
	case "-", "*":
		return Val{"(" + x.Op + " " + a.T + " " + b.T + ")", "Int", a.Ty}
	case "/":
		return Val{"(div " + a.T + " " + b.T + ")", "Int", a.Ty}
	case "%":
		return Val{"(mod " + a.T + " " + b.T + ")", "Int", a.Ty}
	}
	fx.fail("spec: operator %s", x.Op)
	return Val{}
}

// scat builds a right-normalised concatenation.
func (fx *FnCtx) scat(a, b string) string {
	if a == "emptyStr" {
		return b
	}
	if b == "emptyStr" {
		return a
	}
	return "(scat " + a + " " + b + ")"
}

// ---------- shared accessors (used by both evaluators) ----------

// selectField: v.name for struct values, pointers to structs (through the heap),
// promoted fields through embedded structs/pointers.
func (fx *FnCtx) selectField(heap map[string]string, v Val, name string) Val {
	if v.Ty == nil {
		fx.fail("field %s of untyped spec value %s", name, v.T)
	}
	obj, index, _ := fx.lookupField(v.Ty, name)
	fld, ok := obj.(*types.Var)
	if !ok || fld == nil {
		fx.fail("no field %s in %v", name, v.Ty)
	}
	cur := v
	for _, ix := range index {
		cur = fx.fieldByIndex(heap, cur, ix)
	}
	return cur
}

func (fx *FnCtx) fieldByIndex(heap map[string]string, v Val, ix int) Val {
	t := v.Ty
	if el, ok := derefType(t); ok {
		sname, st := namedStruct(el)
		if st == nil {
			fx.fail("pointer to non-struct in field access: %v", t)
		}
		f := st.Field(ix)
		fs := fx.sc.SortOf(f.Type())
		h := fx.heapArr(heap, fieldHeap(sname, f.Name()), "(Array Int "+fs+")")
		return Val{"(select " + h + " " + v.T + ")", fs, f.Type()}
	}
	st, ok := t.Underlying().(*types.Struct)
	if !ok {
		fx.fail("field access on non-struct %v", t)
	}
	f := st.Field(ix)
	ss := fx.sc.SortOf(t)
	return Val{"(" + ss + "_" + f.Name() + " " + v.T + ")", fx.sc.SortOf(f.Type()), f.Type()}
}

func (fx *FnCtx) loadDeref(heap map[string]string, p Val, el types.Type) Val {
	if sname, st := namedStruct(el); st != nil {
		// *p for a struct: rebuild the value from the field heaps
		var parts []string
		for i := 0; i < st.NumFields(); i++ {
			parts = append(parts, fx.fieldByIndex(heap, p, i).T)
		}
		ss := fx.sc.SortOf(el)
		_ = sname
		if len(parts) == 0 {
			parts = []string{"0"}
		}
		return Val{"(mk_" + ss + " " + strings.Join(parts, " ") + ")", ss, el}
	}
	s := fx.sc.SortOf(el)
	h := fx.heapArr(heap, derefHeap(s), "(Array Int "+s+")")
	return Val{"(select " + h + " " + p.T + ")", s, el}
}

func elemType(t types.Type) types.Type {
	if t == nil {
		return nil
	}
	switch u := t.Underlying().(type) {
	case *types.Slice:
		return u.Elem()
	case *types.Array:
		return u.Elem()
	case *types.Map:
		return u.Elem()
	case *types.Pointer:
		if a, ok := u.Elem().Underlying().(*types.Array); ok {
			return a.Elem()
		}
	}
	return nil
}

func sliceElemSort(s string) string { return "" }

func (fx *FnCtx) indexVal(heap map[string]string, v, i Val) Val {
	switch {
	case strings.HasPrefix(v.S, "Slice_"):
		et := elemType(v.Ty)
		es := fx.elemSortOfSlice(v)
		return Val{fmt.Sprintf("(%s %s %s)", fx.sc.elemFn(v.S), v.T, i.T), es, et}
	case strings.HasPrefix(v.S, "(Array "):
		et := elemType(v.Ty)
		es := arrayElemSort(v.S)
		return Val{"(select " + v.T + " " + i.T + ")", es, et}
	case v.Ty != nil:
		if m, ok := v.Ty.Underlying().(*types.Map); ok {
			_, val, ks, vs := fx.sc.mapSorts(m)
			i = fx.coerce(i, ks, m.Key())
			h := fx.heapArr(heap, val, "(Array Int (Array "+ks+" "+vs+"))")
			return Val{"(select (select " + h + " " + v.T + ") " + i.T + ")", vs, m.Elem()}
		}
	}
	fx.fail("index of unsupported value %s : %s", v.T, v.S)
	return Val{}
}

func (fx *FnCtx) elemSortOfSlice(v Val) string {
	if et := elemType(v.Ty); et != nil {
		return fx.sc.SortOf(et)
	}
	// derive from sort name is ambiguous; require type
	fx.fail("slice value without Go type: %s", v.T)
	return ""
}

func arrayElemSort(s string) string {
	// (Array K V) with K simple
	inner := strings.TrimSuffix(strings.TrimPrefix(s, "(Array "), ")")
	i := strings.Index(inner, " ")
	if strings.HasPrefix(inner, "(") {
		d := 0
		for k := 0; k < len(inner); k++ {
			if inner[k] == '(' {
				d++
			} else if inner[k] == ')' {
				d--
				if d == 0 {
					i = k + 1
					break
				}
			}
		}
	}
	return strings.TrimSpace(inner[i:])
}

func (fx *FnCtx) sliceLen(v Val) string {
	switch {
	case strings.HasPrefix(v.S, "Slice_"):
		return "(len_" + v.S + " " + v.T + ")"
	case v.S == "Str":
		return "(slen " + v.T + ")"
	}
	fx.fail("len of %s", v.S)
	return ""
}

func (fx *FnCtx) sliceVal(v Val, lo, hi *Val) Val {
	if v.S == "Str" {
		l, h := "0", "(slen "+v.T+")"
		if lo != nil {
			l = lo.T
		}
		if hi != nil {
			h = hi.T
		}
		fx.sc.declFun("substr", "(declare-fun substr (Str Int Int) Str)")
		fx.sc.axiom("substr-len", "(assert (forall ((s Str) (a Int) (b Int)) (! (=> (and (<= 0 a) (<= a b) (<= b (slen s))) (= (slen (substr s a b)) (- b a))) :pattern ((substr s a b)))))")
		return Val{"(substr " + v.T + " " + l + " " + h + ")", "Str", v.Ty}
	}
	if !strings.HasPrefix(v.S, "Slice_") {
		fx.fail("slice expression on %s", v.S)
	}
	l := "0"
	if lo != nil {
		l = lo.T
	}
	h := "(len_" + v.S + " " + v.T + ")"
	if hi != nil {
		h = hi.T
	}
	t := fmt.Sprintf("(mk_%s (arr_%s %s) (+ (off_%s %s) %s) (- %s %s) (- (cap_%s %s) %s) (bid_%s %s))", v.S, v.S, v.T, v.S, v.T, l, h, l, v.S, v.T, l, v.S, v.T)
	return Val{t, v.S, v.Ty}
}

// rangeFact returns the machine range of an integer-typed value ("" if none).
func (fx *FnCtx) rangeFact(v Val) string {
	if v.Ty == nil || v.S != "Int" {
		return ""
	}
	b, ok := v.Ty.Underlying().(*types.Basic)
	if !ok {
		return ""
	}
	switch b.Kind() {
	case types.Uint8:
		return "(and (<= 0 " + v.T + ") (<= " + v.T + " 255))"
	case types.Int32:
		return "(and (<= (- 2147483648) " + v.T + ") (<= " + v.T + " 2147483647))"
	case types.Uint64, types.Uint, types.Uintptr:
		return "(and (<= 0 " + v.T + ") (<= " + v.T + " 18446744073709551615))"
	case types.Uint32:
		return "(and (<= 0 " + v.T + ") (<= " + v.T + " 4294967295))"
	case types.Uint16:
		return "(and (<= 0 " + v.T + ") (<= " + v.T + " 65535))"
	case types.Int, types.Int64:
		return "(and (<= (- 9223372036854775808) " + v.T + ") (<= " + v.T + " 9223372036854775807))"
	}
	return ""
}

// ---------- spec calls ----------

func (fx *FnCtx) specCall(env *Env, c *SCall) Val {
	arg := func(i int) Val { return fx.evalSpec(env, c.Args[i]) }
	fx.usedSpecs[c.Fn] = true
	switch c.Fn {
	case "len":
		v := arg(0)
		if v.Ty != nil {
			if m, ok := v.Ty.Underlying().(*types.Map); ok {
				dom, _, ks, _ := fx.sc.mapSorts(m)
				h := fx.heapArr(env.heap, dom, "(Array Int (Array "+ks+" Bool))")
				return Val{"(ite (= " + v.T + " 0) 0 (" + fx.sc.cardFn(ks) + " (select " + h + " " + v.T + ")))", "Int", tInt}
			}
		}
		if v.S == "Int" || v.S == "Any" {
			fx.fail("spec: len(%s) of a value of sort %s", c.Args[0], v.S)
		}
		return Val{fx.sliceLen(v), "Int", tInt}
	case "cap":
		v := arg(0)
		return Val{"(cap_" + v.S + " " + v.T + ")", "Int", tInt}
	case "has": // has(m, k): key in map domain
		m := arg(0)
		k := arg(1)
		mt, ok := m.Ty.Underlying().(*types.Map)
		if !ok {
			fx.fail("has() on non-map")
		}
		dom, _, ks, _ := fx.sc.mapSorts(mt)
		k = fx.coerce(k, ks, mt.Key())
		h := fx.heapArr(env.heap, dom, "(Array Int (Array "+ks+" Bool))")
		if fx.inPattern {
			return Val{"(select (select " + h + " " + m.T + ") " + k.T + ")", "Bool", tBool}
		}
		return Val{"(and (not (= " + m.T + " 0)) (select (select " + h + " " + m.T + ") " + k.T + "))", "Bool", tBool}
	case "mapdom", "mapval":
		m := arg(0)
		mt, ok := m.Ty.Underlying().(*types.Map)
		if !ok {
			fx.fail("%s() on non-map", c.Fn)
		}
		dom, val, ks, vs := fx.sc.mapSorts(mt)
		if c.Fn == "mapdom" {
			h := fx.heapArr(env.heap, dom, "(Array Int (Array "+ks+" Bool))")
			return Val{"(select " + h + " " + m.T + ")", "(Array " + ks + " Bool)", nil}
		}
		h := fx.heapArr(env.heap, val, "(Array Int (Array "+ks+" "+vs+"))")
		return Val{"(select " + h + " " + m.T + ")", "(Array " + ks + " " + vs + ")", nil}
	case "alloc":
		v := arg(0)
		h := fx.heapArr(env.heap, allocHeap, allocSort)
		return Val{"(select " + h + " " + v.T + ")", "Bool", tBool}
	case "fresh":
		v := arg(0)
		h := fx.heapArr(env.heap, allocHeap, allocSort)
		ho := fx.heapArr(env.old.heap, allocHeap, allocSort)
		return Val{"(and (not (= " + v.T + " 0)) (select " + h + " " + v.T + ") (not (select " + ho + " " + v.T + ")))", "Bool", tBool}
	case "box":
		v := arg(0)
		return fx.coerce(v, "Any", tAny)
	case "is": // is(v, "*seqExpr")
		v := arg(0)
		t := fx.resolveType(c.Args[1].(*SStr).V)
		return Val{fmt.Sprintf("(= (typeOf %s) %d)", v.T, fx.sc.TypeTag(t)), "Bool", tBool}
	case "as": // as(v, "*seqExpr")
		v := arg(0)
		t := fx.resolveType(c.Args[1].(*SStr).V)
		s := fx.sc.SortOf(t)
		_, un := fx.sc.boxFn(s)
		return Val{"(" + un + " " + v.T + ")", s, t}
	case "typeOf":
		v := arg(0)
		return Val{"(typeOf " + v.T + ")", "Int", tInt}
	case "slen":
		return Val{"(slen " + arg(0).T + ")", "Int", tInt}
	case "runeCount":
		return Val{"(runeCount " + arg(0).T + ")", "Int", tInt}
	case "runeOf":
		return Val{"(runeOf " + arg(0).T + " " + arg(1).T + ")", "Int", types.Typ[types.Int32]}
	case "store": // store(arr, i, v) on spec arrays
		a, i, v := arg(0), arg(1), arg(2)
		return Val{"(store " + a.T + " " + i.T + " " + v.T + ")", a.S, a.Ty}
	case "sel":
		a, i := arg(0), arg(1)
		return Val{"(select " + a.T + " " + i.T + ")", arrayElemSort(a.S), elemType(a.Ty)}
	case "arr": // arr(s): backing array view; off(s)
		v := arg(0)
		return Val{"(arr_" + v.S + " " + v.T + ")", "(Array Int " + fx.elemSortOfSlice(v) + ")", nil}
	case "bid": // backing-array identity of a slice (0 for nil)
		v := arg(0)
		return Val{"(bid_" + v.S + " " + v.T + ")", "Int", types.NewPointer(types.NewStruct(nil, nil))}
	case "off":
		v := arg(0)
		return Val{"(off_" + v.S + " " + v.T + ")", "Int", tInt}
	case "strOfRune":
		fx.sc.declFun("strOfRune", "(declare-fun strOfRune (Int) Str)")
		return Val{"(strOfRune " + arg(0).T + ")", "Str", tString}
	case "sprintf":
		var as []string
		for i := 1; i < len(c.Args); i++ {
			as = append(as, fx.coerce(arg(i), "Any", tAny).T)
		}
		return Val{fx.sprintfTerm(arg(0).T, as), "Str", tString}
	case "emptyset":
		s, _ := fx.specSort(c.Args[0].(*SStr).V)
		return Val{"((as const (Array " + s + " Bool)) false)", "(Array " + s + " Bool)", nil}
	}
	sf, ok := fx.cs.Specs[c.Fn]
	if !ok {
		fx.fail("spec: unknown function %s", c.Fn)
	}
	if len(sf.Params) != len(c.Args) {
		fx.fail("spec: %s expects %d args", c.Fn, len(sf.Params))
	}
	fx.usedSpecs[c.Fn] = true
	if sf.IsPred {
		// macro: expand in the current environment
		n := env
		// bound must not capture: evaluate args first
		var vals []Val
		for i := range c.Args {
			v := arg(i)
			ps, pt := fx.specSort(sf.Params[i].Type)
			v = fx.coerce(v, ps, pt)
			if v.Ty == nil {
				v.Ty = pt
			}
			vals = append(vals, v)
		}
		m := *env
		m.bound = map[string]Val{}
		n = &m
		for i, p := range sf.Params {
			n = n.with(p.Name, vals[i])
		}
		return fx.evalSpec(n, sf.Body)
	}
	// uninterpreted (or define-fun-rec'd) function
	var sorts, args []string
	for i, p := range sf.Params {
		ps, pt := fx.specSort(p.Type)
		v := fx.coerce(arg(i), ps, pt)
		sorts = append(sorts, ps)
		args = append(args, v.T)
	}
	rs, rt := fx.specSort(sf.Result)
	fx.sc.declFun(sf.Name, fmt.Sprintf("(declare-fun %s (%s) %s)", sf.Name, strings.Join(sorts, " "), rs))
	if len(args) == 0 {
		return Val{sf.Name, rs, rt}
	}
	return Val{"(" + sf.Name + " " + strings.Join(args, " ") + ")", rs, rt}
}

// lookupField finds a field (or method) by name; unexported fields of a type of another package are
// visible to contracts too (assumed contracts of library types speak about their representation).
func (fx *FnCtx) lookupField(t types.Type, name string) (types.Object, []int, bool) {
	obj, index, ind := types.LookupFieldOrMethod(t, true, fx.pkg.Types, name)
	if obj != nil {
		return obj, index, ind
	}
	b := t
	if el, ok := derefType(b); ok {
		b = el
	}
	if n, ok := types.Unalias(b).(*types.Named); ok && n.Obj().Pkg() != nil {
		return types.LookupFieldOrMethod(t, true, n.Obj().Pkg(), name)
	}
	return obj, index, ind
}
