package main

import "fmt"

func main() {
	violated := false
	check := func(rule, in string, want bool) {
		_, err := Parse("", []byte(in), Entrypoint(rule))
		got := err == nil
		status := "ok"
		if got != want {
			status = "WRONG"
			violated = true
		}
		fmt.Printf("%-10s input %q: matched=%-5v expected=%-5v %s\n", rule, in, got, want, status)
	}
	// [a\x2dc], [a\055c], [a\u002dc]: the three characters 'a', '-' (written as an escape) and 'c'.
	for _, r := range []string{"Hex", "Octal", "Unicode", "Plain"} {
		check(r, "a", true)
		check(r, "-", true)
		check(r, "c", true)
		check(r, "b", false)
	}
	// [0\pL-9]: '0', the class L, '-' and '9' (the front-end grammar cannot read
	// "\pL-9" as a range, a range is ClassChar '-' ClassChar).
	check("AfterClass", "-", true)
	check("AfterClass", "5", false)
	if violated {
		fmt.Println("VIOLATION: an escaped '-' (or a '-' after \\p) is turned into a range operator")
	} else {
		fmt.Println("OK")
	}
}
