#!/bin/bash
# usage: run.sh <pigeon source tree>
# exits 0 when the violation is observed, 1 when it is not (or when the setup failed).
export GOFLAGS=-mod=mod GOPROXY=off GOSUMDB=off GOTOOLCHAIN=local
GO=go1.26; command -v "$GO" >/dev/null 2>&1 || GO=go
SRC=${1:?usage: run.sh <pigeon source tree>}
SRC=$(cd "$SRC" && pwd) || exit 1
HERE=$(cd "$(dirname "$0")" && pwd)
W=$(mktemp -d) || exit 1
trap 'rm -rf "$W"' EXIT
(cd "$SRC" && "$GO" build -o "$W/pigeon" .) || { echo "SETUP: cannot build pigeon"; exit 1; }
mkdir "$W/demo" && cp "$HERE/main.go" "$W/demo/" || exit 1
printf 'module demo\n\ngo 1.25\n' > "$W/demo/go.mod"
"$W/pigeon"  -o "$W/demo/parser.go" "$HERE/g.peg" || { echo "SETUP: pigeon failed on g.peg"; exit 1; }
(cd "$W/demo" && "$GO" build -o demo .) || { echo "SETUP: cannot build generated parser"; exit 1; }
timeout 120 "$W/demo/demo"
rc=$?
if [ $rc -eq 0 ]; then echo "VIOLATION OBSERVED"; exit 0; fi
echo "violation not observed (rc=$rc)"; exit 1
