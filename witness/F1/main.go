package main

import (
	"fmt"
	"os"
)

// F1: a literal containing U+FFFD matches, with zero width, at end of input.
// Property C01/C17: a literal only matches input that is there. Defect present iff "a" is accepted.
func main() {
	_, err := Parse("", []byte("a"))
	if err == nil {
		fmt.Println("defect present: input \"a\" accepted by A <- \"a\" \"\\uFFFD\" !.")
		os.Exit(0)
	}
	fmt.Println("defect gone:", err)
	os.Exit(1)
}
