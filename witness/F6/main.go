package main

import (
	"fmt"
	"os"
	"time"
)

// F6: with Memoize(true) a memo hit does not charge the expression budget, so a repetition that
// iterates without consuming input never exhausts MaxExpressions. Defect present iff Parse does
// not return within 3 seconds.
func main() {
	done := make(chan error, 1)
	go func() {
		_, err := Parse("", []byte("b"), Memoize(true), MaxExpressions(1000))
		done <- err
	}()
	select {
	case err := <-done:
		fmt.Println("defect gone: returned with", err)
		os.Exit(1)
	case <-time.After(3 * time.Second):
		fmt.Println("defect present: Parse with MaxExpressions(1000) did not return within 3s")
		os.Exit(0)
	}
}
