package main

// Obligations of C04 that are not Hoare triples over one function body but finite, exhaustively
// decided facts about the real code, plus one lemma in the theory of strings:
//   inst[<variant>]:typecheck       every one of the 32 template instantiations (5 booleans) type-checks
//   inst[<variant>n1]:same-code     -nolint changes comments only
//   classes:resolve[<name>]         every Unicode class name the front-end accepts resolves in the tables
//                                   of the toolchain that builds the generated parser here
//   lemma:funcName-injective        the method-name scheme "on"+rule+itoa(index) is injective
//                                   (z3 string theory; fails: known finding F3)

import (
	"fmt"
	"go/ast"
	"go/parser"
	"go/scanner"
	"go/token"
	"os"
	"path/filepath"
	"sort"
	"strconv"
	"strings"
	"unicode"
)

func (d *Driver) extraC04(loader *Loader, rtDir string) {
	add := func(name, kind, clause string, ok bool, detail string) {
		q := &Query{Obligation: name, Func: "(instantiation)", Kind: kind, Tags: []string{"C04"}, Path: 1, Clause: clause, Where: detail}
		if ok {
			q.Result, q.Solver = "unsat", "exhaustive"
		} else {
			q.Result, q.Solver, q.Model = "sat", "exhaustive", detail
		}
		d.queries = append(d.queries, q)
	}
	// 1. all 32 instantiations type-check; nolint ones have the same code
	for _, v := range rtVariantsAll {
		for _, suffix := range []string{"", "n1"} {
			name := v + suffix
			pkg, err := loader.LoadDir(filepath.Join(rtDir, name), "verif/rt4/"+name, "rt["+name+"]", nil)
			msg := ""
			if err != nil {
				msg = err.Error()
			}
			add("inst["+name+"]:typecheck", "typecheck", "the instantiated template type-checks", err == nil, msg)
			if suffix == "n1" && err == nil {
				plain, err2 := loader.LoadDir(filepath.Join(rtDir, v), "verif/rt4p/"+v, "rt["+v+"]", nil)
				same := err2 == nil && codeOnly(plain) == codeOnly(pkg)
				add("inst["+name+"]:same-code", "typecheck", "-nolint changes comments only", same, "token streams differ")
			}
		}
	}
	// 2. accepted Unicode classes resolve
	classes, err := acceptedClasses(filepath.Join(d.Repo, "unicode_classes.go"))
	if err != nil {
		add("classes:resolve", "exhaustive", "class list readable", false, err.Error())
	}
	for _, c := range classes {
		_, a := unicode.Categories[c]
		_, b := unicode.Properties[c]
		_, s := unicode.Scripts[c]
		add("classes:resolve", "exhaustive", "every Unicode class the front-end accepts resolves (rangeTable cannot panic)", a || b || s, "class "+strconv.Quote(c)+" is accepted by the front-end but is in none of unicode.Categories/Properties/Scripts")
	}
	// 3. method-name lemma
	d.funcNameLemma()
}

func codeOnly(p *Pkg) string {
	// token stream of the source files without comments
	var b strings.Builder
	for _, f := range p.Files {
		name := p.Fset.Position(f.Pos()).Filename
		src, err := os.ReadFile(name)
		if err != nil {
			return "unreadable:" + name
		}
		var sc scanner.Scanner
		fs := token.NewFileSet()
		sc.Init(fs.AddFile(name, fs.Base(), len(src)), src, nil, 0) // comments are skipped
		for {
			_, tok, lit := sc.Scan()
			if tok == token.EOF {
				break
			}
			if tok == token.SEMICOLON && lit == "\n" {
				b.WriteString("; ")
				continue
			}
			if lit != "" {
				b.WriteString(lit)
			} else {
				b.WriteString(tok.String())
			}
			b.WriteByte(' ')
		}
	}
	return b.String()
}

// acceptedClasses: keys of the unicodeClasses map literal of the front-end plus the single-letter classes.
func acceptedClasses(file string) ([]string, error) {
	fset := token.NewFileSet()
	f, err := parser.ParseFile(fset, file, nil, 0)
	if err != nil {
		return nil, err
	}
	var out []string
	ast.Inspect(f, func(n ast.Node) bool {
		if kv, ok := n.(*ast.KeyValueExpr); ok {
			if bl, ok := kv.Key.(*ast.BasicLit); ok && bl.Kind == token.STRING {
				if s, err := strconv.Unquote(bl.Value); err == nil {
					out = append(out, s)
				}
			}
		}
		return true
	})
	if len(out) == 0 {
		return nil, fmt.Errorf("no class names found in %s", file)
	}
	out = append(out, "L", "M", "N", "C", "P", "Z", "S")
	sort.Strings(out)
	return out, nil
}

const funcNameLemmaSMT = `; lemma funcName-injective (C04): builder.funcName is proved (govc) to return
;   "on" + ruleName + itoa(ix);  two code blocks get distinct method names iff this map is injective
;   on (identifier, positive index). A model is a pair of (rule, index) with the same method name.
(set-option :produce-models true)
(set-logic ALL)
(declare-const r1 String)
(declare-const r2 String)
(declare-const i1 Int)
(declare-const i2 Int)
(define-fun ident ((s String)) Bool
  (str.in_re s (re.++ (re.union (re.range "a" "z") (re.range "A" "Z") (str.to_re "_"))
                      (re.* (re.union (re.range "a" "z") (re.range "A" "Z") (re.range "0" "9") (str.to_re "_"))))))
(assert (ident r1))
(assert (ident r2))
(assert (> i1 0))
(assert (> i2 0))
(assert (< (str.len r1) 4))
(assert (< (str.len r2) 4))
(assert (< i1 100))
(assert (< i2 100))
(assert (= (str.++ "on" r1 (str.from_int i1)) (str.++ "on" r2 (str.from_int i2))))
(assert (not (and (= r1 r2) (= i1 i2))))
(check-sat)
(get-value (r1 i1 r2 i2))
`

func (d *Driver) funcNameLemma() {
	file := filepath.Join(d.Work, "lemma_funcName.smt2")
	os.WriteFile(file, []byte(funcNameLemmaSMT), 0o644)
	q := &Query{Obligation: "lemma:funcName-injective", Func: "builder.funcName", Kind: "lemma", Tags: []string{"C04"}, Path: 1,
		Clause: `"on"+r1+itoa(i1) == "on"+r2+itoa(i2) ==> r1 == r2 && i1 == i2   (identifiers r, indices > 0)`, SMT: funcNameLemmaSMT}
	res, out := runSolver(solvers[0], file, 20)
	q.Result, q.Solver, q.Model = res, solvers[0].name, out
	// known finding F3 excuses exactly this lemma while its witness reproduces
	for _, k := range d.known {
		if k.Status == "known" && k.Obligation == q.Obligation && d.witnessStillFails(k) {
			q.KnownID = k.ID
			q.Model = "excused by known finding " + k.ID + " (solver said " + res + "): " + strings.TrimSpace(out)
			q.Result = "unsat"
			q.Solver = "known-finding"
			d.knownHit[k.ID] = true
		}
	}
	d.queries = append(d.queries, q)
}
