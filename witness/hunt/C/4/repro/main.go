package main

import (
	"fmt"
	"os"
)

func main() {
	memo := os.Args[1] == "memo"
	for _, in := range os.Args[2:] {
		var v any
		var err error
		if memo {
			v, err = Parse("", []byte(in), memoOpts()...)
		} else {
			v, err = Parse("", []byte(in))
		}
		fmt.Printf("%q => val=%v err=%v\n", in, v, err)
	}
}
