#!/bin/sh
# usage: run.sh <pigeon source tree>
# exit 0: violation observed, exit 1: not observed (or the tooling failed)
set -u
SRC=${1:?usage: run.sh <pigeon source tree>}
export GOFLAGS=-mod=mod GOPROXY=off GOSUMDB=off GOTOOLCHAIN=local
GO=${GO:-go1.26}
HERE=$(cd "$(dirname "$0")" && pwd)
W=$(mktemp -d)
trap 'rm -rf "$W"' EXIT
(cd "$SRC" && $GO build -o "$W/pigeon" .) || { echo "cannot build pigeon"; exit 1; }
P="$W/pigeon"

# gen_build <dir> <grammar> <flags...>: generate a parser and build $W/<dir>/demo.
# memoOpts() yields Memoize(true) unless the parser is built with -optimize-parser
# (which removes the option).
gen_build() {
	d="$W/$1"; g="$2"; shift 2
	mkdir -p "$d"
	printf 'module demo\n\ngo 1.25\n' > "$d/go.mod"
	cp "$HERE/main.go" "$d/main.go"
	case " $* " in
	*" -optimize-parser "*) printf 'package main\n\nfunc memoOpts() []Option { return nil }\n' > "$d/memo.go" ;;
	*) printf 'package main\n\nfunc memoOpts() []Option { return []Option{Memoize(true)} }\n' > "$d/memo.go" ;;
	esac
	"$P" "$@" -o "$d/parser.go" "$g" || return 1
	(cd "$d" && $GO build -o demo .) || return 1
}

# finding 4: the inverted empty class [^] (matches any one character) is treated as nullable,
# so a plainly right-recursive grammar is rejected as left-recursive.
"$P" -o "$W/dot.go" "$HERE/dot_rec.peg"; rc_dot=$?
OUT=$("$P" -o "$W/any.go" "$HERE/anyclass_rec.peg" 2>&1); rc_any=$?
echo "A <- . A / !.     : exit $rc_dot"
echo "A <- [^] A / !.   : exit $rc_any  $OUT"
gen_build rt "$HERE/anyclass.peg" || exit 1
echo "-- runtime behaviour of [^] (S <- x:[^] y:[^]? !.):"
R=$("$W/rt/demo" plain '' 'a' 'ab'); echo "$R"
if [ $rc_dot = 0 ] && [ $rc_any != 0 ] && echo "$OUT" | grep -q "left recursion" \
   && echo "$R" | grep -q '^"" => val=<nil>' && echo "$R" | grep -q '"a" => val="a"+false err=<nil>'; then
	echo "VIOLATION: a grammar without left recursion is rejected with 'grammar contains left recursion'"
	exit 0
fi
echo "not observed"
exit 1
