package main

func main() { Parse("", []byte("a")) }
