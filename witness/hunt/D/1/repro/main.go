package main

import (
	"fmt"
	"os"
	"strings"
)

var events []string

func trace(f string, a ...any) { events = append(events, fmt.Sprintf(f, a...)) }

func main() {
	for _, in := range os.Args[1:] {
		events = nil
		v, err := Parse("", []byte(in))
		fmt.Printf("input=%q result=%v events=[%s] err=%v\n", in, v, strings.Join(events, "; "), err)
	}
}
