package main

import (
	"fmt"
	"os"
)

// usage: demo <input>; parses the input without and with Memoize(true).
func main() {
	in := []byte(os.Args[1])
	v0, err0 := Parse("", in, Memoize(false))
	v1, err1 := Parse("", in, Memoize(true))
	fmt.Printf("Memoize(false): value=%q err=%v\n", v0, err0)
	fmt.Printf("Memoize(true) : value=%q err=%v\n", v1, err1)
	if (err0 == nil) != (err1 == nil) {
		fmt.Println("VIOLATION: Memoize(true) changes whether the input is matched")
	} else {
		fmt.Println("OK")
	}
}
