#!/usr/bin/env python3
# prints a valid one-rule grammar whose expression is a literal wrapped in N
# pairs of parentheses:  A <- (((...("a")...)))
import sys
n = int(sys.argv[1])
print('A <- ' + '(' * n + '"a"' + ')' * n)
