package main

import (
	"fmt"
	"os"
)

func main() {
	bad := 0

	v, err := Parse("", []byte("axy"))
	fmt.Printf("S  on axy: %v (err %v)\n", v, err)
	if v == "e=first:axy log=[second first ]" {
		fmt.Println("VIOLATION: the state change of the discarded seed iteration (alternative 2) survived; expected log=[first ]")
		bad++
	}

	v, err = Parse("", []byte("ax"), Entrypoint("S2"))
	fmt.Printf("S2 on ax:  %v (err %v)\n", v, err)
	if err != nil {
		fmt.Println("VIOLATION: the predicate at the start of F saw the state left by the previous growth iteration; expected f=grow:ax")
		bad++
	}

	if bad > 0 {
		os.Exit(0)
	}
	fmt.Println("no violation observed")
	os.Exit(1)
}
