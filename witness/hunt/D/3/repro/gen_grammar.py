#!/usr/bin/env python3
# prints a grammar whose single action code block contains N nested { } pairs
# (balanced, so the grammar text itself is syntactically fine for pigeon).
import sys
n = int(sys.argv[1])
sys.stdout.write('A <- "a" ' + '{' * n + '}' * n + '\n')
