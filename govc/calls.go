package main

// Calls: builtins, conversions, and calls by contract.

import (
	"fmt"
	"go/ast"
	"go/types"
	"strings"
)

type calleeInfo struct {
	key      string // contract key
	keys     []string // candidate keys (first with a contract wins)
	recvExpr ast.Expr
	ownerExpr ast.Expr // call of a function-typed field x.f(...): x (bound to an extra first contract parameter, if declared)
	sig      *types.Signature
	fc       *FuncContract
	display  string
	extFn    string
	extraVars []*types.Var // local closure: read-only captured variables, passed as leading arguments
}

var purePkgs = map[string]bool{"utf8": true, "unicode": true, "strings": true, "strconv": true, "math": true, "errors": true, "path": true, "filepath": true, "utf16": true}
var assumedPure = map[string]bool{}

func typeBaseName(t types.Type) string {
	t = types.Unalias(t)
	if p, ok := t.(*types.Pointer); ok {
		t = types.Unalias(p.Elem())
	}
	if n, ok := t.(*types.Named); ok {
		return n.Obj().Name()
	}
	return ""
}

func (fx *FnCtx) resolveCallee(st *State, call *ast.CallExpr) *calleeInfo {
	ci := &calleeInfo{}
	fun := ast.Unparen(call.Fun)
	switch f := fun.(type) {
	case *ast.Ident:
		switch o := fx.pkg.Info.Uses[f].(type) {
		case *types.Func:
			ci.keys = []string{o.Name()}
			ci.sig = o.Type().(*types.Signature)
		case *types.Var:
			// call of a function-typed variable: keyed by its named type, then by name
			ci.sig = o.Type().Underlying().(*types.Signature)
			if k, ok := fx.closureOf[o]; ok {
				// a local closure of this function (or of the enclosing function): "<Func>$<var>"
				ci.keys = append(ci.keys, k)
				ci.extraVars = fx.closureRO[k]
			}
			if n := typeBaseName(o.Type()); n != "" {
				ci.keys = append(ci.keys, n)
			}
			ci.keys = append(ci.keys, "var."+o.Name())
		}
	case *ast.SelectorExpr:
		if sel, ok := fx.pkg.Info.Selections[f]; ok {
			switch sel.Kind() {
			case types.MethodVal:
				m := sel.Obj().(*types.Func)
				ci.sig = m.Type().(*types.Signature)
				ci.recvExpr = f.X
				// receiver type name: use the declared receiver of the method
				rn := typeBaseName(ci.sig.Recv().Type())
				if isInterface(sel.Recv()) || rn == "" {
					rn = typeBaseName(sel.Recv())
					if rn == "" {
						rn = "any"
					}
				}
				ci.keys = []string{rn + "." + m.Name()}
				if m.Pkg() != nil && m.Pkg() != fx.pkg.Types {
					ci.keys = append([]string{m.Pkg().Name() + "." + rn + "." + m.Name()}, ci.keys...)
				}
			case types.FieldVal:
				// call of a function-typed field: struct.field
				fld := sel.Obj().(*types.Var)
				ci.sig = fld.Type().Underlying().(*types.Signature)
				owner := typeBaseName(fx.typeOf(f.X))
				// walk embedded path for the real owner
				t := fx.typeOf(f.X)
				idx := sel.Index()
				for i := 0; i < len(idx)-1; i++ {
					if el, ok := derefType(t); ok {
						t = el
					}
					t = t.Underlying().(*types.Struct).Field(idx[i]).Type()
				}
				if n := typeBaseName(t); n != "" {
					owner = n
				}
				ci.ownerExpr = f.X
				ci.keys = []string{owner + "." + fld.Name()}
				if n := typeBaseName(fld.Type()); n != "" {
					ci.keys = append(ci.keys, n)
				}
			}
		} else if o, ok := fx.pkg.Info.Uses[f.Sel].(*types.Func); ok {
			ci.keys = []string{o.Pkg().Name() + "." + o.Name()}
			ci.sig = o.Type().(*types.Signature)
		} else if o, ok := fx.pkg.Info.Uses[f.Sel].(*types.Var); ok {
			ci.sig = o.Type().Underlying().(*types.Signature)
			ci.keys = []string{o.Pkg().Name() + "." + o.Name()}
		}
	case *ast.FuncLit:
		fx.fail("immediately-invoked function literal at %s", fx.pos(call))
	}
	if ci.sig == nil {
		fx.fail("cannot resolve callee at %s", fx.pos(call))
	}
	for _, k := range ci.keys {
		if fc, ok := fx.cs.Funcs[k]; ok {
			ci.key, ci.fc = k, fc
			break
		}
	}
	ci.display = strings.Join(ci.keys, "|")
	if ci.fc == nil && len(ci.keys) == 1 && ci.recvExpr == nil {
		// functions of side-effect-free standard packages without an explicit contract are
		// modelled as pure uninterpreted functions of their arguments (assumption, listed)
		if i := strings.Index(ci.keys[0], "."); i > 0 && purePkgs[ci.keys[0][:i]] && !ci.sig.Variadic() {
			fc := &FuncContract{Key: ci.keys[0], Pure: true, HasMod: true, Trusted: true, Loops: map[int][]*Clause{}}
			for k := 0; k < ci.sig.Params().Len(); k++ {
				fc.Params = append(fc.Params, SVar{fmt.Sprintf("a%d", k), ""})
			}
			for k := 0; k < ci.sig.Results().Len(); k++ {
				fc.Results = append(fc.Results, SVar{fmt.Sprintf("r%d", k), ""})
			}
			ci.fc, ci.key = fc, ci.keys[0]
			ci.extFn = "ext_" + sanitize(ci.keys[0])
			assumedPure[ci.keys[0]] = true
		}
	}
	if ci.fc == nil {
		fx.fail("no contract for callee %s at %s", ci.display, fx.pos(call))
	}
	return ci
}

func (fx *FnCtx) callStmt(st *State, call *ast.CallExpr) []outcome {
	if _, ok := fx.intrinsic(st, call); ok {
		return []outcome{{st: st}}
	}
	// builtin / conversion?
	if fx.isBuiltinOrConv(call) {
		fx.evalCall(st, call)
		return []outcome{{st: st}}
	}
	ci := fx.resolveCallee(st, call)
	recv, back := fx.evalRecv(st, ci)
	args := fx.evalArgs(st, call, ci.sig)
	args = append(fx.closureArgs(st, ci, call), args...)
	outs := fx.applyCall(st, ci, recv, args, call)
	if back != nil {
		for _, o := range outs {
			if o.fl == flNormal {
				back(o.st)
			}
		}
	}
	return outs
}

// closureArgs: the current values of the read-only captured variables of a local closure being called.
func (fx *FnCtx) closureArgs(st *State, ci *calleeInfo, at ast.Node) []Val {
	var out []Val
	if ci.fc == nil || ci.key == "" || fx.pkg.Closures[ci.key] == nil {
		return nil
	}
	for _, v := range ci.extraVars {
		val, ok := st.vars[v]
		if !ok {
			fx.fail("captured variable %s has no value at the call of %s at %s", v.Name(), ci.key, fx.pos(at))
		}
		out = append(out, val)
	}
	return out
}

// evalRecv evaluates the receiver of a method call. A pointer-receiver method called on an
// addressable non-pointer value (x.m() meaning (&x).m()) gets a temporary cell holding the value;
// the returned function writes the cell back into x after the call.
func (fx *FnCtx) evalRecv(st *State, ci *calleeInfo) (*Val, func(*State)) {
	if ci.recvExpr == nil {
		// x.f(args) with f a function-typed field whose contract declares the owner as an extra first parameter
		if ci.ownerExpr != nil && ci.fc != nil && ci.sig != nil && len(ci.fc.Params) == ci.sig.Params().Len()+1 {
			ov := fx.eval(st, ci.ownerExpr)
			return &ov, nil
		}
		return nil, nil
	}
	v := fx.eval(st, ci.recvExpr)
	if ci.sig.Recv() != nil {
		// value-receiver method called through a pointer: (*x).m()
		if _, recvIsPtr := derefType(ci.sig.Recv().Type()); !recvIsPtr && !isInterface(ci.sig.Recv().Type()) {
			if el, vIsPtr := derefType(v.Ty); vIsPtr {
				fx.safety(st, "nil", "(not (= "+v.T+" 0))", ci.recvExpr)
				dv := fx.loadDeref(st.heap, v, el)
				return &dv, nil
			}
		}
		if el, isPtr := derefType(ci.sig.Recv().Type()); isPtr {
			if _, vIsPtr := derefType(v.Ty); !vIsPtr && !isInterface(v.Ty) {
				if _, stt := namedStruct(el); stt == nil {
					s := fx.sc.SortOf(el)
					hn, hs := derefHeap(s), "(Array Int "+s+")"
					r := fx.allocRef(st, "addr")
					fx.setHeap(st, hn, hs, "(store "+fx.heapArr(st.heap, hn, hs)+" "+r+" "+v.T+")")
					rv := Val{r, "Int", types.NewPointer(el)}
					recvExpr := ci.recvExpr
					return &rv, func(s2 *State) {
						nv := Val{"(select " + fx.heapArr(s2.heap, hn, hs) + " " + r + ")", s, el}
						fx.assign(s2, recvExpr, nv)
					}
				}
			}
		}
	}
	return &v, nil
}

func (fx *FnCtx) isBuiltinOrConv(call *ast.CallExpr) bool {
	fun := ast.Unparen(call.Fun)
	if tv, ok := fx.pkg.Info.Types[fun]; ok && tv.IsType() {
		return true
	}
	if id, ok := fun.(*ast.Ident); ok {
		if _, ok := fx.pkg.Info.Uses[id].(*types.Builtin); ok {
			return true
		}
	}
	return false
}

func (fx *FnCtx) evalArgs(st *State, call *ast.CallExpr, sig *types.Signature) []Val {
	var args []Val
	np := sig.Params().Len()
	if sig.Variadic() && !call.Ellipsis.IsValid() {
		for i := 0; i < np-1; i++ {
			args = append(args, fx.coerceTo(fx.eval(st, call.Args[i]), sig.Params().At(i).Type()))
		}
		// pack the rest into a slice
		vt := sig.Params().At(np - 1).Type().(*types.Slice)
		es := fx.sc.SortOf(vt.Elem())
		ss := fx.sc.sliceSort(es)
		arr := fx.sc.Fresh("varargs", "(Array Int "+es+")")
		cur := arr
		n := 0
		for i := np - 1; i < len(call.Args); i++ {
			v := fx.coerceTo(fx.eval(st, call.Args[i]), vt.Elem())
			cur = fmt.Sprintf("(store %s %d %s)", cur, n, v.T)
			n++
		}
		args = append(args, Val{fmt.Sprintf("(mk_%s %s 0 %d %d %s)", ss, cur, n, n, fx.allocRef(st, "backing")), ss, vt})
		return args
	}
	if len(call.Args) == 1 && np > 1 {
		return fx.evalMulti(st, call.Args[0], np)
	}
	for i, a := range call.Args {
		args = append(args, fx.coerceTo(fx.eval(st, a), sig.Params().At(i).Type()))
	}
	return args
}

func (fx *FnCtx) coerceTo(v Val, t types.Type) Val {
	r := fx.coerce(v, fx.sc.SortOf(t), t)
	r.Ty = t
	return r
}

// evalCall evaluates a call expression and returns its result values.
func (fx *FnCtx) evalCall(st *State, call *ast.CallExpr) []Val {
	fun := ast.Unparen(call.Fun)
	// conversion
	if tv, ok := fx.pkg.Info.Types[fun]; ok && tv.IsType() {
		return []Val{fx.convert(st, fx.eval(st, call.Args[0]), tv.Type, call)}
	}
	if id, ok := fun.(*ast.Ident); ok {
		if b, ok := fx.pkg.Info.Uses[id].(*types.Builtin); ok {
			return fx.builtin(st, b.Name(), call)
		}
	}
	if vs, ok := fx.intrinsic(st, call); ok {
		return vs
	}
	ci := fx.resolveCallee(st, call)
	recv, back := fx.evalRecv(st, ci)
	args := fx.evalArgs(st, call, ci.sig)
	args = append(fx.closureArgs(st, ci, call), args...)
	outs := fx.applyCall(st, ci, recv, args, call)
	if back != nil {
		for _, o := range outs {
			if o.fl == flNormal {
				back(o.st)
			}
		}
	}
	// exceptional outcomes inside expressions: record as pending panic forks
	var normal *State
	for _, o := range outs {
		if o.fl == flPanic {
			fx.pendingPanics = append(fx.pendingPanics, o.st)
		} else if o.fl == flExit {
			fx.fail("call that never returns used as an expression at %s", fx.pos(call))
		} else {
			normal = o.st
		}
	}
	if normal == nil {
		fx.fail("call never returns normally at %s", fx.pos(call))
	}
	if normal != st {
		*st = *normal
	}
	return st.retVals
}

func (fx *FnCtx) convert(st *State, v Val, to types.Type, at ast.Node) Val {
	ts := fx.sc.SortOf(to)
	if v.S == "nil" {
		return fx.coerceTo(v, to)
	}
	if isInterface(to) {
		r := fx.coerce(v, "Any", to)
		r.Ty = to
		return r
	}
	if fm, ok := v.Ty.Underlying().(*types.Map); ok {
		if tm, ok := to.Underlying().(*types.Map); ok {
			d1, _, _, _ := fx.sc.mapSorts(fm)
			d2, _, _, _ := fx.sc.mapSorts(tm)
			if d1 != d2 {
				fx.fail("conversion between map types with separate heaps (%v -> %v) at %s", v.Ty, to, fx.pos(at))
			}
		}
	}
	if v.S == ts {
		// integer narrowing is not modelled except rune/byte widening which is exact
		r := Val{v.T, ts, to}
		return r
	}
	from := v.Ty
	switch {
	case ts == "Str" && strings.HasPrefix(v.S, "Slice_"):
		fx.sc.declFun("strOfBytes", "(declare-fun strOfBytes ("+v.S+") Str)")
		return Val{"(strOfBytes " + v.T + ")", "Str", to}
	case ts == "Str" && v.S == "Int":
		fx.sc.declFun("strOfRune", "(declare-fun strOfRune (Int) Str)")
		return Val{"(strOfRune " + v.T + ")", "Str", to}
	case strings.HasPrefix(ts, "Slice_") && v.S == "Str":
		fn := "sliceOfStr_" + ts
		fx.sc.declFun(fn, "(declare-fun "+fn+" (Str) "+ts+")")
		return Val{"(" + fn + " " + v.T + ")", ts, to}
	}
	fx.fail("unsupported conversion %v -> %v at %s", from, to, fx.pos(at))
	return Val{}
}

func (fx *FnCtx) builtin(st *State, name string, call *ast.CallExpr) []Val {
	switch name {
	case "len":
		v := fx.eval(st, call.Args[0])
		if m, ok := v.Ty.Underlying().(*types.Map); ok {
			dom, _, ks, _ := fx.sc.mapSorts(m)
			h := fx.heapArr(st.heap, dom, "(Array Int (Array "+ks+" Bool))")
			// len of nil map is 0: nil maps have an empty domain by convention (assumed at allocation-free refs)
			return []Val{{"(ite (= " + v.T + " 0) 0 (" + fx.sc.cardFn(ks) + " (select " + h + " " + v.T + ")))", "Int", tInt}}
		}
		if a, ok := v.Ty.Underlying().(*types.Array); ok {
			return []Val{{fmt.Sprint(a.Len()), "Int", tInt}}
		}
		return []Val{{fx.sliceLen(v), "Int", tInt}}
	case "cap":
		v := fx.eval(st, call.Args[0])
		return []Val{{"(cap_" + v.S + " " + v.T + ")", "Int", tInt}}
	case "append":
		s := fx.eval(st, call.Args[0])
		rt := fx.typeOf(call)
		if s.S == "nil" {
			s = fx.coerceTo(s, rt)
		}
		sl := rt.Underlying().(*types.Slice)
		es := fx.sc.SortOf(sl.Elem())
		if call.Ellipsis.IsValid() {
			// append(a, b...): result has len a+b, prefix a, then b
			b := fx.eval(st, call.Args[1])
			r := fx.sc.Fresh("appended", s.S)
			rv := Val{r, s.S, rt}
			st.assume(fx.sliceWF(rv))
			st.assume(fmt.Sprintf("(= (len_%s %s) (+ (len_%s %s) (len_%s %s)))", s.S, r, s.S, s.T, b.S, b.T))
			nb := fx.allocRef(st, "backing")
			st.assume(fmt.Sprintf("(= (bid_%s %s) (ite (<= (len_%s %s) (cap_%s %s)) (bid_%s %s) %s))", s.S, r, s.S, r, s.S, s.T, s.S, s.T, nb))
			el := fx.sc.elemFn(s.S)
			st.assume(fmt.Sprintf("(forall ((i Int)) (! (=> (and (<= 0 i) (< i (len_%s %s))) (= (%s %s i) (%s %s i))) :pattern ((%s %s i)) :pattern ((%s %s i))))",
				s.S, s.T, el, r, el, s.T, el, r, el, s.T))
			st.assume(fmt.Sprintf("(forall ((i Int)) (! (=> (and (<= 0 i) (< i (len_%s %s))) (= (%s %s (+ (len_%s %s) i)) (%s %s i))) :pattern ((%s %s i))))",
				b.S, b.T, el, r, s.S, s.T, fx.sc.elemFn(b.S), b.T, fx.sc.elemFn(b.S), b.T))
			// the same fact indexed from the result (so that a goal about elem(r, j) finds it)
			st.assume(fmt.Sprintf("(forall ((j Int)) (! (=> (and (<= (len_%s %s) j) (< j (len_%s %s))) (= (%s %s j) (%s %s (- j (len_%s %s))))) :pattern ((%s %s j))))",
				s.S, s.T, s.S, r, el, r, fx.sc.elemFn(b.S), b.T, s.S, s.T, el, r))
			return []Val{rv}
		}
		cur := s
		for _, a := range call.Args[1:] {
			v := fx.coerce(fx.eval(st, a), es, sl.Elem())
			nc := fx.sc.Fresh("cap", "Int")
			// backing array: kept while there is room, a fresh one after reallocation
			nb := fx.allocRef(st, "backing")
			t := fmt.Sprintf("(mk_%s (store (arr_%s %s) (+ (off_%s %s) (len_%s %s)) %s) (off_%s %s) (+ (len_%s %s) 1) %s (ite (< (len_%s %s) (cap_%s %s)) (bid_%s %s) %s))",
				cur.S, cur.S, cur.T, cur.S, cur.T, cur.S, cur.T, v.T, cur.S, cur.T, cur.S, cur.T, nc, cur.S, cur.T, cur.S, cur.T, cur.S, cur.T, nb)
			st.assume(fmt.Sprintf("(>= %s (+ (len_%s %s) 1))", nc, cur.S, cur.T))
			st.assume(fmt.Sprintf("(>= %s (cap_%s %s))", nc, cur.S, cur.T))
			// no reallocation while there is room; a reallocated backing array is zeroed beyond the new length
			st.assume(fmt.Sprintf("(=> (< (len_%s %s) (cap_%s %s)) (= %s (cap_%s %s)))", cur.S, cur.T, cur.S, cur.T, nc, cur.S, cur.T))
			el := fx.sc.elemFn(cur.S)
			st.assume(fmt.Sprintf("(forall ((k Int)) (! (=> (and (>= k (cap_%s %s)) (< k %s) (not (= k (len_%s %s)))) (= (%s %s k) %s)) :pattern ((%s %s k))))",
				cur.S, cur.T, nc, cur.S, cur.T, el, cur.T, fx.sc.Zero(sl.Elem()), el, cur.T))
			c := fx.sc.Fresh("appended", cur.S)
			st.facts = append(st.facts, "(= "+c+" "+t+")")
			st.facts = append(st.facts, fmt.Sprintf("(forall ((i Int)) (! (= (%s %s i) (ite (= i (len_%s %s)) %s (%s %s i))) :pattern ((%s %s i)) :pattern ((%s %s i))))",
				el, c, cur.S, cur.T, v.T, el, cur.T, el, c, el, cur.T))
			st.facts = append(st.facts, fmt.Sprintf("(= (%s %s (len_%s %s)) %s)", el, c, cur.S, cur.T, v.T))
			cur = Val{c, cur.S, rt}
		}
		return []Val{cur}
	case "make":
		t := fx.typeOf(call.Args[0])
		switch u := t.Underlying().(type) {
		case *types.Map:
			return []Val{fx.makeMap(st, u, t)}
		case *types.Slice:
			es := fx.sc.SortOf(u.Elem())
			ss := fx.sc.sliceSort(es)
			n := fx.eval(st, call.Args[1])
			c := n
			if len(call.Args) > 2 {
				c = fx.eval(st, call.Args[2])
			}
			fx.safety(st, "make-size", "(and (<= 0 "+n.T+") (<= "+n.T+" "+c.T+"))", call)
			z := fx.sc.Zero(u.Elem())
			arr := fmt.Sprintf("((as const (Array Int %s)) %s)", es, z)
			if z != "0" && z != "false" {
				arr = fx.sc.constArr("(Array Int "+es+")", z)
			}
			return []Val{{fmt.Sprintf("(mk_%s %s 0 %s %s %s)", ss, arr, n.T, c.T, fx.allocRef(st, "backing")), ss, t}}
		}
		fx.fail("unsupported make(%v)", t)
	case "new":
		t := fx.typeOf(call.Args[0])
		r := fx.allocRef(st, "new")
		pt := types.NewPointer(t)
		if sname, stt := namedStruct(t); stt != nil {
			for i := 0; i < stt.NumFields(); i++ {
				f := stt.Field(i)
				fs := fx.sc.SortOf(f.Type())
				hn, hs := fieldHeap(sname, f.Name()), "(Array Int "+fs+")"
				fx.setHeap(st, hn, hs, "(store "+fx.heapArr(st.heap, hn, hs)+" "+r+" "+fx.sc.Zero(f.Type())+")")
			}
		} else {
			s := fx.sc.SortOf(t)
			hn, hs := derefHeap(s), "(Array Int "+s+")"
			fx.setHeap(st, hn, hs, "(store "+fx.heapArr(st.heap, hn, hs)+" "+r+" "+fx.sc.Zero(t)+")")
		}
		return []Val{{r, "Int", pt}}
	case "delete":
		m := fx.eval(st, call.Args[0])
		mt := m.Ty.Underlying().(*types.Map)
		dom, val, ks, _ := fx.sc.mapSorts(mt)
		k := fx.coerce(fx.eval(st, call.Args[1]), ks, mt.Key())
		fx.frameCheck(st, val, m.T, call)
		hds := "(Array Int (Array " + ks + " Bool))"
		hd := fx.heapArr(st.heap, dom, hds)
		fx.setHeap(st, dom, hds, "(store "+hd+" "+m.T+" (store (select "+hd+" "+m.T+") "+k.T+" false))")
		return nil
	case "recover":
		// only meaningful in deferred closures
		if st.panicking {
			v := st.panicVal
			st.panicking = false
			st.panicVal = ""
			st.trace = append(st.trace, "recovered")
			// a recovered panic value is non-nil
			st.assume("(not (= " + v + " nilAny))")
			return []Val{{v, "Any", tAny}}
		}
		return []Val{{"nilAny", "Any", tAny}}
	case "panic":
		fx.fail("panic() used as expression at %s", fx.pos(call))
	case "copy", "min", "max", "print", "println", "clear":
		fx.fail("builtin %s not supported at %s", name, fx.pos(call))
	}
	fx.fail("builtin %s not supported at %s", name, fx.pos(call))
	return nil
}

// ---------- modifies ----------

type modTarget struct {
	heap string // heap array name ("" for wildcard by prefix)
	sort string
	ref  string // cell: object reference term; "" = whole array
	src  string
}

// modTargets evaluates modifies items in env.
func (fx *FnCtx) modTargets(env *Env, items []ModItem) []modTarget {
	var out []modTarget
	for _, it := range items {
		if it.AllOf != "" {
			out = append(out, fx.allOfTargets(it)...)
			continue
		}
		switch e := it.Expr.(type) {
		case *SSel:
			base := fx.evalSpec(env, e.X)
			// resolve path to the last pointer
			obj, index, _ := fx.lookupField(base.Ty, e.Name)
			if obj == nil {
				fx.fail("modifies: no field %s", it.Src)
			}
			cur := base
			for i, ix := range index {
				if el, ok := derefType(cur.Ty); ok {
					sname, stt := namedStruct(el)
					f := stt.Field(ix)
					if i == len(index)-1 || !hasPointerAfter(f.Type(), index[i+1:]) {
						out = append(out, modTarget{heap: fieldHeap(sname, f.Name()), sort: "(Array Int " + fx.sc.SortOf(f.Type()) + ")", ref: cur.T, src: it.Src})
						break
					}
				}
				cur = fx.fieldByIndex(env.heap, cur, ix)
			}
		case *SDeref:
			p := fx.evalSpec(env, e.X)
			el, ok := derefType(p.Ty)
			if !ok {
				fx.fail("modifies: deref of non-pointer in %s", it.Src)
			}
			if sname, stt := namedStruct(el); stt != nil {
				for i := 0; i < stt.NumFields(); i++ {
					f := stt.Field(i)
					out = append(out, modTarget{heap: fieldHeap(sname, f.Name()), sort: "(Array Int " + fx.sc.SortOf(f.Type()) + ")", ref: p.T, src: it.Src})
				}
			} else {
				s := fx.sc.SortOf(el)
				out = append(out, modTarget{heap: derefHeap(s), sort: "(Array Int " + s + ")", ref: p.T, src: it.Src})
			}
		case *SCall:
			if e.Fn == "mapof" {
				m := fx.evalSpec(env, e.Args[0])
				mt, ok := m.Ty.Underlying().(*types.Map)
				if !ok {
					fx.fail("modifies: mapof non-map")
				}
				dom, val, ks, vs := fx.sc.mapSorts(mt)
				out = append(out, modTarget{heap: dom, sort: "(Array Int (Array " + ks + " Bool))", ref: m.T, src: it.Src})
				out = append(out, modTarget{heap: val, sort: "(Array Int (Array " + ks + " " + vs + "))", ref: m.T, src: it.Src})
			} else {
				fx.fail("modifies: unsupported item %s", it.Src)
			}
		case *SIdent:
			// global variable or ghost
			v := fx.specIdent(env, e.Name)
			out = append(out, modTarget{heap: globalHeap(e.Name), sort: v.S, src: it.Src})
		default:
			fx.fail("modifies: unsupported item %s", it.Src)
		}
	}
	return out
}

func hasPointerAfter(t types.Type, rest []int) bool {
	for _, ix := range rest {
		if _, ok := derefType(t); ok {
			return true
		}
		st, ok := t.Underlying().(*types.Struct)
		if !ok {
			return false
		}
		t = st.Field(ix).Type()
	}
	return false
}

// allOfTargets: "all T.f" (field of every T), "all map[K]V" (every map of that type),
// "all *T" (deref heap), "all alloc".
func (fx *FnCtx) allOfTargets(it ModItem) []modTarget {
	s := it.AllOf
	if strings.HasPrefix(s, "map[") {
		mt := fx.resolveType(s).(*types.Map)
		dom, val, ks, vs := fx.sc.mapSorts(mt)
		return []modTarget{{heap: dom, sort: "(Array Int (Array " + ks + " Bool))", src: it.Src}, {heap: val, sort: "(Array Int (Array " + ks + " " + vs + "))", src: it.Src}}
	}
	if strings.HasPrefix(s, "*") {
		t := fx.resolveType(s[1:])
		so := fx.sc.SortOf(t)
		return []modTarget{{heap: derefHeap(so), sort: "(Array Int " + so + ")", src: it.Src}}
	}
	i := strings.LastIndex(s, ".")
	if i < 0 {
		if mt, ok := fx.resolveType(s).Underlying().(*types.Map); ok {
			dom, val, ks, vs := fx.sc.mapSorts(mt)
			return []modTarget{{heap: dom, sort: "(Array Int (Array " + ks + " Bool))", src: it.Src}, {heap: val, sort: "(Array Int (Array " + ks + " " + vs + "))", src: it.Src}}
		}
		fx.fail("modifies: bad item 'all %s'", s)
	}
	t := fx.resolveType(s[:i])
	sname, stt := namedStruct(t)
	if stt == nil {
		fx.fail("modifies: %s is not a struct", s[:i])
	}
	if s[i+1:] == "*" {
		var out []modTarget
		for k := 0; k < stt.NumFields(); k++ {
			f := stt.Field(k)
			out = append(out, modTarget{heap: fieldHeap(sname, f.Name()), sort: "(Array Int " + fx.sc.SortOf(f.Type()) + ")", src: it.Src})
		}
		return out
	}
	for k := 0; k < stt.NumFields(); k++ {
		f := stt.Field(k)
		if f.Name() == s[i+1:] {
			return []modTarget{{heap: fieldHeap(sname, f.Name()), sort: "(Array Int " + fx.sc.SortOf(f.Type()) + ")", src: it.Src}}
		}
	}
	fx.fail("modifies: no field %s", s)
	return nil
}

// frameCheck: a store to heap array `heap` at object `ref` must be allowed by the function's
// own modifies clause (evaluated at entry) or hit an object allocated during this call.
func (fx *FnCtx) frameCheck(st *State, heap, ref string, at ast.Node) {
	if fx.fc == nil || fx.lemmaMode {
		return
	}
	// only-writer declarations: a DIRECT store to such a field of an object that existed at entry, outside the listed
	// functions, is a violation whatever the function's own frame allows
	for _, ow := range fx.cs.OnlyWriters {
		if ow.Heaps[heap] && !ow.Funcs[fx.key] {
			goal := "false"
			if ref != "" {
				goal = "(not (select " + fx.heapInitConst(allocHeap, allocSort) + " " + ref + "))"
			}
			fx.emit(st, "only-writer["+ow.Label+"]", "frame", ow.Tags, goal, "direct store to "+heap+" outside its declared writers", fx.pos(at))
		}
	}
	var disj []string
	for _, m := range fx.modsEntry {
		if m.heap != heap {
			continue
		}
		if m.ref == "" {
			return // whole array allowed
		}
		if ref != "" {
			disj = append(disj, "(= "+ref+" "+m.ref+")")
		}
	}
	if ref != "" {
		pre := fx.heapInitConst(allocHeap, allocSort)
		disj = append(disj, "(not (select "+pre+" "+ref+"))")
	}
	goal := "false"
	if len(disj) > 0 {
		goal = "(or " + strings.Join(disj, " ") + " false)"
	}
	tags := fx.fc.FrameTag
	fx.emit(st, "frame["+heap+"]", "frame", tags, goal, "store to "+heap+" must be inside modifies", fx.pos(at))
}

// havocCallFrame havocs (coarsely: whole arrays) what a call inside a loop body may modify.
func (fx *FnCtx) havocCallFrame(st *State, call *ast.CallExpr) {
	if fx.isBuiltinOrConv(call) || fx.isIntrinsic(call) {
		return
	}
	ci := fx.resolveCallee(st, call)
	for _, it := range ci.fc.Modifies {
		if it.AllOf != "" {
			for _, t := range fx.allOfTargets(it) {
				fx.havocHeap(st, t.heap, t.sort)
			}
			continue
		}
		// cell items: havoc the whole array (over-approximation)
		for _, t := range fx.modTargetsSyntactic(ci, it) {
			fx.havocHeap(st, t.heap, t.sort)
		}
	}
}

// modTargetsSyntactic determines the heap arrays of a cell item without evaluating it.
func (fx *FnCtx) modTargetsSyntactic(ci *calleeInfo, it ModItem) []modTarget {
	// evaluate in a dummy environment binding params to fresh constants of the right type
	env := &Env{named: map[string]Val{}, heap: map[string]string{}}
	fx.bindDummyParams(env, ci)
	env.old = env
	var out []modTarget
	func() {
		defer func() {
			if r := recover(); r != nil {
				if u, ok := r.(unsupported); ok {
					panic(unsupported{"loop havoc: " + u.msg})
				}
				panic(r)
			}
		}()
		out = fx.modTargets(env, []ModItem{it})
	}()
	return out
}

func (fx *FnCtx) bindDummyParams(env *Env, ci *calleeInfo) {
	names := ci.fc.Params
	i := 0
	if ci.sig.Recv() != nil && len(names) > 0 {
		t := ci.sig.Recv().Type()
		env.named[names[0].Name] = Val{"dummy", fx.sc.SortOf(t), t}
		i = 1
	} else if len(ci.extraVars) > 0 && len(names) == len(ci.extraVars)+ci.sig.Params().Len() {
		// local closure: the read-only captured variables are leading parameters
		for k, v := range ci.extraVars {
			env.named[names[k].Name] = Val{"dummy", fx.sc.SortOf(v.Type()), v.Type()}
		}
		i = len(ci.extraVars)
	} else if ci.recvExpr == nil && len(names) > ci.sig.Params().Len() {
		// func-typed field contract with explicit receiver of the owner: skip
		i = len(names) - ci.sig.Params().Len()
	}
	for k := 0; k < ci.sig.Params().Len() && i+k < len(names); k++ {
		t := ci.sig.Params().At(k).Type()
		env.named[names[i+k].Name] = Val{"dummy", fx.sc.SortOf(t), t}
	}
}

// applyCall applies the contract of the callee.
func (fx *FnCtx) applyCall(st *State, ci *calleeInfo, recv *Val, args []Val, at ast.Node) []outcome {
	fc := ci.fc
	cenv := &Env{named: map[string]Val{}, heap: st.heap, st: st}
	// bind parameters by position using the contract header names
	pn := fc.Params
	k := 0
	if recv != nil {
		if len(pn) == 0 {
			fx.fail("contract %s lacks receiver name", ci.key)
		}
		rv := *recv
		cenv.named[pn[0].Name] = rv
		k = 1
	}
	if len(pn)-k != len(args) {
		fx.fail("contract %s: %d params declared, call has %d args at %s", ci.key, len(pn)-k, len(args), fx.pos(at))
	}
	for i, a := range args {
		cenv.named[pn[k+i].Name] = a
	}
	// pre-state environment for old()
	preHeap := make(map[string]string, len(st.heap))
	for h, t := range st.heap {
		preHeap[h] = t
	}
	pre := &Env{named: cenv.named, heap: preHeap, st: st}
	pre.old = pre
	cenv.old = pre
	// caller-side assertions attached to this callee ("before <callee> assert ...")
	if fx.fc != nil {
		cas := append([]*Clause(nil), fx.fc.CallAsserts[ci.key]...)
		if ce, ok := at.(*ast.CallExpr); ok {
			if n := fx.callOrdinal(ce); n > 0 {
				cas = append(cas, fx.fc.CallAsserts[fmt.Sprintf("%s#%d", ci.key, n)]...)
			}
		}
		for _, c := range cas {
			fx.stmtAssertHit[c] = true
			ce := fx.envAt(st, at.Pos())
			ce.callee = map[string]Val{}
			for k, v := range cenv.named {
				if _, clash := st.named[k]; !clash {
					ce.callee[k] = v // parameter names of the callee (where they do not shadow a caller name)
				}
			}
			goal := fx.specBool(ce, c.Expr)
			fx.emit(st, fmt.Sprintf("before(%s):assert[%s]", ci.key, c.Label), "call-assert", c.Tags, goal, c.Src, fx.pos(at))
			st.assume(fx.assumeAfterAssert(fmt.Sprintf("before(%s):assert[%s]", ci.key, c.Label), goal))
		}
	}
	// requires
	for _, r := range fc.Requires {
		goal := fx.specBool(pre, r.Expr)
		fx.emit(st, fmt.Sprintf("call(%s):requires[%s]", ci.key, r.Label), "call-requires", r.Tags, goal, r.Src, fx.pos(at))
		st.assume(fx.assumeAfterAssert(fmt.Sprintf("call(%s):requires[%s]", ci.key, r.Label), goal))
	}
	if fc.NoReturn {
		st.trace = append(st.trace, "exit via "+ci.key+" at "+fx.pos(at))
		return []outcome{{st: st, fl: flExit}}
	}
	// havoc modifies
	targets := fx.modTargets(pre, fc.Modifies)
	for _, t := range targets {
		cur := fx.heapArr(st.heap, t.heap, t.sort)
		// the caller's own frame must allow what the callee may modify
		fx.frameCheckCallee(st, t, at)
		if t.ref == "" {
			fx.havocHeap(st, t.heap, t.sort)
		} else {
			es := arrayElemSort(t.sort)
			nv := fx.sc.Fresh("hv", es)
			if strings.HasPrefix(es, "Slice_") {
				st.facts = append(st.facts, fx.sliceWF(Val{nv, es, nil}))
			}
			fx.setHeap(st, t.heap, t.sort, "(store "+cur+" "+t.ref+" "+nv+")")
		}
	}
	// allocation only grows
	if !fc.Pure {
		preA := fx.heapArr(st.heap, allocHeap, allocSort)
		na := fx.havocHeap(st, allocHeap, allocSort)
		st.facts = append(st.facts, "(forall ((r Int)) (! (=> (select "+preA+" r) (select "+na+" r)) :pattern ((select "+na+" r))))")
	}
	cenv.heap = st.heap
	var res []outcome
	// exceptional outcome
	if len(fc.Panics) > 0 && fx.wantPanicFork() {
		ex := st.clone()
		eenv := &Env{named: cenv.named, heap: ex.heap, old: pre, st: ex}
		pv := fx.sc.Fresh("panicval", "Any")
		eenv.named = copyNamed(cenv.named)
		eenv.named["panicval"] = Val{pv, "Any", tAny}
		for _, p := range fc.Panics {
			ex.assume(fx.specBool(eenv, p.Expr))
		}
		ex.assume("(not (= " + pv + " nilAny))")
		ex.panicking = true
		ex.panicVal = pv
		ex.trace = append(ex.trace, "panic in "+ci.key+" at "+fx.pos(at))
		res = append(res, outcome{st: ex, fl: flPanic})
	}
	// results
	st.retVals = nil
	named := copyNamed(cenv.named)
	for i := 0; i < ci.sig.Results().Len(); i++ {
		rt := ci.sig.Results().At(i).Type()
		rs := fx.sc.SortOf(rt)
		c := fx.sc.Fresh("ret_"+strings.ReplaceAll(ci.key, ".", "_"), rs)
		v := Val{c, rs, rt}
		if r := fx.rangeFact(v); r != "" {
			st.facts = append(st.facts, r)
		}
		if strings.HasPrefix(rs, "Slice_") {
			st.facts = append(st.facts, fx.sliceWF(v))
		}
		st.retVals = append(st.retVals, v)
		if i < len(fc.Results) && fc.Results[i].Name != "" {
			named[fc.Results[i].Name] = v
		}
	}
	cenv.named = named
	if ci.extFn != "" {
		var sorts, as []string
		for _, a := range args {
			sorts = append(sorts, a.S)
			as = append(as, a.T)
		}
		for i, r := range st.retVals {
			fn := fmt.Sprintf("%s_%d", ci.extFn, i)
			fx.sc.declFun(fn, "(declare-fun "+fn+" ("+strings.Join(sorts, " ")+") "+r.S+")")
			if len(as) == 0 {
				st.assume("(= " + r.T + " " + fn + ")")
			} else {
				st.assume("(= " + r.T + " (" + fn + " " + strings.Join(as, " ") + "))")
			}
		}
	}
	for _, e := range fc.Ensures {
		if hasTag(e.Tags, "local") {
			continue // mentions locals of the callee body: checked there, not usable by callers
		}
		g := fx.specBool(cenv, e.Expr)
		// a postcondition of the callee that is excused by a known finding is only known outside the finding's region
		if r, excused := fx.calleeRegion(ci.key, "ensures["+e.Label+"]", pre); excused {
			if r == "" {
				continue
			}
			g = "(=> (not " + r + ") " + g + ")"
		}
		st.assume(g)
	}
	st.calls = append(st.calls, callRec{key: ci.key, named: copyNamed(cenv.named), heap: copyHeapMap(preHeap)})
	res = append(res, outcome{st: st})
	return res
}

func copyNamed(m map[string]Val) map[string]Val {
	n := make(map[string]Val, len(m)+2)
	for k, v := range m {
		n[k] = v
	}
	return n
}

// wantPanicFork: exceptional paths only matter when the current function restricts its
// panics or has a recovering deferred closure.
func (fx *FnCtx) wantPanicFork() bool {
	if fx.fc == nil {
		return false
	}
	if fx.hasRecover {
		return true
	}
	if len(fx.fc.Panics) == 0 {
		return true // function must not panic: the fork must be shown infeasible
	}
	for _, p := range fx.fc.Panics {
		if b, ok := p.Expr.(*SBool); !ok || !b.V {
			return true
		}
	}
	return false
}

// frameCheckCallee: what a callee may modify must be inside the caller's modifies.
func (fx *FnCtx) frameCheckCallee(st *State, t modTarget, at ast.Node) {
	if fx.fc == nil || fx.lemmaMode {
		return
	}
	if fx.ownCells[t.heap] {
		return // a local variable of this very function that its closures assign
	}
	var disj []string
	for _, m := range fx.modsEntry {
		if m.heap != t.heap {
			continue
		}
		if m.ref == "" {
			return
		}
		if t.ref != "" {
			disj = append(disj, "(= "+t.ref+" "+m.ref+")")
		}
	}
	if t.ref != "" {
		pre := fx.heapInitConst(allocHeap, allocSort)
		disj = append(disj, "(not (select "+pre+" "+t.ref+"))")
	}
	goal := "false"
	if len(disj) > 0 {
		goal = "(or " + strings.Join(disj, " ") + " false)"
	}
	fx.emit(st, "frame["+t.heap+"]", "frame", fx.fc.FrameTag, goal, "callee may modify "+t.src+"; must be inside modifies", fx.pos(at))
}

// callOrdinal: 1-based ordinal of a call expression among the calls with the same callee name
// in the function body, in source order (used by "before callee#N assert").
func (fx *FnCtx) callOrdinal(ce *ast.CallExpr) int {
	if fx.callOrd == nil {
		fx.callOrd = map[*ast.CallExpr]int{}
		cnt := map[string]int{}
		ast.Inspect(fx.decl.Body, func(n ast.Node) bool {
			if c, ok := n.(*ast.CallExpr); ok {
				name := ""
				switch f := ast.Unparen(c.Fun).(type) {
				case *ast.Ident:
					name = f.Name
				case *ast.SelectorExpr:
					name = f.Sel.Name
				}
				if name != "" {
					cnt[name]++
					fx.callOrd[c] = cnt[name]
				}
			}
			return true
		})
	}
	return fx.callOrd[ce]
}

func copyHeapMap(m map[string]string) map[string]string {
	n := make(map[string]string, len(m))
	for k, v := range m {
		n[k] = v
	}
	return n
}
