package main

import (
	"fmt"
	"os"
)

// F14 (C12, under Memoize(true)): a memo hit replays no failure-record event. T <- "b" is evaluated at offset 0
// inside the negative predicate (its failure is not counted there) and again outside it; with Memoize(true)
// the second evaluation is a memo hit, so the failure of "b" at the farthest offset is never recorded and the
// "no match" error lists a different expected set than the default parse.
// Defect present iff the two error messages differ.
func main() {
	_, e1 := Parse("", []byte("c"))
	_, e2 := Parse("", []byte("c"), Memoize(true))
	if e1 == nil || e2 == nil {
		fmt.Println("unexpected: a parse succeeded:", e1, e2)
		os.Exit(3)
	}
	if e1.Error() != e2.Error() {
		fmt.Printf("defect present: default: %q, Memoize(true): %q\n", e1.Error(), e2.Error())
		os.Exit(0)
	}
	fmt.Println("defect gone: both report", e1)
	os.Exit(1)
}
