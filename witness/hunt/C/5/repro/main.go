package main

import (
	"fmt"
	"os"
	"runtime/debug"
)

func main() {
	debug.SetMaxStack(32 << 20)
	for _, in := range os.Args[2:] {
		v, err := Parse("", []byte(in))
		fmt.Printf("%q => val=%v err=%v\n", in, v, err)
	}
}
