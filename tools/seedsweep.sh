#!/bin/sh
# usage: seedsweep.sh <out-file> <seed> [<seed>...]   where seed = Cxx/N (under seeded/_incoming or seeded)
# For each seed: apply patch.diff to /repo, run the property's quick check, restore /repo.
out="$1"; shift
: > "$out"
for s in "$@"; do
  prop=${s%%/*}
  dir=/verif/seeded/_incoming/$s
  [ -d "$dir" ] || dir=/verif/seeded/$s
  cd /repo || exit 3
  git diff --quiet || { echo "$s repo-dirty" >> "$out"; exit 3; }
  if ! git apply "$dir/patch.diff" 2>/dev/null; then echo "$s PATCH-DOES-NOT-APPLY" >> "$out"; continue; fi
  cd /verif
  ./check "$prop" quick > /verif/.work/sweep.log 2>&1
  rc=$?
  v=$(grep -c "^VIOLATION" /verif/.work/sweep.log)
  first=$(grep "^VIOLATION" /verif/.work/sweep.log | head -3 | sed 's/replay=[^ ]* //' | cut -c1-160 | tr '\n' '|')
  echo "$s exit=$rc violations=$v $first" >> "$out"
  git -C /repo checkout -- . ; git -C /repo clean -fdq
done
echo done >> "$out"
