package main

import (
	"fmt"
	"os"
)

func main() {
	in := []byte(os.Args[1])
	// default options: AllowInvalidUTF8 is false
	v, err := Parse("", in)
	fmt.Printf("input=%q value=%q err=%v\n", in, v, err)
	if v != nil && err == nil {
		fmt.Println("VIOLATION: the parser advanced onto the invalid byte 0xff but Parse returned a nil error")
	} else {
		fmt.Println("OK")
	}
}
