package main

// Symbolic execution of Go statements (path forking).

import (
	"bytes"
	"fmt"
	"go/ast"
	"go/printer"
	"go/token"
	"go/types"
	"strings"
)

type flow int

const (
	flNormal flow = iota
	flBreak
	flContinue
	flReturn
	flPanic
	flExit // the process exits (os.Exit): no deferred call runs, no postcondition applies
)

type outcome struct {
	st    *State
	fl    flow
	label string
}

const maxPaths = 600

func (fx *FnCtx) execBlock(st *State, stmts []ast.Stmt) []outcome {
	cur := []outcome{{st: st}}
	for _, s := range stmts {
		var next []outcome
		for _, o := range cur {
			if o.fl != flNormal {
				next = append(next, o)
				continue
			}
			next = append(next, fx.exec(o.st, s)...)
		}
		cur = next
		if len(cur) > maxPaths {
			fx.fail("path explosion (> %d paths)", maxPaths)
		}
	}
	return cur
}

func (fx *FnCtx) exec(st *State, s ast.Stmt) []outcome {
	if fx.fc != nil && len(fx.fc.StmtAsserts) > 0 {
		if _, isBlock := s.(*ast.BlockStmt); !isBlock {
			key := fx.stmtText(s)
			cls := fx.fc.StmtAsserts[key]
			if n := fx.stmtOrdinal(s, key); n > 0 {
				cls = append(append([]*Clause{}, cls...), fx.fc.StmtAsserts[fmt.Sprintf("%s#%d", key, n)]...)
			}
			for _, c := range cls {
				if c.Kind == "ghost" {
					// ghost binding: a spec-only name holding the value of the expression at this point
					st.named[c.Label] = fx.evalSpec(fx.envAt(st, s.Pos()), c.Expr)
					fx.stmtAssertHit[c] = true
					continue
				}
				goal := fx.specBool(fx.envAt(st, s.Pos()), c.Expr)
				fx.emit(st, "at:assert["+c.Label+"]", "stmt-assert", c.Tags, goal, c.Src, fx.pos(s))
				st.assume(fx.assumeAfterAssert("at:assert["+c.Label+"]", goal))
				fx.stmtAssertHit[c] = true
			}
		}
	}
	switch x := s.(type) {
	case *ast.BlockStmt:
		return fx.execBlock(st, x.List)
	case *ast.ExprStmt:
		if call, ok := x.X.(*ast.CallExpr); ok {
			if id, ok := call.Fun.(*ast.Ident); ok && id.Name == "panic" {
				if _, isB := fx.pkg.Info.Uses[id].(*types.Builtin); isB {
					v := fx.eval(st, call.Args[0])
					st.panicking = true
					st.panicVal = fx.coerce(v, "Any", tAny).T
					st.trace = append(st.trace, "panic at "+fx.pos(x))
					return []outcome{{st: st, fl: flPanic}}
				}
			}
			return fx.callStmt(st, call)
		}
		fx.eval(st, x.X)
		return []outcome{{st: st}}
	case *ast.AssignStmt:
		return fx.execAssign(st, x)
	case *ast.IncDecStmt:
		v := fx.eval(st, x.X)
		op := "+"
		if x.Tok == token.DEC {
			op = "-"
		}
		nv := Val{"(" + op + " " + v.T + " 1)", "Int", v.Ty}
		// machine arithmetic is treated as mathematical (assumption listed in the evidence); the
		// counter ExprCnt++ would need 2^64 evaluations to wrap.
		fx.assign(st, x.X, nv)
		return []outcome{{st: st}}
	case *ast.DeclStmt:
		gd := x.Decl.(*ast.GenDecl)
		if gd.Tok == token.VAR {
			for _, sp := range gd.Specs {
				vs := sp.(*ast.ValueSpec)
				if len(vs.Values) == 1 && len(vs.Names) > 1 {
					vals := fx.evalMulti(st, vs.Values[0], len(vs.Names))
					for i, n := range vs.Names {
						fx.assign(st, n, vals[i])
					}
					continue
				}
				for i, n := range vs.Names {
					if n.Name == "_" {
						continue
					}
					o := fx.pkg.Info.Defs[n].(*types.Var)
					if i < len(vs.Values) {
						v := fx.eval(st, vs.Values[i])
						fx.assign(st, n, v)
					} else {
						fx.setVar(st, o, Val{fx.sc.Zero(o.Type()), fx.sc.SortOf(o.Type()), o.Type()})
					}
				}
			}
		}
		return []outcome{{st: st}}
	case *ast.ReturnStmt:
		if len(x.Results) > 0 {
			var vals []Val
			if len(x.Results) == 1 && len(fx.results) > 1 {
				vals = fx.evalMulti(st, x.Results[0], len(fx.results))
			} else {
				for _, r := range x.Results {
					vals = append(vals, fx.eval(st, r))
				}
			}
			for i, rv := range fx.results {
				v := fx.coerce(vals[i], fx.sc.SortOf(rv.Type()), rv.Type())
				v.Ty = rv.Type()
				fx.setVar(st, rv, v)
			}
		}
		st.trace = append(st.trace, "return at "+fx.pos(x))
		return []outcome{{st: st, fl: flReturn}}
	case *ast.IfStmt:
		if x.Init != nil {
			outs := fx.exec(st, x.Init)
			var res []outcome
			for _, o := range outs {
				if o.fl != flNormal {
					res = append(res, o)
					continue
				}
				res = append(res, fx.execIf(o.st, x)...)
			}
			return res
		}
		return fx.execIf(st, x)
	case *ast.ForStmt:
		return fx.execFor(st, x)
	case *ast.RangeStmt:
		return fx.execRange(st, x)
	case *ast.SwitchStmt:
		return fx.execSwitch(st, x)
	case *ast.TypeSwitchStmt:
		return fx.execTypeSwitch(st, x)
	case *ast.BranchStmt:
		lab := ""
		if x.Label != nil {
			lab = x.Label.Name
		}
		switch x.Tok {
		case token.BREAK:
			return []outcome{{st: st, fl: flBreak, label: lab}}
		case token.CONTINUE:
			return []outcome{{st: st, fl: flContinue, label: lab}}
		}
		fx.fail("unsupported branch %s", x.Tok)
	case *ast.DeferStmt:
		fx.execDefer(st, x)
		return []outcome{{st: st}}
	case *ast.LabeledStmt:
		outs := fx.exec(st, x.Stmt)
		for i := range outs {
			if outs[i].fl == flBreak && outs[i].label == x.Label.Name {
				outs[i].fl = flNormal
				outs[i].label = ""
			}
		}
		return outs
	case *ast.EmptyStmt:
		return []outcome{{st: st}}
	}
	fx.fail("unsupported statement %T at %s", s, fx.pos(s))
	return nil
}

func (fx *FnCtx) execIf(st *State, x *ast.IfStmt) []outcome {
	c := fx.evalBool(st, x.Cond)
	var res []outcome
	if c != "false" {
		t := st.clone()
		t.assume(c)
		t.trace = append(t.trace, "then@"+fx.pos(x))
		res = append(res, fx.exec(t, x.Body)...)
	}
	if c != "true" {
		e := st
		e.assume("(not " + c + ")")
		e.trace = append(e.trace, "else@"+fx.pos(x))
		if x.Else != nil {
			res = append(res, fx.exec(e, x.Else)...)
		} else {
			res = append(res, outcome{st: e})
		}
	}
	return res
}

func (fx *FnCtx) evalMulti(st *State, e ast.Expr, n int) []Val {
	switch x := e.(type) {
	case *ast.ParenExpr:
		return fx.evalMulti(st, x.X, n)
	case *ast.CallExpr:
		vs := fx.evalCall(st, x)
		if len(vs) != n {
			fx.fail("call returns %d values, want %d at %s", len(vs), n, fx.pos(e))
		}
		return vs
	case *ast.IndexExpr:
		if n == 2 {
			r := fx.evalIndex(st, x, true)
			return []Val{r.v, {r.ok, "Bool", tBool}}
		}
	case *ast.TypeAssertExpr:
		if n == 2 {
			v := fx.eval(st, x.X)
			t := fx.typeOf(x.Type)
			ok, r := fx.typeAssert(st, v, t)
			okc := fx.sc.Fresh("ok", "Bool")
			st.facts = append(st.facts, "(= "+okc+" "+ok+")")
			// when !ok the result is the zero value
			z := fx.sc.Zero(t)
			return []Val{{"(ite " + okc + " " + r.T + " " + z + ")", r.S, t}, {okc, "Bool", tBool}}
		}
	}
	fx.fail("unsupported multi-value expression at %s", fx.pos(e))
	return nil
}

// impureShortCircuit: e is `a || b` / `a && b` whose right operand contains a call to a function
// that is not pure; such statements are executed by forking on a.
func (fx *FnCtx) impureShortCircuit(e ast.Expr) (*ast.BinaryExpr, bool) {
	b, ok := ast.Unparen(e).(*ast.BinaryExpr)
	if !ok || (b.Op != token.LOR && b.Op != token.LAND) {
		return nil, false
	}
	impure := false
	ast.Inspect(b.Y, func(n ast.Node) bool {
		if c, ok := n.(*ast.CallExpr); ok && !fx.isBuiltinOrConv(c) && !fx.isIntrinsic(c) {
			func() {
				defer func() { recover() }()
				ci := fx.resolveCallee(nil, c)
				if !ci.fc.Pure {
					impure = true
				}
			}()
		}
		return true
	})
	return b, impure
}

func (fx *FnCtx) execAssign(st *State, x *ast.AssignStmt) []outcome {
	if len(x.Lhs) == 1 && len(x.Rhs) == 1 && (x.Tok == token.ASSIGN || x.Tok == token.DEFINE) {
		if b, ok := fx.impureShortCircuit(x.Rhs[0]); ok {
			a := fx.evalBool(st, b.X)
			short, long := st.clone(), st
			if b.Op == token.LOR {
				short.assume(a)
				fx.assign(short, x.Lhs[0], Val{"true", "Bool", tBool})
				long.assume("(not " + a + ")")
			} else {
				short.assume("(not " + a + ")")
				fx.assign(short, x.Lhs[0], Val{"false", "Bool", tBool})
				long.assume(a)
			}
			v := fx.eval(long, b.Y)
			fx.assign(long, x.Lhs[0], v)
			return []outcome{{st: short}, {st: long}}
		}
	}
	if x.Tok != token.ASSIGN && x.Tok != token.DEFINE {
		// op-assign
		lhs := x.Lhs[0]
		a := fx.eval(st, lhs)
		b := fx.eval(st, x.Rhs[0])
		var t string
		switch x.Tok {
		case token.ADD_ASSIGN:
			if a.S == "Str" {
				t = fx.scat(a.T, b.T)
			} else {
				t = "(+ " + a.T + " " + b.T + ")"
			}
		case token.SUB_ASSIGN:
			t = "(- " + a.T + " " + b.T + ")"
		case token.MUL_ASSIGN:
			t = "(* " + a.T + " " + b.T + ")"
		default:
			fx.fail("unsupported op-assign %s at %s", x.Tok, fx.pos(x))
		}
		fx.assign(st, lhs, Val{t, a.S, a.Ty})
		return []outcome{{st: st}}
	}
	var vals []Val
	if len(x.Rhs) == 1 && len(x.Lhs) > 1 {
		vals = fx.evalMulti(st, x.Rhs[0], len(x.Lhs))
	} else {
		for i, r := range x.Rhs {
			v := fx.eval(st, r)
			if v.S == "nil" {
				v = fx.coerce(v, fx.sc.SortOf(fx.typeOf(x.Lhs[i])), fx.typeOf(x.Lhs[i]))
			}
			vals = append(vals, v)
		}
	}
	for i, l := range x.Lhs {
		fx.assign(st, l, vals[i])
	}
	return []outcome{{st: st}}
}

// ---------- switch ----------

func (fx *FnCtx) execSwitch(st *State, x *ast.SwitchStmt) []outcome {
	if x.Init != nil {
		fx.exec(st, x.Init)
	}
	var tag *Val
	if x.Tag != nil {
		v := fx.eval(st, x.Tag)
		tag = &v
	}
	var res []outcome
	var negs []string
	var deflt *ast.CaseClause
	for _, c := range x.Body.List {
		cc := c.(*ast.CaseClause)
		if cc.List == nil {
			deflt = cc
			continue
		}
		var conds []string
		for _, e := range cc.List {
			if tag != nil {
				v := fx.eval(st, e)
				a, b := fx.unify(*tag, v)
				conds = append(conds, "(= "+a.T+" "+b.T+")")
			} else {
				conds = append(conds, fx.evalBool(st, e))
			}
		}
		cond := "(or " + strings.Join(conds, " ") + " false)"
		t := st.clone()
		for _, n := range negs {
			t.assume(n)
		}
		t.assume(cond)
		res = append(res, fx.switchBody(t, cc.Body)...)
		negs = append(negs, "(not "+cond+")")
	}
	d := st
	for _, n := range negs {
		d.assume(n)
	}
	if deflt != nil {
		res = append(res, fx.switchBody(d, deflt.Body)...)
	} else {
		res = append(res, outcome{st: d})
	}
	return res
}

func (fx *FnCtx) switchBody(st *State, body []ast.Stmt) []outcome {
	outs := fx.execBlock(st, body)
	for i := range outs {
		if outs[i].fl == flBreak && outs[i].label == "" {
			outs[i].fl = flNormal
		}
	}
	return outs
}

func (fx *FnCtx) execTypeSwitch(st *State, x *ast.TypeSwitchStmt) []outcome {
	if x.Init != nil {
		fx.exec(st, x.Init)
	}
	var subj ast.Expr
	switch a := x.Assign.(type) {
	case *ast.AssignStmt:
		subj = a.Rhs[0].(*ast.TypeAssertExpr).X
	case *ast.ExprStmt:
		subj = a.X.(*ast.TypeAssertExpr).X
	}
	v := fx.eval(st, subj)
	var res []outcome
	var negs []string
	var deflt *ast.CaseClause
	for _, c := range x.Body.List {
		cc := c.(*ast.CaseClause)
		if cc.List == nil {
			deflt = cc
			continue
		}
		var conds []string
		var conv Val
		single := len(cc.List) == 1
		t := st.clone()
		for _, e := range cc.List {
			if id, ok := e.(*ast.Ident); ok && id.Name == "nil" {
				conds = append(conds, "(= "+v.T+" nilAny)")
				conv = v
				continue
			}
			ty := fx.typeOf(e)
			ok, r := fx.typeAssert(t, v, ty)
			conds = append(conds, ok)
			conv = r
		}
		cond := "(or " + strings.Join(conds, " ") + " false)"
		for _, n := range negs {
			t.assume(n)
		}
		t.assume(cond)
		if obj, ok := fx.pkg.Info.Implicits[cc].(*types.Var); ok {
			if single {
				fx.setVar(t, obj, Val{conv.T, conv.S, obj.Type()})
			} else {
				fx.setVar(t, obj, v)
			}
		}
		res = append(res, fx.switchBody(t, cc.Body)...)
		negs = append(negs, "(not "+cond+")")
	}
	d := st
	for _, n := range negs {
		d.assume(n)
	}
	if deflt != nil {
		if obj, ok := fx.pkg.Info.Implicits[deflt].(*types.Var); ok {
			fx.setVar(d, obj, v)
		}
		res = append(res, fx.switchBody(d, deflt.Body)...)
	} else {
		res = append(res, outcome{st: d})
	}
	return res
}

// ---------- loops ----------

// assignedIn collects variables assigned in a statement list (syntactically) and whether
// heap may be written (field/index/deref/map assignment or any call).
type loopWrites struct {
	vars  map[*types.Var]bool
	calls []*ast.CallExpr
	heaps map[string]string // heap array -> sort (direct stores)
	any   bool
}

func (fx *FnCtx) scanWrites(n ast.Node) *loopWrites {
	w := &loopWrites{vars: map[*types.Var]bool{}, heaps: map[string]string{}}
	markLHS := func(e ast.Expr) {
		for {
			switch x := e.(type) {
			case *ast.ParenExpr:
				e = x.X
				continue
			case *ast.Ident:
				if o, ok := fx.pkg.Info.Uses[x].(*types.Var); ok {
					w.vars[o] = true
					if o.Parent() == fx.pkg.Types.Scope() {
						w.heaps[globalHeap(o.Name())] = fx.sc.SortOf(o.Type())
					}
				}
				if o, ok := fx.pkg.Info.Defs[x].(*types.Var); ok {
					w.vars[o] = true
				}
				return
			case *ast.SelectorExpr:
				if sel, ok := fx.pkg.Info.Selections[x]; ok && sel.Kind() == types.FieldVal {
					// find heap arrays on the path
					t := fx.typeOf(x.X)
					for _, ix := range sel.Index() {
						if el, ok := derefType(t); ok {
							sname, stt := namedStruct(el)
							f := stt.Field(ix)
							w.heaps[fieldHeap(sname, f.Name())] = "(Array Int " + fx.sc.SortOf(f.Type()) + ")"
							t = f.Type()
						} else {
							t = t.Underlying().(*types.Struct).Field(ix).Type()
						}
					}
				}
				if _, isPtr := derefType(fx.typeOf(x.X)); isPtr {
					// store through a pointer: the base variable itself is not written
					if len(func() []int {
						if sel, ok := fx.pkg.Info.Selections[x]; ok {
							return sel.Index()
						}
						return nil
					}()) <= 1 {
						return
					}
				}
				e = x.X
				continue
			case *ast.IndexExpr:
				bt := fx.typeOf(x.X)
				if m, ok := bt.Underlying().(*types.Map); ok {
					dom, val, ks, vs := fx.sc.mapSorts(m)
					w.heaps[dom] = "(Array Int (Array " + ks + " Bool))"
					w.heaps[val] = "(Array Int (Array " + ks + " " + vs + "))"
					return
				}
				e = x.X
				continue
			case *ast.StarExpr:
				pt := fx.typeOf(x.X)
				if el, ok := derefType(pt); ok {
					if sname, stt := namedStruct(el); stt != nil {
						for i := 0; i < stt.NumFields(); i++ {
							f := stt.Field(i)
							w.heaps[fieldHeap(sname, f.Name())] = "(Array Int " + fx.sc.SortOf(f.Type()) + ")"
						}
					} else {
						s := fx.sc.SortOf(el)
						w.heaps[derefHeap(s)] = "(Array Int " + s + ")"
					}
				}
				return
			default:
				return
			}
		}
	}
	ast.Inspect(n, func(n ast.Node) bool {
		switch x := n.(type) {
		case *ast.AssignStmt:
			for _, l := range x.Lhs {
				markLHS(l)
			}
		case *ast.IncDecStmt:
			markLHS(x.X)
		case *ast.RangeStmt:
			if x.Key != nil {
				markLHS(x.Key)
			}
			if x.Value != nil {
				markLHS(x.Value)
			}
		case *ast.ValueSpec:
			for _, nm := range x.Names {
				if o, ok := fx.pkg.Info.Defs[nm].(*types.Var); ok {
					w.vars[o] = true
				}
			}
		case *ast.CallExpr:
			w.calls = append(w.calls, x)
			// a local bytes.Buffer passed by address (fmt.Fprintf(&buf, ...)) is written too
			for _, a := range x.Args {
				if _, isAddr := a.(*ast.UnaryExpr); isAddr {
					if bv := fx.localBufferVar(a); bv != nil {
						w.vars[bv] = true
					}
				}
			}
			// a method call on a local bytes.Buffer (modelled as a string accumulator) writes the variable
			if sel, ok := x.Fun.(*ast.SelectorExpr); ok {
				recv := sel.X
				if u, ok := recv.(*ast.UnaryExpr); ok && u.Op == token.AND {
					recv = u.X
				}
				if id, ok := recv.(*ast.Ident); ok {
					if o, ok := fx.pkg.Info.Uses[id].(*types.Var); ok {
						if n, ok := types.Unalias(o.Type()).(*types.Named); ok && n.Obj().Pkg() != nil && n.Obj().Pkg().Path() == "bytes" && n.Obj().Name() == "Buffer" {
							w.vars[o] = true
						}
					}
				}
			}
		case *ast.FuncLit:
			return true
		}
		return true
	})
	return w
}

// havocForLoop havocs everything the loop body may write.
func (fx *FnCtx) havocForLoop(st *State, body ast.Node, extra []ast.Node, ord int) {
	w := fx.scanWrites(body)
	for _, e := range extra {
		if e == nil {
			continue
		}
		w2 := fx.scanWrites(e)
		for k := range w2.vars {
			w.vars[k] = true
		}
		for k, v := range w2.heaps {
			w.heaps[k] = v
		}
		w.calls = append(w.calls, w2.calls...)
	}
	for o := range w.vars {
		if h, ok := fx.cells[o]; ok {
			fx.havocHeap(st, h, fx.sc.SortOf(o.Type()))
			continue
		}
		if old, ok := st.vars[o]; ok {
			c := fx.sc.Fresh(o.Name(), old.S)
			nv := Val{c, old.S, old.Ty}
			if r := fx.rangeFact(nv); r != "" {
				st.facts = append(st.facts, r)
			}
			if strings.HasPrefix(old.S, "Slice_") {
				st.facts = append(st.facts, fx.sliceWF(nv))
			}
			fx.setVar(st, o, nv)
		}
	}
	for h, s := range w.heaps {
		fx.havocHeap(st, h, s)
	}
	for _, c := range w.calls {
		fx.havocCallFrame(st, c)
	}
	// ghost names bound inside the loop are havocked with it
	for _, nd := range append([]ast.Node{body}, extra...) {
		for _, g := range fx.ghostWrites(nd) {
			if old, ok := st.named[g]; ok {
				st.named[g] = Val{fx.sc.Fresh(g, old.S), old.S, old.Ty}
			}
		}
	}
	// alloc only grows
	preA := fx.heapArr(st.heap, allocHeap, allocSort)
	if len(w.calls) > 0 {
		na := fx.havocHeap(st, allocHeap, allocSort)
		st.facts = append(st.facts, "(forall ((r Int)) (! (=> (select "+preA+" r) (select "+na+" r)) :pattern ((select "+na+" r))))")
	}
	_ = ord
}

func (fx *FnCtx) sliceWF(v Val) string {
	return fmt.Sprintf("(and (<= 0 (len_%s %s)) (<= (len_%s %s) (cap_%s %s)) (<= 0 (off_%s %s)))", v.S, v.T, v.S, v.T, v.S, v.T, v.S, v.T)
}

func (fx *FnCtx) loopClauses(s ast.Stmt) (int, []*Clause) {
	ord := fx.loopOrd[s]
	if fx.fc == nil {
		return ord, nil
	}
	return ord, fx.fc.Loops[ord]
}

// checkInvariants emits obligations for the invariant clauses (phase = init/preserve).
func (fx *FnCtx) checkInvariants(st *State, ord int, cls []*Clause, phase string, at ast.Node) {
	env := fx.envAt(st, loopScopePos(at))
	for _, c := range cls {
		if c.Kind != "invariant" {
			continue
		}
		goal := fx.specBool(env, c.Expr)
		fx.emit(st, fmt.Sprintf("loop#%d:invariant[%s]:%s", ord, c.Label, phase), "invariant-"+phase, c.Tags, goal, c.Src, fx.pos(at))
	}
}

func (fx *FnCtx) assumeInvariants(st *State, cls []*Clause, at ast.Node) {
	env := fx.envAt(st, loopScopePos(at))
	for _, c := range cls {
		if c.Kind == "invariant" {
			st.assume(fx.specBool(env, c.Expr))
		}
	}
}

func (fx *FnCtx) decreasesVal(st *State, cls []*Clause, at ast.Node) (string, *Clause) {
	for _, c := range cls {
		if c.Kind == "decreases" {
			return fx.evalSpec(fx.envAt(st, loopScopePos(at)), c.Expr).T, c
		}
	}
	return "", nil
}

// runLoop is the common loop driver. guard(st) evaluates the loop condition ("" = true) in st
// and may bind per-iteration variables; post(st) executes the post statement.
func (fx *FnCtx) runLoop(st *State, s ast.Stmt, body *ast.BlockStmt, extra []ast.Node,
	guard func(*State) string, bind func(*State), post func(*State)) []outcome {
	ord, cls := fx.loopClauses(s)
	// 1. invariants hold on entry
	fx.checkInvariants(st, ord, cls, "init", s)
	// 2. havoc
	fx.havocForLoop(st, body, extra, ord)
	fx.assumeInvariants(st, cls, s)
	var res []outcome
	// 3. exit path (guard false)
	g := guard(st.clone()) // evaluate on a clone first to learn if constant
	if g != "" && g != "true" {
		ex := st.clone()
		ge := guard(ex)
		ex.assume("(not " + ge + ")")
		ex.trace = append(ex.trace, fmt.Sprintf("loop#%d exit", ord))
		res = append(res, outcome{st: ex})
	}
	// 4. body path
	b := st
	if g != "" {
		gb := guard(b)
		b.assume(gb)
	}
	b.trace = append(b.trace, fmt.Sprintf("loop#%d body", ord))
	d0, dc := fx.decreasesVal(b, cls, s)
	if bind != nil {
		bind(b)
	}
	outs := fx.exec(b, body)
	for _, o := range outs {
		switch o.fl {
		case flNormal, flContinue:
			if o.fl == flContinue && o.label != "" {
				fx.fail("labelled continue")
			}
			if post != nil {
				post(o.st)
			}
			fx.checkInvariants(o.st, ord, cls, "preserve", s)
			if dc != nil {
				d1 := fx.evalSpec(fx.envAt(o.st, loopScopePos(s)), dc.Expr).T
				fx.emit(o.st, fmt.Sprintf("loop#%d:decreases", ord), "decreases", dc.Tags, "(and (< "+d1+" "+d0+") (>= "+d1+" 0))", dc.Src, fx.pos(s))
			}
		case flBreak:
			if o.label == "" {
				o.fl = flNormal
			}
			res = append(res, o)
		default:
			res = append(res, o)
		}
	}
	return res
}

func (fx *FnCtx) execFor(st *State, x *ast.ForStmt) []outcome {
	if x.Init != nil {
		outs := fx.exec(st, x.Init)
		st = outs[0].st
	}
	guard := func(s *State) string {
		if x.Cond == nil {
			return ""
		}
		return fx.evalBool(s, x.Cond)
	}
	var post func(*State)
	if x.Post != nil {
		post = func(s *State) { fx.exec(s, x.Post) }
	}
	return fx.runLoop(st, x, x.Body, []ast.Node{x.Post}, guard, nil, post)
}

func (fx *FnCtx) execRange(st *State, x *ast.RangeStmt) []outcome {
	coll := fx.eval(st, x.X)
	ct := coll.Ty
	ord := fx.loopOrd[x]
	idxName := fmt.Sprintf("idx%d", ord)
	switch u := ct.Underlying().(type) {
	case *types.Slice, *types.Array, *types.Basic:
		isStr := false
		var n string
		switch uu := u.(type) {
		case *types.Slice:
			n = fx.sliceLen(coll)
		case *types.Array:
			n = fmt.Sprint(uu.Len())
		case *types.Basic:
			if uu.Info()&types.IsString == 0 {
				if uu.Info()&types.IsInteger != 0 {
					n = coll.T // range over int
				} else {
					fx.fail("range over %v", ct)
				}
			} else {
				isStr = true
				n = "(runeCount " + coll.T + ")"
			}
		}
		// hidden index variable, visible to invariants as idx<ord> (and "idx")
		st.named[idxName] = Val{"0", "Int", tInt}
		st.named["idx"] = st.named[idxName]
		st.named[fmt.Sprintf("coll%d", ord)] = coll
		hidden := types.NewVar(token.NoPos, fx.pkg.Types, idxName, tInt)
		st.vars[hidden] = Val{"0", "Int", tInt}
		setIdx := func(s *State, t string) {
			v := Val{t, "Int", tInt}
			if len(t) > 30 {
				c := fx.sc.Fresh(idxName, "Int")
				s.facts = append(s.facts, "(= "+c+" "+t+")")
				v.T = c
			}
			s.vars[hidden] = v
			s.named[idxName] = v
			s.named["idx"] = v
		}
		guard := func(s *State) string {
			return "(< " + s.vars[hidden].T + " " + n + ")"
		}
		bind := func(s *State) {
			i := s.vars[hidden]
			if x.Key != nil {
				if isStr {
					if id, ok := x.Key.(*ast.Ident); !ok || id.Name != "_" {
						fx.fail("range over string with byte index at %s", fx.pos(x))
					}
				} else {
					fx.assign(s, x.Key, i)
				}
			}
			if x.Value != nil {
				var v Val
				if isStr {
					v = Val{"(runeOf " + coll.T + " " + i.T + ")", "Int", types.Typ[types.Int32]}
				} else {
					v = fx.indexVal(s.heap, coll, i)
				}
				if r := fx.rangeFact(v); r != "" {
					s.assume(r)
				}
				fx.assign(s, x.Value, v)
			}
		}
		post := func(s *State) { setIdx(s, "(+ "+s.vars[hidden].T+" 1)") }
		// the hidden index must be havocked with the loop: do it via a wrapper
		return fx.runLoopWithHidden(st, x, hidden, idxName, n, guard, bind, post)
	case *types.Map:
		return fx.execRangeMap(st, x, coll, u)
	}
	fx.fail("unsupported range over %v at %s", ct, fx.pos(x))
	return nil
}

func (fx *FnCtx) runLoopWithHidden(st *State, x *ast.RangeStmt, hidden *types.Var, idxName string, bound string,
	guard func(*State) string, bind func(*State), post func(*State)) []outcome {
	ord, cls := fx.loopClauses(x)
	fx.checkInvariants(st, ord, cls, "init", x)
	fx.havocForLoop(st, x.Body, nil, ord)
	// havoc hidden index, with 0 <= idx
	c := fx.sc.Fresh(idxName, "Int")
	st.vars[hidden] = Val{c, "Int", tInt}
	st.named[idxName] = st.vars[hidden]
	st.named["idx"] = st.vars[hidden]
	st.facts = append(st.facts, "(<= 0 "+c+")", "(<= "+c+" "+bound+")")
	fx.assumeInvariants(st, cls, x)
	var res []outcome
	ex := st.clone()
	ex.assume("(not " + guard(ex) + ")")
	ex.trace = append(ex.trace, fmt.Sprintf("loop#%d exit", ord))
	res = append(res, outcome{st: ex})
	b := st
	b.assume(guard(b))
	b.trace = append(b.trace, fmt.Sprintf("loop#%d body", ord))
	d0, dc := fx.decreasesVal(b, cls, x)
	bind(b)
	outs := fx.exec(b, x.Body)
	for _, o := range outs {
		switch o.fl {
		case flNormal, flContinue:
			post(o.st)
			fx.checkInvariants(o.st, ord, cls, "preserve", x)
			if dc != nil {
				d1 := fx.evalSpec(fx.envAt(o.st, loopScopePos(x)), dc.Expr).T
				fx.emit(o.st, fmt.Sprintf("loop#%d:decreases", ord), "decreases", dc.Tags, "(and (< "+d1+" "+d0+") (>= "+d1+" 0))", dc.Src, fx.pos(x))
			}
		case flBreak:
			if o.label == "" {
				o.fl = flNormal
			}
			res = append(res, o)
		default:
			res = append(res, o)
		}
	}
	return res
}

// execRangeMap: arbitrary-order enumeration with a ghost visited set.
func (fx *FnCtx) execRangeMap(st *State, x *ast.RangeStmt, m Val, mt *types.Map) []outcome {
	ord, cls := fx.loopClauses(x)
	dom, _, ks, _ := fx.sc.mapSorts(mt)
	hds := "(Array Int (Array " + ks + " Bool))"
	setSort := "(Array " + ks + " Bool)"
	// domain at loop entry
	d0 := fx.sc.Fresh("dom0", setSort)
	empty := "((as const " + setSort + ") false)"
	// ranging over a nil map performs no iteration (Go): its domain is empty
	st.facts = append(st.facts, "(= "+d0+" (ite (= "+m.T+" 0) "+empty+" (select "+fx.heapArr(st.heap, dom, hds)+" "+m.T+")))")
	visName := fmt.Sprintf("visited%d", ord)
	st.named[visName] = Val{empty, setSort, nil}
	st.named["visited"] = st.named[visName]
	st.named[fmt.Sprintf("dom%d", ord)] = Val{d0, setSort, nil}
	// iter<N>: the number of completed iterations (ghost; lets an invariant count what each round must do)
	iterName := fmt.Sprintf("iter%d", ord)
	st.named[iterName] = Val{"0", "Int", tInt}
	fx.checkInvariants(st, ord, cls, "init", x)
	fx.havocForLoop(st, x.Body, nil, ord)
	vis := fx.sc.Fresh(visName, setSort)
	st.named[visName] = Val{vis, setSort, nil}
	st.named["visited"] = st.named[visName]
	it := fx.sc.Fresh(iterName, "Int")
	st.facts = append(st.facts, "(>= "+it+" 0)")
	st.named[iterName] = Val{it, "Int", tInt}
	// visited ⊆ dom0
	st.facts = append(st.facts, "(forall ((k "+ks+")) (! (=> (select "+vis+" k) (select "+d0+" k)) :pattern ((select "+vis+" k))))")
	fx.assumeInvariants(st, cls, x)
	var res []outcome
	// exit: visited == dom0
	ex := st.clone()
	ex.assume("(= " + vis + " " + d0 + ")")
	ex.trace = append(ex.trace, fmt.Sprintf("loop#%d exit", ord))
	res = append(res, outcome{st: ex})
	// body: some key in dom0 \ visited (and still present if the body deletes only current keys)
	b := st
	k := fx.sc.Fresh("key", ks)
	b.assume("(and (select " + d0 + " " + k + ") (not (select " + vis + " " + k + ")))")
	// Go semantics: entries removed during iteration are not produced; we only support bodies
	// that delete the current key, so the key is still in the map.
	curDom := "(select " + fx.heapArr(b.heap, dom, hds) + " " + m.T + ")"
	b.assume("(select " + curDom + " " + k + ")")
	b.trace = append(b.trace, fmt.Sprintf("loop#%d body", ord))
	kv := Val{k, ks, mt.Key()}
	if x.Key != nil {
		fx.assign(b, x.Key, kv)
	}
	if x.Value != nil {
		fx.assign(b, x.Value, fx.indexVal(b.heap, m, kv))
	}
	b.named[fmt.Sprintf("key%d", ord)] = kv
	outs := fx.exec(b, x.Body)
	for _, o := range outs {
		switch o.fl {
		case flNormal, flContinue:
			nv := fx.sc.Fresh(visName, setSort)
			o.st.facts = append(o.st.facts, "(= "+nv+" (store "+vis+" "+k+" true))")
			o.st.named[visName] = Val{nv, setSort, nil}
			o.st.named["visited"] = o.st.named[visName]
			o.st.named[iterName] = Val{"(+ " + it + " 1)", "Int", tInt}
			fx.checkInvariants(o.st, ord, cls, "preserve", x)
		case flBreak:
			if o.label == "" {
				o.fl = flNormal
			}
			res = append(res, o)
		default:
			res = append(res, o)
		}
	}
	return res
}

// ---------- defer ----------

func (fx *FnCtx) execDefer(st *State, x *ast.DeferStmt) {
	if lit, ok := x.Call.Fun.(*ast.FuncLit); ok {
		if len(x.Call.Args) != 0 {
			fx.fail("deferred closure with arguments at %s", fx.pos(x))
		}
		st.defers = append(st.defers, deferred{lit: lit})
		return
	}
	ci := fx.resolveCallee(st, x.Call)
	d := deferred{call: x.Call, callee: ci}
	if ci.recvExpr != nil {
		v := fx.eval(st, ci.recvExpr)
		d.recv = &v
	}
	for _, a := range x.Call.Args {
		d.args = append(d.args, fx.eval(st, a))
	}
	st.defers = append(st.defers, d)
}

// runDefers executes deferred calls (LIFO); returns the resulting states.
func (fx *FnCtx) runDefers(st *State) []*State {
	if len(st.defers) == 0 {
		return []*State{st}
	}
	d := st.defers[len(st.defers)-1]
	st.defers = st.defers[:len(st.defers)-1]
	var next []*State
	if d.lit != nil {
		outs := fx.execBlock(st, d.lit.Body.List)
		for _, o := range outs {
			switch o.fl {
			case flNormal, flReturn, flPanic:
				next = append(next, o.st)
			case flExit:
				// the process exits inside the deferred closure: the path ends here
			default:
				fx.fail("break/continue out of deferred closure")
			}
		}
	} else {
		was := st.panicking
		pv := st.panicVal
		st.panicking = false
		outs := fx.applyCall(st, d.callee, d.recv, d.args, d.call)
		for _, o := range outs {
			if o.fl == flExit {
				continue
			}
			if !o.st.panicking && was {
				o.st.panicking, o.st.panicVal = was, pv
			}
			next = append(next, o.st)
		}
	}
	next = append(next, func() []*State {
		var ps []*State
		for _, p := range fx.pendingPanics {
			ps = append(ps, p)
		}
		fx.pendingPanics = nil
		return ps
	}()...)
	var res []*State
	for _, s2 := range next {
		res = append(res, fx.runDefers(s2)...)
	}
	return res
}

func (fx *FnCtx) stmtText(s ast.Stmt) string {
	var buf bytes.Buffer
	printer.Fprint(&buf, fx.pkg.Fset, s)
	t := buf.String()
	if i := strings.Index(t, "\n"); i >= 0 {
		t = t[:i]
	}
	return strings.Join(strings.Fields(t), " ")
}

// ghostWrites: names of the ghost bindings (at "<stmt>" ghost n = e) attached to statements inside n.
func (fx *FnCtx) ghostWrites(n ast.Node) []string {
	if n == nil || fx.fc == nil || len(fx.fc.StmtAsserts) == 0 {
		return nil
	}
	has := false
	for _, cs := range fx.fc.StmtAsserts {
		for _, c := range cs {
			if c.Kind == "ghost" {
				has = true
			}
		}
	}
	if !has {
		return nil
	}
	var out []string
	ast.Inspect(n, func(x ast.Node) bool {
		s, ok := x.(ast.Stmt)
		if !ok {
			return true
		}
		if _, isBlock := s.(*ast.BlockStmt); isBlock {
			return true
		}
		key := fx.stmtText(s)
		cls := fx.fc.StmtAsserts[key]
		if n := fx.stmtOrdinal(s, key); n > 0 {
			cls = append(append([]*Clause{}, cls...), fx.fc.StmtAsserts[fmt.Sprintf("%s#%d", key, n)]...)
		}
		for _, c := range cls {
			if c.Kind == "ghost" {
				out = append(out, c.Label)
			}
		}
		return true
	})
	return out
}

// stmtOrdinal: s is the N-th statement (source order, whole body) whose printed first line is key.
func (fx *FnCtx) stmtOrdinal(s ast.Stmt, key string) int {
	if fx.stmtOrd == nil {
		fx.stmtOrd = map[ast.Stmt]int{}
		cnt := map[string]int{}
		ast.Inspect(fx.decl.Body, func(n ast.Node) bool {
			st, ok := n.(ast.Stmt)
			if !ok {
				return true
			}
			if _, isBlock := st.(*ast.BlockStmt); isBlock {
				return true
			}
			k := fx.stmtText(st)
			cnt[k]++
			fx.stmtOrd[st] = cnt[k]
			return true
		})
	}
	return fx.stmtOrd[s]
}
