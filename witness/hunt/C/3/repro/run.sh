#!/bin/sh
# usage: run.sh <pigeon source tree>
# exit 0: violation observed, exit 1: not observed (or the tooling failed)
set -u
SRC=${1:?usage: run.sh <pigeon source tree>}
export GOFLAGS=-mod=mod GOPROXY=off GOSUMDB=off GOTOOLCHAIN=local
GO=${GO:-go1.26}
HERE=$(cd "$(dirname "$0")" && pwd)
W=$(mktemp -d)
trap 'rm -rf "$W"' EXIT
(cd "$SRC" && $GO build -o "$W/pigeon" .) || { echo "cannot build pigeon"; exit 1; }
P="$W/pigeon"

# gen_build <dir> <grammar> <flags...>: generate a parser and build $W/<dir>/demo.
# memoOpts() yields Memoize(true) unless the parser is built with -optimize-parser
# (which removes the option).
gen_build() {
	d="$W/$1"; g="$2"; shift 2
	mkdir -p "$d"
	printf 'module demo\n\ngo 1.25\n' > "$d/go.mod"
	cp "$HERE/main.go" "$d/main.go"
	case " $* " in
	*" -optimize-parser "*) printf 'package main\n\nfunc memoOpts() []Option { return nil }\n' > "$d/memo.go" ;;
	*) printf 'package main\n\nfunc memoOpts() []Option { return []Option{Memoize(true)} }\n' > "$d/memo.go" ;;
	esac
	"$P" "$@" -o "$d/parser.go" "$g" || return 1
	(cd "$d" && $GO build -o demo .) || return 1
}

# finding 3: an error returned by an action is silently lost: the growth attempt in which it was
# raised is rolled back (errors dropped) but the memo entries created during that attempt stay,
# and the later, successful use of the same sub-parse is a memo hit that does not report it again.
gen_build lr  "$HERE/errs.peg"      -support-left-recursion || exit 1
gen_build lro "$HERE/errs.peg"      -support-left-recursion -optimize-parser || exit 1
gen_build it  "$HERE/errs_iter.peg"                          || exit 1
echo "-- left-recursive, Memoize off:";           L=$("$W/lr/demo" plain '1+99' '99+1'); echo "$L"
echo "-- left-recursive, -optimize-parser:";      O=$("$W/lro/demo" plain '1+99' '99+1'); echo "$O"
echo "-- iterative equivalent, Memoize off:";     I=$("$W/it/demo" plain '1+99' '99+1'); echo "$I"
if echo "$L" | grep -q '"1+99" => val=ok err=<nil>' && echo "$I" | grep -q '"1+99" => val=ok err=.*number too big'; then
	echo "VIOLATION: the 'number too big' error for 99 in '1+99' is swallowed by the left-recursive parser"
	exit 0
fi
echo "not observed"
exit 1
