#!/bin/sh
# developer helper: rebuild govc, clear replays, run govc with the given arguments from /verif
/verif/build.sh || exit 3
cd /verif
rm -f replays/*
exec bin/govc "$@"
