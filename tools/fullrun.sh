#!/bin/sh
# usage: fullrun.sh [quick|thorough] [-write-inventory]   runs every claimed check in turn against /repo (evidence/ is rewritten),
# prints one summary line per property; with -write-inventory the obligations that discharged are recorded in obligations.json.
cd /verif || exit 2
tier="${1:-quick}"; shift
for p in C01 C02 C04 C05 C06 C07 C08 C09 C10 C11 C12 C13 C14 C15 C16 C17 C18 C19; do
  targets="rt"
  case "$p" in C04|C07|C09|C13|C15|C19) targets="rt,ast,builder,main" ;; esac
  [ -f "targets/$p" ] && targets=$(cat "targets/$p")
  s=$(date +%s)
  bin/govc -prop "$p" -tier "$tier" -targets "$targets" -evidence "evidence/$p.json" "$@" > ".work/full_$p.log" 2>&1
  rc=$?
  e=$(date +%s)
  echo "$p exit=$rc secs=$((e-s)) violations=$(grep -c '^VIOLATION' .work/full_$p.log) :: $(tail -1 .work/full_$p.log)"
done
