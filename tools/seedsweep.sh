#!/bin/sh
# usage: seedsweep.sh <out-file> <seed-id> [...]   seed-id = Cxx-N (directory under /verif/seeded)
# Self-test of the checks against the seeded changes. For each seed: apply patch.diff to a SCRATCH git worktree
# of /repo's HEAD (under /tmp, removed at the end), run the property's quick check against that worktree
# (govc -repo), reset the worktree. /repo itself is never touched, so normal work can go on meanwhile.
# Evidence of these runs on MODIFIED trees goes to .work/sweep-evidence, never to evidence/.
out="$1"; shift
: > "$out"
wt=/tmp/sweepwt_$$
git -C /repo worktree prune
git -C /repo worktree add -q --detach "$wt" HEAD || { echo "worktree-failed" >> "$out"; exit 3; }
trap 'git -C /repo worktree remove --force "$wt" >/dev/null 2>&1' EXIT
cd /verif || exit 3
mkdir -p .work/sweep-evidence
for s in "$@"; do
  prop=${s%%-*}
  dir=/verif/seeded/$s
  if ! git -C "$wt" apply "$dir/patch.diff" 2>/dev/null; then echo "$s PATCH-DOES-NOT-APPLY" >> "$out"; continue; fi
  targets="rt"
  [ -f "targets/$prop" ] && targets=$(cat "targets/$prop")
  start=$(date +%s)
  bin/govc -repo "$wt" -prop "$prop" -tier quick -targets "$targets" -evidence ".work/sweep-evidence/$prop.json" > ".work/sweep_$$.log" 2>&1
  rc=$?
  end=$(date +%s)
  v=$(grep -c "^VIOLATION" ".work/sweep_$$.log")
  first=$(grep "^VIOLATION" ".work/sweep_$$.log" | sed 's/.*obligation=\([^ ]*\).*/\1/' | sed 's/^rt\[[^]]*\]/rt/' | sort -u | head -4 | tr '\n' ' ')
  echo "$s exit=$rc violations=$v secs=$((end-start)) :: $first" >> "$out"
  git -C "$wt" checkout -q -- . ; git -C "$wt" clean -fdq
done
rm -f ".work/sweep_$$.log"
echo done >> "$out"
