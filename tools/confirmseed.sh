#!/bin/sh
# usage: confirmseed.sh <Cxx/N> ...   Confirms seeded changes in a scratch worktree of /repo (HEAD):
# patch applies, tree builds, the existing test suite passes, demo/run.sh exits 0 on the clean tree and
# non-zero on the patched tree. Appends one line per seed to /verif/.work/confirm.txt.
export GOFLAGS=-mod=mod GOPROXY=off GOSUMDB=off GOTOOLCHAIN=local
out=/verif/.work/confirm.txt
for s in "$@"; do
  dir=/verif/seeded/_incoming/$s
  wt=/tmp/seedconfirm_$$
  rm -rf "$wt"; git -C /repo worktree prune
  git -C /repo worktree add -q --detach "$wt" HEAD || { echo "$s worktree-failed" >> $out; continue; }
  res="$s"
  # 1. demo on the clean tree
  if bash "$dir/demo/run.sh" "$wt" >/tmp/seed_clean_$$.log 2>&1; then res="$res clean=pass"; else res="$res clean=FAIL($?)"; fi
  # 2. patch
  if (cd "$wt" && git apply "$dir/patch.diff" 2>/dev/null) ; then res="$res apply=ok";
  elif (cd "$wt" && git apply -3 "$dir/patch.diff" >/dev/null 2>&1 && ! git diff --name-only --diff-filter=U | grep -q .); then res="$res apply=3way";
  elif (cd "$wt" && git checkout -q -- . && patch -p1 --fuzz=3 -s < "$dir/patch.diff" >/dev/null 2>&1); then res="$res apply=fuzz";
  else res="$res apply=FAILED"; echo "$res" >> $out; git -C /repo worktree remove --force "$wt"; continue; fi
  (cd "$wt" && git diff HEAD > /tmp/seed_rebased_$$.diff)
  # 3. build + tests
  if (cd "$wt" && go1.26 build ./... >/dev/null 2>&1); then res="$res build=ok"; else res="$res build=FAIL"; fi
  if (cd "$wt" && go1.26 test -vet=off -count=1 ./... 2>&1 | grep -q "^FAIL\|^---"); then res="$res tests=FAIL"; else res="$res tests=pass"; fi
  # 4. demo on the patched tree
  if bash "$dir/demo/run.sh" "$wt" >/tmp/seed_patched_$$.log 2>&1; then res="$res patched=PASS(not-demonstrated)"; else res="$res patched=fails($?)"; fi
  cp /tmp/seed_rebased_$$.diff "$dir/patch.rebased.diff"
  echo "$res" >> $out
  git -C /repo worktree remove --force "$wt"
  rm -f /tmp/seed_clean_$$.log /tmp/seed_patched_$$.log /tmp/seed_rebased_$$.diff
done
echo done >> $out
