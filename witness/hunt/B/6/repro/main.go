package main

import (
	"fmt"
	"os"
)

func main() {
	in := []byte("a+a")
	v1, err1 := Parse("", in)
	v2, err2 := Parse("", in, Memoize(true))
	fmt.Printf("default options: matched=%v err=%v\n", v1 != nil, err1)
	fmt.Printf("Memoize(true):   matched=%v err=%v\n", v2 != nil, err2)
	if err1 != nil && err2 == nil {
		fmt.Println("VIOLATION: the code-block error reported by the default parse is missing with Memoize(true)")
		os.Exit(0)
	}
	fmt.Println("no violation observed")
	os.Exit(1)
}
