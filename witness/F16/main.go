package main

import (
	"fmt"
	"os"
)

// F16 (C06, C02): with Memoize(true) a memo hit on a labeled expression returns the recorded value without
// binding the label in the current scope. R <- 'x'* a:'y' {uses a} is evaluated at two different offsets
// (so the rule itself is not a memo hit) but its labeled expression a:'y' is evaluated twice at offset 3; the
// second time the action sees a == nil and the value of the parse differs from the default parse.
// Defect present iff the memoized parse's actions saw a different label value than the default parse's.
func main() {
	seen = nil
	_, e1 := Parse("", []byte("qxxy"))
	s1 := fmt.Sprint(seen)
	seen = nil
	_, e2 := Parse("", []byte("qxxy"), Memoize(true))
	s2 := fmt.Sprint(seen)
	if e1 != nil || e2 != nil {
		fmt.Println("unexpected errors:", e1, e2)
		os.Exit(3)
	}
	if s1 != s2 {
		fmt.Printf("defect present: actions saw a = %s by default and %s with Memoize(true)\n", s1, s2)
		os.Exit(0)
	}
	fmt.Println("defect gone: both parses saw", s1)
	os.Exit(1)
}
