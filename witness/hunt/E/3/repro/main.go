package main

import (
	"fmt"
	"os"
)

func main() {
	// sanity: the first alternative's handler works
	v0, err0 := Parse("", []byte("x+1"))
	fmt.Printf("Parse(\"x+1\"): v=%s err=%v\n", v0, err0)
	// the second alternative must re-evaluate E under the handler "y"
	v, err := Parse("", []byte("y+1"))
	fmt.Printf("Parse(\"y+1\"): v=%s err=%v\n", v, err)
	if err0 == nil && err != nil {
		fmt.Println("-> VIOLATION (no Memoize option used): the failure of left-recursive rule E at offset 0, computed while handler \"x\" was in force, is replayed from the leader memo while handler \"y\" is in force; expected value [y + 1]")
		os.Exit(0)
	}
	os.Exit(1)
}
