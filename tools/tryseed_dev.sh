#!/bin/sh
# usage: tryseed_dev.sh <patch.diff> <govc args...>   applies a seed to the scratch clone /tmp/devrepo (which may
# carry uncommitted contract edits), runs bin/govc -repo /tmp/devrepo <args>, restores the files the patch touched.
patch="$1"; shift
cd /tmp/devrepo || exit 3
files=$(grep '^+++ b/' "$patch" | sed 's|^+++ b/||')
git apply "$patch" || { echo "PATCH-DOES-NOT-APPLY"; exit 3; }
(cd /verif && ${GOVC:-bin/govc} -repo /tmp/devrepo "$@" 2>&1 | grep "VIOLATION\|^ALL\|^C[0-9][0-9]:\|NOT-PROVED" | sed 's/.*obligation=\([^ ]*\).*/\1/' | cut -c1-180 | sort -u | head -8)
git checkout -q -- $files
