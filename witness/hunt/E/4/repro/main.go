package main

import (
	"fmt"
	"os"
)

func main() {
	observed := false

	v, err := Parse("f", []byte("1+b"))
	fmt.Printf("variant 1: Parse(\"1+b\")                      v=%s err=%v\n", v, err)
	if err == nil && fmt.Sprintf("%s", v) == "[1 B]" {
		fmt.Println("  -> VIOLATION: the action of X returned errors.New(\"bad b\") for the match at 1:3 (2) and its value \"B\" is part of the result, yet err == nil")
		observed = true
	}

	v2, err2 := Parse("f", []byte("1+b"), Entrypoint("Start2"))
	v3, err3 := Parse("f", []byte("1+b"), Entrypoint("Start3"))
	fmt.Printf("variant 2: left-recursive   Entrypoint(Start2) v=%s err=%v\n", v2, err2)
	fmt.Printf("           iterative        Entrypoint(Start3) v=%s err=%v\n", v3, err3)
	if err2 == nil && err3 != nil {
		fmt.Println("  -> VIOLATION: the error returned by B's code block is reported by the iterative grammar but erased by the left-recursion growth loop")
		observed = true
	}
	if observed {
		os.Exit(0)
	}
	os.Exit(1)
}
