#!/bin/bash
# usage: run.sh <pigeon source tree>
# exit 0: violation observed, exit 1: not observed (or the repro could not be built)
export GOFLAGS=-mod=mod GOPROXY=off GOSUMDB=off GOTOOLCHAIN=local
GO=go1.26; command -v "$GO" >/dev/null 2>&1 || GO=go
[ -n "$1" ] || { echo "usage: $0 <pigeon source tree>"; exit 1; }
SRC=$(cd "$1" && pwd) || exit 1
HERE=$(cd "$(dirname "$0")" && pwd)
TMP=$(mktemp -d)
trap 'rm -rf "$TMP"' EXIT
(cd "$SRC" && $GO build -o "$TMP/pigeon" .) || { echo "cannot build pigeon"; exit 1; }
# gen <name> <grammar> <main.go> [pigeon flags...]: generate + build $TMP/<name>/demo
gen() {
	local name=$1 grammar=$2 main=$3; shift 3
	mkdir -p "$TMP/$name"
	printf 'module demo\n\ngo 1.25\n' > "$TMP/$name/go.mod"
	cp "$main" "$TMP/$name/main.go"
	"$TMP/pigeon" "$@" -o "$TMP/$name/parser.go" "$grammar" || { echo "pigeon failed"; exit 1; }
	(cd "$TMP/$name" && $GO build -o demo .) || { echo "go build failed"; exit 1; }
}
gen demo "$HERE/g.peg" "$HERE/main.go"
out=$(cd "$TMP/demo" && timeout 60 ./demo)
echo "$out"
echo "$out" | grep -q '^VIOLATION' && exit 0
exit 1
