package main

// Symbolic evaluation of Go expressions.

import (
	"fmt"
	"go/ast"
	"go/constant"
	"go/token"
	"go/types"
	"strings"
)

func (fx *FnCtx) typeOf(e ast.Expr) types.Type {
	tv, ok := fx.pkg.Info.Types[e]
	if !ok {
		if id, ok := e.(*ast.Ident); ok {
			if o := fx.pkg.Info.Uses[id]; o != nil {
				return o.Type()
			}
			if o := fx.pkg.Info.Defs[id]; o != nil {
				return o.Type()
			}
		}
		fx.fail("no type for expression at %s", fx.pos(e))
	}
	return tv.Type
}

// safety emits an implicit safety obligation.
func (fx *FnCtx) safety(st *State, kind, goal string, n ast.Node) {
	if fx.fc != nil && fx.fc.NoSafety {
		return
	}
	fx.emit(st, "safety["+kind+"]", "safety", fx.safetyTags(), goal, kind+" at "+fx.pos(n), fx.pos(n))
}

func (fx *FnCtx) safetyTags() []string {
	if fx.fc != nil {
		return fx.fc.SafetyTag
	}
	return nil
}

func (fx *FnCtx) evalBool(st *State, e ast.Expr) string {
	v := fx.eval(st, e)
	if v.S != "Bool" {
		fx.fail("expected boolean at %s", fx.pos(e))
	}
	return v.T
}

// eval evaluates e; it may mutate st (calls).
func (fx *FnCtx) eval(st *State, e ast.Expr) Val {
	if tv, ok := fx.pkg.Info.Types[e]; ok && tv.Value != nil {
		t := tv.Type
		if b, ok := t.(*types.Basic); ok && b.Info()&types.IsUntyped != 0 {
			t = types.Default(t)
		}
		if tv.Value.Kind() == constant.Int || tv.Value.Kind() == constant.Bool || tv.Value.Kind() == constant.String {
			return fx.constVal(tv.Value, t)
		}
	}
	switch x := e.(type) {
	case *ast.ParenExpr:
		return fx.eval(st, x.X)
	case *ast.BasicLit:
		fx.fail("unsupported literal %s", x.Value)
	case *ast.Ident:
		return fx.evalIdent(st, x)
	case *ast.SelectorExpr:
		return fx.evalSelector(st, x)
	case *ast.StarExpr:
		p := fx.eval(st, x.X)
		fx.safety(st, "nil", "(not (= "+p.T+" 0))", x)
		el, _ := derefType(p.Ty)
		return fx.loadDeref(st.heap, p, el)
	case *ast.UnaryExpr:
		return fx.evalUnary(st, x)
	case *ast.BinaryExpr:
		return fx.evalBinary(st, x)
	case *ast.IndexExpr:
		return fx.evalIndex(st, x, false).v
	case *ast.SliceExpr:
		v := fx.eval(st, x.X)
		if x.Slice3 {
			fx.fail("3-index slice")
		}
		var lo, hi *Val
		if x.Low != nil {
			l := fx.eval(st, x.Low)
			lo = &l
		}
		if x.High != nil {
			h := fx.eval(st, x.High)
			hi = &h
		}
		if a, ok := v.Ty.Underlying().(*types.Array); ok {
			// array -> slice over a copy of the array value (value semantics)
			ss := fx.sc.sliceSort(fx.sc.SortOf(a.Elem()))
			v = Val{fmt.Sprintf("(mk_%s %s 0 %d %d %s)", ss, v.T, a.Len(), a.Len(), fx.allocRef(st, "backing")), ss, types.NewSlice(a.Elem())}
		}
		l, h := "0", fx.sliceLen(v)
		if lo != nil {
			l = lo.T
		}
		if hi != nil {
			h = hi.T
		}
		bound := fx.sliceLen(v)
		if strings.HasPrefix(v.S, "Slice_") {
			bound = "(cap_" + v.S + " " + v.T + ")"
		}
		fx.safety(st, "slice-bounds", "(and (<= 0 "+l+") (<= "+l+" "+h+") (<= "+h+" "+bound+"))", x)
		r := fx.sliceVal(v, lo, hi)
		r.Ty = fx.typeOf(e)
		if strings.HasPrefix(r.S, "Slice_") {
			// name the result and relate its elements to the source at the elem level
			c := fx.sc.Fresh("sliced", r.S)
			st.facts = append(st.facts, "(= "+c+" "+r.T+")")
			el := fx.sc.elemFn(r.S)
			st.facts = append(st.facts, fmt.Sprintf("(forall ((i Int)) (! (= (%s %s i) (%s %s (+ %s i))) :pattern ((%s %s i))))", el, c, el, v.T, l, el, c))
			r.T = c
		}
		return r
	case *ast.CallExpr:
		vs := fx.evalCall(st, x)
		if len(vs) != 1 {
			fx.fail("call used as single value returns %d values at %s", len(vs), fx.pos(x))
		}
		return vs[0]
	case *ast.CompositeLit:
		return fx.evalCompositeLit(st, x)
	case *ast.TypeAssertExpr:
		v := fx.eval(st, x.X)
		t := fx.typeOf(x.Type)
		ok, r := fx.typeAssert(st, v, t)
		fx.safety(st, "type-assert", ok, x)
		st.assume(ok)
		return r
	case *ast.FuncLit:
		// function literal as a value: opaque reference; its body is verified separately
		// when it carries a contract (closure contracts are keyed "<func>$lit<N>").
		r := fx.sc.Fresh("closure", "Int")
		st.assume("(not (= " + r + " 0))")
		return Val{r, "Int", fx.typeOf(e)}
	}
	fx.fail("unsupported expression %T at %s", e, fx.pos(e))
	return Val{}
}

// typeAssert returns the condition under which v has dynamic type t and the converted value.
func (fx *FnCtx) typeAssert(st *State, v Val, t types.Type) (string, Val) {
	if isInterface(t) {
		// interface-to-interface: implemented-ness is decided per contract:
		// uninterpreted predicate implements_<iface>(typeOf v)
		name := "implements_" + sanitize(types.TypeString(t, func(p *types.Package) string { return p.Name() }))
		fx.sc.declFun(name, "(declare-fun "+name+" (Int) Bool)")
		fx.sc.axiom(name+"-nil", "(assert (not ("+name+" 0)))")
		return "(" + name + " (typeOf " + v.T + "))", Val{v.T, "Any", t}
	}
	s := fx.sc.SortOf(t)
	mk, un := fx.sc.boxFn(s)
	tag := fx.sc.TypeTag(t)
	r := Val{"(" + un + " " + v.T + ")", s, t}
	cond := fmt.Sprintf("(= (typeOf %s) %d)", v.T, tag)
	// surjectivity instance for this value (ground)
	st.assume(fmt.Sprintf("(=> %s (= %s (%s %d %s)))", cond, v.T, mk, tag, r.T))
	return cond, r
}

func (fx *FnCtx) evalIdent(st *State, id *ast.Ident) Val {
	if id.Name == "nil" {
		if _, ok := fx.pkg.Info.Uses[id].(*types.Nil); ok {
			t := fx.typeOf(id)
			return Val{"nil", "nil", t}
		}
	}
	if id.Name == "_" {
		fx.fail("blank identifier read")
	}
	obj := fx.pkg.Info.Uses[id]
	if obj == nil {
		obj = fx.pkg.Info.Defs[id]
	}
	switch o := obj.(type) {
	case *types.Var:
		if v, ok := fx.cellRead(st.heap, o); ok {
			if r := fx.rangeFact(v); r != "" {
				st.assume(r)
			}
			return v
		}
		if v, ok := st.vars[o]; ok {
			return v
		}
		if o.Parent() == fx.pkg.Types.Scope() || o.Pkg() != fx.pkg.Types {
			s := fx.sc.SortOf(o.Type())
			return Val{fx.heapArr(st.heap, globalHeap(o.Name()), s), s, o.Type()}
		}
		fx.fail("variable %s has no value at %s", id.Name, fx.pos(id))
	case *types.Const:
		return fx.constVal(o.Val(), o.Type())
	case *types.Func:
		// function value
		fx.sc.declFun("fn_"+o.Name(), "(declare-const fn_"+o.Name()+" Int)")
		return Val{"fn_" + o.Name(), "Int", o.Type()}
	}
	fx.fail("unsupported identifier %s at %s", id.Name, fx.pos(id))
	return Val{}
}

func (fx *FnCtx) evalSelector(st *State, x *ast.SelectorExpr) Val {
	if sel, ok := fx.pkg.Info.Selections[x]; ok {
		switch sel.Kind() {
		case types.FieldVal:
			base := fx.eval(st, x.X)
			cur := base
			for _, ix := range sel.Index() {
				if _, isPtr := derefType(cur.Ty); isPtr {
					fx.safety(st, "nil", "(not (= "+cur.T+" 0))", x)
				}
				cur = fx.fieldByIndex(st.heap, cur, ix)
			}
			if strings.HasPrefix(cur.S, "Slice_") {
				st.assume(fx.sliceWF(cur))
			}
			if r := fx.rangeFact(cur); r != "" {
				st.assume(r)
			}
			return cur
		case types.MethodVal, types.MethodExpr:
			// method value: opaque
			r := fx.sc.Fresh("methodval", "Int")
			return Val{r, "Int", fx.typeOf(x)}
		}
	}
	// qualified identifier pkg.Name
	if obj := fx.pkg.Info.Uses[x.Sel]; obj != nil {
		switch o := obj.(type) {
		case *types.Const:
			return fx.constVal(o.Val(), o.Type())
		case *types.Var:
			s := fx.sc.SortOf(o.Type())
			name := o.Pkg().Name() + "." + o.Name()
			return Val{fx.heapArr(st.heap, globalHeap(name), s), s, o.Type()}
		case *types.Func:
			n := "fn_" + o.Pkg().Name() + "_" + o.Name()
			fx.sc.declFun(n, "(declare-const "+n+" Int)")
			return Val{n, "Int", o.Type()}
		}
	}
	fx.fail("unsupported selector at %s", fx.pos(x))
	return Val{}
}

func (fx *FnCtx) evalUnary(st *State, x *ast.UnaryExpr) Val {
	switch x.Op {
	case token.NOT:
		return Val{"(not " + fx.evalBool(st, x.X) + ")", "Bool", tBool}
	case token.SUB:
		v := fx.eval(st, x.X)
		return Val{"(- " + v.T + ")", "Int", v.Ty}
	case token.ADD:
		return fx.eval(st, x.X)
	case token.AND:
		// &CompositeLit{} : allocate
		if cl, ok := x.X.(*ast.CompositeLit); ok {
			t := fx.typeOf(cl)
			sname, stt := namedStruct(t)
			if stt == nil {
				fx.fail("&composite of non-struct at %s", fx.pos(x))
			}
			v := fx.evalCompositeLit(st, cl)
			r := fx.allocRef(st, "new_"+sname)
			for i := 0; i < stt.NumFields(); i++ {
				f := stt.Field(i)
				fs := fx.sc.SortOf(f.Type())
				hn := fieldHeap(sname, f.Name())
				hs := "(Array Int " + fs + ")"
				fv := fx.fieldByIndex(st.heap, v, i)
				fx.setHeap(st, hn, hs, "(store "+fx.heapArr(st.heap, hn, hs)+" "+r+" "+fv.T+")")
			}
			return Val{r, "Int", fx.typeOf(x)}
		}
		// &local / &x.f : address-of is only supported for locals that are then used as
		// opaque references (e.g. &stats): allocate a cell holding the current value.
		if id, ok := x.X.(*ast.Ident); ok {
			if o, ok := fx.pkg.Info.Uses[id].(*types.Var); ok {
				if sname, stt := namedStruct(o.Type()); stt != nil {
					v := fx.eval(st, id)
					r := fx.allocRef(st, "addr_"+id.Name)
					for i := 0; i < stt.NumFields(); i++ {
						f := stt.Field(i)
						fs := fx.sc.SortOf(f.Type())
						hn := fieldHeap(sname, f.Name())
						hs := "(Array Int " + fs + ")"
						fv := fx.fieldByIndex(st.heap, v, i)
						fx.setHeap(st, hn, hs, "(store "+fx.heapArr(st.heap, hn, hs)+" "+r+" "+fv.T+")")
					}
					return Val{r, "Int", fx.typeOf(x)}
				}
			}
		}
		// &local of non-struct type: a cell holding the current value (writes through the pointer
		// are not reflected back into the local: the local is havocked instead, which is sound)
		if id, ok := x.X.(*ast.Ident); ok {
			if o, ok := fx.pkg.Info.Uses[id].(*types.Var); ok {
				if _, isLocal := st.vars[o]; isLocal {
					v := fx.eval(st, id)
					r := fx.allocRef(st, "addr_"+id.Name)
					hn, hs := derefHeap(v.S), "(Array Int "+v.S+")"
					fx.setHeap(st, hn, hs, "(store "+fx.heapArr(st.heap, hn, hs)+" "+r+" "+v.T+")")
					nv := Val{fx.sc.Fresh(id.Name, v.S), v.S, v.Ty}
					if strings.HasPrefix(v.S, "Slice_") {
						st.assume(fx.sliceWF(nv))
					}
					fx.setVar(st, o, nv)
					return Val{r, "Int", fx.typeOf(x)}
				}
			}
		}
		fx.fail("unsupported address-of at %s", fx.pos(x))
	}
	fx.fail("unsupported unary op %s at %s", x.Op, fx.pos(x))
	return Val{}
}

func (fx *FnCtx) allocRef(st *State, hint string) string {
	r := fx.sc.Fresh(hint, "Int")
	a := fx.heapArr(st.heap, allocHeap, allocSort)
	st.assume("(not (= " + r + " 0))")
	st.assume("(not (select " + a + " " + r + "))")
	// also fresh w.r.t. the entry state
	if pre := fx.heapInitConst(allocHeap, allocSort); pre != a {
		st.assume("(not (select " + pre + " " + r + "))")
	}
	fx.setHeap(st, allocHeap, allocSort, "(store "+a+" "+r+" true)")
	return r
}

func (fx *FnCtx) evalBinary(st *State, x *ast.BinaryExpr) Val {
	switch x.Op {
	case token.LAND, token.LOR:
		a := fx.evalBool(st, x.X)
		g := a
		if x.Op == token.LOR {
			g = "(not " + a + ")"
		}
		st.guards = append(st.guards, g)
		b := fx.evalBool(st, x.Y)
		st.guards = st.guards[:len(st.guards)-1]
		op := "and"
		if x.Op == token.LOR {
			op = "or"
		}
		return Val{"(" + op + " " + a + " " + b + ")", "Bool", tBool}
	}
	a := fx.eval(st, x.X)
	b := fx.eval(st, x.Y)
	rt := fx.typeOf(x)
	switch x.Op {
	case token.EQL, token.NEQ:
		var t string
		if b.S == "nil" && strings.HasPrefix(a.S, "Slice_") {
			t = "(= (len_" + a.S + " " + a.T + ") 0)"
		} else if a.S == "nil" && strings.HasPrefix(b.S, "Slice_") {
			t = "(= (len_" + b.S + " " + b.T + ") 0)"
		} else {
			a, b = fx.unify(a, b)
			t = "(= " + a.T + " " + b.T + ")"
		}
		if x.Op == token.NEQ {
			t = "(not " + t + ")"
		}
		return Val{t, "Bool", tBool}
	case token.LSS, token.LEQ, token.GTR, token.GEQ:
		op := x.Op.String()
		if a.S == "Str" {
			sb := &SBinary{Op: op}
			_ = sb
			switch op {
			case "<=":
				return Val{"(sle " + a.T + " " + b.T + ")", "Bool", tBool}
			case "<":
				return Val{"(and (sle " + a.T + " " + b.T + ") (not (= " + a.T + " " + b.T + ")))", "Bool", tBool}
			case ">=":
				return Val{"(sle " + b.T + " " + a.T + ")", "Bool", tBool}
			default:
				return Val{"(and (sle " + b.T + " " + a.T + ") (not (= " + a.T + " " + b.T + ")))", "Bool", tBool}
			}
		}
		return Val{"(" + op + " " + a.T + " " + b.T + ")", "Bool", tBool}
	case token.ADD:
		if a.S == "Str" {
			return Val{fx.scat(a.T, b.T), "Str", rt}
		}
		return Val{"(+ " + a.T + " " + b.T + ")", "Int", rt}
	case token.SUB:
		return Val{"(- " + a.T + " " + b.T + ")", "Int", rt}
	case token.MUL:
		return Val{"(* " + a.T + " " + b.T + ")", "Int", rt}
	case token.QUO:
		fx.safety(st, "div-zero", "(not (= "+b.T+" 0))", x)
		// Go truncates toward zero; for non-negative operands div is the same
		return Val{fx.truncDiv(a.T, b.T), "Int", rt}
	case token.REM:
		fx.safety(st, "div-zero", "(not (= "+b.T+" 0))", x)
		return Val{"(- " + a.T + " (* " + b.T + " " + fx.truncDiv(a.T, b.T) + "))", "Int", rt}
	}
	fx.fail("unsupported binary op %s at %s", x.Op, fx.pos(x))
	return Val{}
}

func (fx *FnCtx) truncDiv(a, b string) string {
	return "(ite (>= " + a + " 0) (div " + a + " " + b + ") (- (div (- " + a + ") " + b + ")))"
}

type idxResult struct {
	v  Val
	ok string // for map comma-ok
}

// evalIndex handles x[i] for slices, arrays, maps, strings.
func (fx *FnCtx) evalIndex(st *State, x *ast.IndexExpr, commaOk bool) idxResult {
	base := fx.eval(st, x.X)
	bt := base.Ty
	if p, ok := derefType(bt); ok {
		if _, isArr := p.Underlying().(*types.Array); isArr {
			fx.fail("pointer-to-array index at %s", fx.pos(x))
		}
	}
	idx := fx.eval(st, x.Index)
	switch u := bt.Underlying().(type) {
	case *types.Slice:
		fx.safety(st, "index", "(and (<= 0 "+idx.T+") (< "+idx.T+" (len_"+base.S+" "+base.T+")))", x)
		v := fx.indexVal(st.heap, base, idx)
		if r := fx.rangeFact(v); r != "" {
			st.assume(r)
		}
		return idxResult{v: v}
	case *types.Array:
		fx.safety(st, "index", fmt.Sprintf("(and (<= 0 %s) (< %s %d))", idx.T, idx.T, u.Len()), x)
		return idxResult{v: fx.indexVal(st.heap, base, idx)}
	case *types.Map:
		dom, _, ks, _ := fx.sc.mapSorts(u)
		idx = fx.coerce(idx, ks, u.Key())
		hd := fx.heapArr(st.heap, dom, "(Array Int (Array "+ks+" Bool))")
		in := "(and (not (= " + base.T + " 0)) (select (select " + hd + " " + base.T + ") " + idx.T + "))"
		raw := fx.indexVal(st.heap, base, idx)
		// missing key (or nil map) yields the zero value
		z := fx.sc.Zero(u.Elem())
		v := Val{"(ite " + in + " " + raw.T + " " + z + ")", raw.S, u.Elem()}
		return idxResult{v: v, ok: in}
	case *types.Basic:
		if u.Info()&types.IsString != 0 {
			fx.sc.declFun("byteAt", "(declare-fun byteAt (Str Int) Int)")
			fx.safety(st, "index", "(and (<= 0 "+idx.T+") (< "+idx.T+" (slen "+base.T+")))", x)
			v := Val{"(byteAt " + base.T + " " + idx.T + ")", "Int", types.Typ[types.Uint8]}
			st.assume(fx.rangeFact(v))
			return idxResult{v: v}
		}
	}
	fx.fail("unsupported index base %v at %s", bt, fx.pos(x))
	return idxResult{}
}

func (fx *FnCtx) evalCompositeLit(st *State, cl *ast.CompositeLit) Val {
	t := fx.typeOf(cl)
	switch u := t.Underlying().(type) {
	case *types.Struct:
		ss := fx.sc.SortOf(t)
		vals := make([]string, u.NumFields())
		for i := 0; i < u.NumFields(); i++ {
			vals[i] = fx.sc.Zero(u.Field(i).Type())
		}
		for i, el := range cl.Elts {
			if kv, ok := el.(*ast.KeyValueExpr); ok {
				name := kv.Key.(*ast.Ident).Name
				for j := 0; j < u.NumFields(); j++ {
					if u.Field(j).Name() == name {
						v := fx.eval(st, kv.Value)
						vals[j] = fx.coerce(v, fx.sc.SortOf(u.Field(j).Type()), u.Field(j).Type()).T
					}
				}
			} else {
				v := fx.eval(st, el)
				vals[i] = fx.coerce(v, fx.sc.SortOf(u.Field(i).Type()), u.Field(i).Type()).T
			}
		}
		if len(vals) == 0 {
			vals = []string{"0"}
		}
		return Val{"(mk_" + ss + " " + strings.Join(vals, " ") + ")", ss, t}
	case *types.Slice:
		es := fx.sc.SortOf(u.Elem())
		ss := fx.sc.sliceSort(es)
		arr := fx.sc.Fresh("litarr", "(Array Int "+es+")")
		cur := arr
		for i, el := range cl.Elts {
			if _, ok := el.(*ast.KeyValueExpr); ok {
				fx.fail("keyed slice literal at %s", fx.pos(cl))
			}
			v := fx.coerce(fx.eval(st, el), es, u.Elem())
			cur = fmt.Sprintf("(store %s %d %s)", cur, i, v.T)
		}
		n := len(cl.Elts)
		return Val{fmt.Sprintf("(mk_%s %s 0 %d %d %s)", ss, cur, n, n, fx.allocRef(st, "backing")), ss, t}
	case *types.Map:
		m := fx.makeMap(st, u, t)
		dom, val, ks, vs := fx.sc.mapSorts(u)
		hds := "(Array Int (Array " + ks + " Bool))"
		hvs := "(Array Int (Array " + ks + " " + vs + "))"
		for _, el := range cl.Elts {
			kv, ok := el.(*ast.KeyValueExpr)
			if !ok {
				fx.fail("map literal element without key at %s", fx.pos(cl))
			}
			k := fx.coerce(fx.eval(st, kv.Key), ks, u.Key())
			var v Val
			if inner, ok := kv.Value.(*ast.CompositeLit); ok && inner.Type == nil {
				v = Val{fx.sc.Zero(u.Elem()), vs, u.Elem()} // elided type: {} of the element type
				if len(inner.Elts) != 0 {
					fx.fail("nested literal with elided type at %s", fx.pos(cl))
				}
			} else {
				v = fx.coerce(fx.eval(st, kv.Value), vs, u.Elem())
			}
			hd := fx.heapArr(st.heap, dom, hds)
			hv := fx.heapArr(st.heap, val, hvs)
			fx.setHeap(st, dom, hds, "(store "+hd+" "+m.T+" (store (select "+hd+" "+m.T+") "+k.T+" true))")
			fx.setHeap(st, val, hvs, "(store "+hv+" "+m.T+" (store (select "+hv+" "+m.T+") "+k.T+" "+v.T+"))")
		}
		return m
	}
	fx.fail("unsupported composite literal of %v at %s", t, fx.pos(cl))
	return Val{}
}

func (fx *FnCtx) makeMap(st *State, u *types.Map, t types.Type) Val {
	dom, _, ks, _ := fx.sc.mapSorts(u)
	r := fx.allocRef(st, "map")
	hs := "(Array Int (Array " + ks + " Bool))"
	fx.setHeap(st, dom, hs, "(store "+fx.heapArr(st.heap, dom, hs)+" "+r+" ((as const (Array "+ks+" Bool)) false))")
	return Val{r, "Int", t}
}

// ---------- assignment targets ----------

func (fx *FnCtx) assign(st *State, lhs ast.Expr, v Val) {
	switch x := lhs.(type) {
	case *ast.ParenExpr:
		fx.assign(st, x.X, v)
	case *ast.Ident:
		if x.Name == "_" {
			return
		}
		obj := fx.pkg.Info.Defs[x]
		if obj == nil {
			obj = fx.pkg.Info.Uses[x]
		}
		o, ok := obj.(*types.Var)
		if !ok {
			fx.fail("assignment to non-variable %s", x.Name)
		}
		v = fx.coerce(v, fx.sc.SortOf(o.Type()), o.Type())
		v.Ty = o.Type()
		if o.Parent() == fx.pkg.Types.Scope() {
			fx.frameCheck(st, globalHeap(o.Name()), "", lhs)
			fx.setHeap(st, globalHeap(o.Name()), v.S, v.T)
			return
		}
		if h, ok := fx.cells[o]; ok {
			if !fx.ownCells[h] {
				fx.frameCheck(st, h, "", lhs)
			}
			fx.setHeap(st, h, v.S, v.T)
			return
		}
		fx.setVar(st, o, v)
	case *ast.SelectorExpr:
		sel, ok := fx.pkg.Info.Selections[x]
		if !ok || sel.Kind() != types.FieldVal {
			fx.fail("unsupported assignment target at %s", fx.pos(lhs))
		}
		fx.assignField(st, x.X, sel.Index(), v, lhs)
	case *ast.IndexExpr:
		base := fx.eval(st, x.X)
		idx := fx.eval(st, x.Index)
		switch u := base.Ty.Underlying().(type) {
		case *types.Map:
			dom, val, ks, vs := fx.sc.mapSorts(u)
			idx = fx.coerce(idx, ks, u.Key())
			v = fx.coerce(v, vs, u.Elem())
			fx.safety(st, "nil-map-write", "(not (= "+base.T+" 0))", lhs)
			fx.frameCheck(st, val, base.T, lhs)
			hds := "(Array Int (Array " + ks + " Bool))"
			hvs := "(Array Int (Array " + ks + " " + vs + "))"
			hd := fx.heapArr(st.heap, dom, hds)
			hv := fx.heapArr(st.heap, val, hvs)
			fx.setHeap(st, dom, hds, "(store "+hd+" "+base.T+" (store (select "+hd+" "+base.T+") "+idx.T+" true))")
			fx.setHeap(st, val, hvs, "(store "+hv+" "+base.T+" (store (select "+hv+" "+base.T+") "+idx.T+" "+v.T+"))")
		case *types.Slice:
			es := fx.sc.SortOf(u.Elem())
			v = fx.coerce(v, es, u.Elem())
			fx.safety(st, "index", "(and (<= 0 "+idx.T+") (< "+idx.T+" (len_"+base.S+" "+base.T+")))", lhs)
			nv := fmt.Sprintf("(mk_%s (store (arr_%s %s) (+ (off_%s %s) %s) %s) (off_%s %s) (len_%s %s) (cap_%s %s) (bid_%s %s))",
				base.S, base.S, base.T, base.S, base.T, idx.T, v.T, base.S, base.T, base.S, base.T, base.S, base.T, base.S, base.T)
			// name the result and relate its elements to the old value at the elem level
			c := fx.sc.Fresh("updated", base.S)
			st.facts = append(st.facts, "(= "+c+" "+nv+")")
			el := fx.sc.elemFn(base.S)
			st.facts = append(st.facts, fmt.Sprintf("(forall ((i Int)) (! (= (%s %s i) (ite (= i %s) %s (%s %s i))) :pattern ((%s %s i))))", el, c, idx.T, v.T, el, base.T, el, c))
			// write back into the slice variable / field (value semantics)
			fx.assign(st, x.X, Val{c, base.S, base.Ty})
		case *types.Array:
			es := fx.sc.SortOf(u.Elem())
			v = fx.coerce(v, es, u.Elem())
			fx.safety(st, "index", fmt.Sprintf("(and (<= 0 %s) (< %s %d))", idx.T, idx.T, u.Len()), lhs)
			fx.assign(st, x.X, Val{"(store " + base.T + " " + idx.T + " " + v.T + ")", base.S, base.Ty})
		default:
			fx.fail("unsupported index assignment at %s", fx.pos(lhs))
		}
	case *ast.StarExpr:
		p := fx.eval(st, x.X)
		el, _ := derefType(p.Ty)
		fx.safety(st, "nil", "(not (= "+p.T+" 0))", lhs)
		if sname, stt := namedStruct(el); stt != nil {
			for i := 0; i < stt.NumFields(); i++ {
				f := stt.Field(i)
				fs := fx.sc.SortOf(f.Type())
				hn, hs := fieldHeap(sname, f.Name()), "(Array Int "+fs+")"
				fx.frameCheck(st, hn, p.T, lhs)
				fv := fx.fieldByIndex(st.heap, v, i)
				fx.setHeap(st, hn, hs, "(store "+fx.heapArr(st.heap, hn, hs)+" "+p.T+" "+fv.T+")")
			}
			return
		}
		s := fx.sc.SortOf(el)
		v = fx.coerce(v, s, el)
		hn, hs := derefHeap(s), "(Array Int "+s+")"
		fx.frameCheck(st, hn, p.T, lhs)
		fx.setHeap(st, hn, hs, "(store "+fx.heapArr(st.heap, hn, hs)+" "+p.T+" "+v.T+")")
	default:
		fx.fail("unsupported assignment target %T at %s", lhs, fx.pos(lhs))
	}
}

func (fx *FnCtx) setVar(st *State, o *types.Var, v Val) {
	if h, ok := fx.cells[o]; ok {
		// a local that a closure assigns lives in a heap cell (definitions and loop havoc of the enclosing function)
		v = fx.coerce(v, fx.sc.SortOf(o.Type()), o.Type())
		fx.setHeap(st, h, v.S, v.T)
		return
	}
	// name the value to keep terms small
	if len(v.T) > 40 {
		c := fx.sc.Fresh(o.Name(), v.S)
		st.facts = append(st.facts, "(= "+c+" "+v.T+")")
		v.T = c
	}
	st.vars[o] = v
	if fx.hiddenNames[o.Name()] {
		return
	}
	if _, isNamed := st.named[o.Name()]; isNamed || fx.isSpecVisible(o) {
		st.named[o.Name()] = v
	}
}

func (fx *FnCtx) isSpecVisible(o *types.Var) bool {
	// every local of the function body is visible to loop invariants by name
	return true
}

// assignField assigns v to base.<path> where path is a selection index path.
func (fx *FnCtx) assignField(st *State, baseExpr ast.Expr, path []int, v Val, at ast.Node) {
	base := fx.eval(st, baseExpr)
	// walk to the last pointer on the path: everything after it is a value-struct update
	type step struct {
		v  Val
		ix int
	}
	var steps []step
	cur := base
	lastPtr := -1
	for i, ix := range path {
		steps = append(steps, step{cur, ix})
		if _, ok := derefType(cur.Ty); ok {
			lastPtr = i
		}
		cur = fx.fieldByIndex(st.heap, cur, ix)
	}
	ft := cur.Ty
	v = fx.coerce(v, fx.sc.SortOf(ft), ft)
	// rebuild value structs from the innermost outwards
	nv := v
	for i := len(steps) - 1; i > lastPtr; i-- {
		s := steps[i]
		nv = fx.updateStructField(s.v, s.ix, nv)
	}
	if lastPtr < 0 {
		// pure value update of a variable/field chain: assign back to base expression
		fx.assign(st, baseExpr, nv)
		return
	}
	ps := steps[lastPtr]
	el, _ := derefType(ps.v.Ty)
	sname, stt := namedStruct(el)
	f := stt.Field(ps.ix)
	fs := fx.sc.SortOf(f.Type())
	hn, hs := fieldHeap(sname, f.Name()), "(Array Int "+fs+")"
	fx.safety(st, "nil", "(not (= "+ps.v.T+" 0))", at)
	fx.frameCheck(st, hn, ps.v.T, at)
	fx.setHeap(st, hn, hs, "(store "+fx.heapArr(st.heap, hn, hs)+" "+ps.v.T+" "+nv.T+")")
}

func (fx *FnCtx) updateStructField(sv Val, ix int, nv Val) Val {
	st := sv.Ty.Underlying().(*types.Struct)
	ss := fx.sc.SortOf(sv.Ty)
	var parts []string
	for i := 0; i < st.NumFields(); i++ {
		if i == ix {
			parts = append(parts, nv.T)
		} else {
			parts = append(parts, "("+ss+"_"+st.Field(i).Name()+" "+sv.T+")")
		}
	}
	return Val{"(mk_" + ss + " " + strings.Join(parts, " ") + ")", ss, sv.Ty}
}
