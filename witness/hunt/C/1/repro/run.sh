#!/bin/sh
# usage: run.sh <pigeon source tree>
# exit 0: violation observed, exit 1: not observed (or the tooling failed)
set -u
SRC=${1:?usage: run.sh <pigeon source tree>}
export GOFLAGS=-mod=mod GOPROXY=off GOSUMDB=off GOTOOLCHAIN=local
GO=${GO:-go1.26}
HERE=$(cd "$(dirname "$0")" && pwd)
W=$(mktemp -d)
trap 'rm -rf "$W"' EXIT
(cd "$SRC" && $GO build -o "$W/pigeon" .) || { echo "cannot build pigeon"; exit 1; }
P="$W/pigeon"

# gen_build <dir> <grammar> <flags...>: generate a parser and build $W/<dir>/demo.
# memoOpts() yields Memoize(true) unless the parser is built with -optimize-parser
# (which removes the option).
gen_build() {
	d="$W/$1"; g="$2"; shift 2
	mkdir -p "$d"
	printf 'module demo\n\ngo 1.25\n' > "$d/go.mod"
	cp "$HERE/main.go" "$d/main.go"
	case " $* " in
	*" -optimize-parser "*) printf 'package main\n\nfunc memoOpts() []Option { return nil }\n' > "$d/memo.go" ;;
	*) printf 'package main\n\nfunc memoOpts() []Option { return []Option{Memoize(true)} }\n' > "$d/memo.go" ;;
	esac
	"$P" "$@" -o "$d/parser.go" "$g" || return 1
	(cd "$d" && $GO build -o demo .) || return 1
}

# finding 1: what an indirectly left-recursive rule matches depends on rule NAMES
sed 's/Callee/Target/g' "$HERE/invoke.peg" > "$W/invoke_renamed.peg"

seen=0
for variant in "" "-optimize-parser"; do
	gen_build "a$variant" "$HERE/invoke.peg" -support-left-recursion $variant || exit 1
	gen_build "b$variant" "$W/invoke_renamed.peg" -support-left-recursion $variant || exit 1
	for mode in plain memo; do
		echo "== flags: -support-left-recursion $variant, mode=$mode"
		echo "-- original names (Invoke/Callee):"
		A=$("$W/a$variant/demo" $mode 'f();' 'f()();'); echo "$A"
		echo "-- helper rule renamed Callee -> Target:"
		B=$("$W/b$variant/demo" $mode 'f();' 'f()();'); echo "$B"
		# expected (the iteration Ident "()" ("()")* that Invoke denotes): both inputs match
		echo "$A" | grep -q '"f()();" => val=call(call(f)) err=<nil>' || seen=1
	done
done
if [ $seen = 1 ]; then
	echo "VIOLATION: Invoke does not match Ident \"()\" (\"()\")*; renaming the helper rule changes the result"
	exit 0
fi
echo "not observed"
exit 1
