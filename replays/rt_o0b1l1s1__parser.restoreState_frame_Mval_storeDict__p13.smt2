; obligation rt[o0b1l1s1]:parser.restoreState:frame[Mval_storeDict]
; clause: callee may modify mapof(sd); must be inside modifies
; at rt.go:786
; path: then@rt.go:778 / loop#1 exit
(set-option :produce-models true)
(set-logic ALL)
(declare-sort Str 0)
(declare-sort Any 0)
(declare-datatypes ((S_position 0)) (((mk_S_position (S_position_line Int) (S_position_col Int) (S_position_offset Int)))))
(declare-datatypes ((Slice_Int 0)) (((mk_Slice_Int (arr_Slice_Int (Array Int Int)) (off_Slice_Int Int) (len_Slice_Int Int) (cap_Slice_Int Int)))))
(declare-datatypes ((S_current 0)) (((mk_S_current (S_current_pos S_position) (S_current_text Slice_Int) (S_current_state Int) (S_current_globalStore Int)))))
(declare-datatypes ((Slice_Any 0)) (((mk_Slice_Any (arr_Slice_Any (Array Int Any)) (off_Slice_Any Int) (len_Slice_Any Int) (cap_Slice_Any Int)))))
(declare-fun typeOf (Any) Int)
(declare-const nilAny Any)
(declare-fun slen (Str) Int)
(declare-const emptyStr Str)
(declare-fun scat (Str Str) Str)
(declare-fun runeCount (Str) Int)
(declare-fun runeOf (Str Int) Int)
(declare-fun sle (Str Str) Bool)
(declare-fun card_Str ((Array Str Bool)) Int)
(declare-fun wit_Str ((Array Str Bool)) Str)
(declare-fun ThrowPre (Slice_Int Int Str Slice_Int Int) Bool)
(declare-fun elem_Slice_Int (Slice_Int Int) Int)
(declare-fun D (Any Slice_Int Int Bool Int Any) Bool)
(declare-fun TH (Slice_Int Str Slice_Int Int Bool Int Any) Bool)
(declare-fun DR (Int Slice_Int Int Bool Int Any) Bool)
(declare-fun box_Int (Int Int) Any)
(declare-fun unbox_Int (Any) Int)
(declare-fun defined (Str) Bool)
(declare-fun elem_Slice_Any (Slice_Any Int) Any)
(declare-fun IsNode (Any) Bool)
(declare-fun KeptE (Slice_Any Int (Array Int Any) Int) Bool)
(declare-fun errMsg (Any) Str)
(declare-fun decR (Slice_Int) Int)
(declare-fun decW (Slice_Int) Int)
(declare-fun bnd (Slice_Int Int) Bool)
(declare-fun lineAt (Slice_Int Int) Int)
(declare-fun colAt (Slice_Int Int) Int)
(declare-fun LitPre (Int Slice_Int Int Int Int) Bool)
(declare-fun toLower (Int) Int)
(declare-fun box_Slice_Int (Int Slice_Int) Any)
(declare-fun unbox_Slice_Int (Any) Slice_Int)
(declare-fun uniIs (Int Int) Bool)
(declare-fun SeqPre (Int Slice_Int Int Int Int (Array Int Any)) Bool)
(declare-fun box_Slice_Any (Int Slice_Any) Any)
(declare-fun unbox_Slice_Any (Any) Slice_Any)
(declare-fun ChoicePre (Int Slice_Int Int Int) Bool)
(declare-fun RepPre (Any Slice_Int Int Int Int (Array Int Any)) Bool)
(declare-const str!0 Str) ; "restoreState"
(assert (= (slen str!0) 12))
(assert (= (runeCount str!0) 12))
(declare-const in_p Int)
(declare-const Alloc@pre (Array Int Bool))
(declare-const in_state Int)
(declare-const H_parser_cur@pre (Array Int S_current))
(declare-const H_parser_debug@pre (Array Int Bool))
(declare-const H_parser_depth@pre (Array Int Int))
(declare-const hv!1 Int)
(declare-const H_parser_depth!2 (Array Int Int))
(declare-const Alloc!3 (Array Int Bool))
(declare-const ret_parser_in!4 Str)
(declare-const dom0!5 (Array Str Bool))
(declare-const Mdom_storeDict@pre (Array Int (Array Str Bool)))
(declare-const Mdom_storeDict!6 (Array Int (Array Str Bool)))
(declare-const Mval_storeDict@pre (Array Int (Array Str Any)))
(declare-const Mval_storeDict!7 (Array Int (Array Str Any)))
(declare-const visited1!8 (Array Str Bool))
(declare-const key!9 Str)
(declare-const v!10 Any)
(declare-const Mdom_storeDict!11 (Array Int (Array Str Bool)))
(declare-const Mval_storeDict!12 (Array Int (Array Str Any)))
(declare-const visited1!13 (Array Str Bool))
(declare-const dom0!14 (Array Str Bool))
(declare-const Mdom_storeDict!15 (Array Int (Array Str Bool)))
(declare-const Mval_storeDict!16 (Array Int (Array Str Any)))
(declare-const visited1!17 (Array Str Bool))
(declare-const key!18 Str)
(declare-const v!19 Any)
(declare-const Mdom_storeDict!20 (Array Int (Array Str Bool)))
(declare-const Mval_storeDict!21 (Array Int (Array Str Any)))
(declare-const visited1!22 (Array Str Bool))
(declare-const hv!23 (Array Str Bool))
(declare-const Mdom_storeDict!24 (Array Int (Array Str Bool)))
(declare-const hv!25 (Array Str Any))
(declare-const Mval_storeDict!26 (Array Int (Array Str Any)))
(declare-const Alloc!27 (Array Int Bool))
(declare-const hv!28 (Array Str Bool))
(declare-const Mdom_storeDict!29 (Array Int (Array Str Bool)))
(declare-const hv!30 (Array Str Any))
(declare-const Mval_storeDict!31 (Array Int (Array Str Any)))
(declare-const Alloc!32 (Array Int Bool))
(declare-const hv!33 Int)
(declare-const H_parser_depth!34 (Array Int Int))
(declare-const Alloc!35 (Array Int Bool))
(declare-const ret_parser_out!36 Str)
(declare-const Mdom_map_string_any@pre (Array Int (Array Str Bool)))
(declare-const Mval_map_string_any@pre (Array Int (Array Str Any)))
(declare-const H_rule_expr@pre (Array Int Any))
(declare-const H_rule_leftRecursive@pre (Array Int Bool))
(declare-const H_rule_name@pre (Array Int Str))
(declare-const H_ruleRefExpr_name@pre (Array Int Str))
(declare-const H_seqExpr_exprs@pre (Array Int Slice_Any))
(declare-const H_choiceExpr_alternatives@pre (Array Int Slice_Any))
(declare-const H_andCodeExpr_run@pre (Array Int Int))
(declare-const H_notCodeExpr_run@pre (Array Int Int))
(declare-const H_stateCodeExpr_run@pre (Array Int Int))
(declare-const H_charClassMatcher_ranges@pre (Array Int Slice_Int))
(declare-const H_rule_leader@pre (Array Int Bool))
(declare-const G_g@pre Int)
(declare-const H_grammar_rules@pre (Array Int Slice_Int))
(declare-const H_litMatcher_val@pre (Array Int Str))
(declare-const H_litMatcher_ignoreCase@pre (Array Int Bool))
(declare-const H_charClassMatcher_ignoreCase@pre (Array Int Bool))
(declare-const H_charClassMatcher_chars@pre (Array Int Slice_Int))
(declare-const H_charClassMatcher_classes@pre (Array Int Slice_Int))
(declare-const H_charClassMatcher_inverted@pre (Array Int Bool))
(declare-const H_andExpr_expr@pre (Array Int Any))
(declare-const H_notExpr_expr@pre (Array Int Any))
(declare-const H_zeroOrMoreExpr_expr@pre (Array Int Any))
(declare-const H_oneOrMoreExpr_expr@pre (Array Int Any))
(declare-const H_zeroOrOneExpr_expr@pre (Array Int Any))
(declare-const H_labeledExpr_expr@pre (Array Int Any))
(declare-const H_actionExpr_expr@pre (Array Int Any))
(declare-const H_actionExpr_run@pre (Array Int Int))
(declare-const H_recoveryExpr_expr@pre (Array Int Any))
(declare-const H_recoveryExpr_recoverExpr@pre (Array Int Any))
(declare-const H_charClassMatcher_basicLatinChars@pre (Array Int (Array Int Bool)))
(assert (= (typeOf nilAny) 0))
(assert (forall ((x Any)) (! (=> (= (typeOf x) 0) (= x nilAny)) :pattern ((typeOf x)))))
(assert (forall ((s Str)) (! (>= (slen s) 0) :pattern ((slen s)))))
(assert (= (slen emptyStr) 0))
(assert (forall ((s Str)) (! (=> (= (slen s) 0) (= s emptyStr)) :pattern ((slen s)))))
(assert (forall ((a Str) (b Str)) (! (= (slen (scat a b)) (+ (slen a) (slen b))) :pattern ((scat a b)))))
(assert (forall ((a Str) (b Str) (c Str)) (! (=> (= (scat a b) (scat a c)) (= b c)) :pattern ((scat a b) (scat a c)))))
(assert (forall ((a Str) (b Str) (c Str)) (! (= (scat (scat a b) c) (scat a (scat b c))) :pattern ((scat (scat a b) c)))))
(assert (forall ((a Str)) (! (= (scat a emptyStr) a) :pattern ((scat a emptyStr)))))
(assert (forall ((a Str)) (! (= (scat emptyStr a) a) :pattern ((scat emptyStr a)))))
(assert (forall ((s Str)) (! (>= (runeCount s) 0) :pattern ((runeCount s)))))
(assert (forall ((a Str)) (! (sle a a) :pattern ((sle a a)))))
(assert (forall ((a Str) (b Str)) (! (or (sle a b) (sle b a)) :pattern ((sle a b)))))
(assert (forall ((a Str) (b Str)) (! (=> (and (sle a b) (sle b a)) (= a b)) :pattern ((sle a b) (sle b a)))))
(assert (forall ((a Str) (b Str) (c Str)) (! (=> (and (sle a b) (sle b c)) (sle a c)) :pattern ((sle a b) (sle b c)))))
(assert (forall ((d (Array Str Bool))) (! (>= (card_Str d) 0) :pattern ((card_Str d)))))
(assert (= (card_Str ((as const (Array Str Bool)) false)) 0))
(assert (forall ((d (Array Str Bool)) (k Str)) (! (=> (= (card_Str d) 0) (not (select d k))) :pattern ((card_Str d) (select d k)))))
(assert (forall ((d (Array Str Bool))) (! (=> (= (card_Str d) 0) (= d ((as const (Array Str Bool)) false))) :pattern ((card_Str d)))))
(assert (forall ((d (Array Str Bool))) (! (=> (> (card_Str d) 0) (select d (wit_Str d))) :pattern ((card_Str d)))))
(assert (forall ((d (Array Str Bool)) (a Str) (b Str)) (! (=> (and (= (card_Str d) 1) (select d a) (select d b)) (= a b)) :pattern ((card_Str d) (select d a) (select d b)))))
(assert (forall ((d (Array Str Bool)) (k Str)) (! (= (card_Str (store d k true)) (ite (select d k) (card_Str d) (+ (card_Str d) 1))) :pattern ((card_Str (store d k true))))))
(assert (forall ((d (Array Str Bool)) (k Str)) (! (= (card_Str (store d k false)) (ite (select d k) (- (card_Str d) 1) (card_Str d))) :pattern ((card_Str (store d k false))))))
(assert (forall ((s Slice_Int) (i Int)) (! (= (elem_Slice_Int s i) (select (arr_Slice_Int s) (+ (off_Slice_Int s) i))) :pattern ((elem_Slice_Int s i)))))
(assert (forall ((t Int) (v Int)) (! (=> (> t 0) (= (typeOf (box_Int t v)) t)) :pattern ((box_Int t v)))))
(assert (forall ((t Int) (v Int)) (! (=> (> t 0) (= (unbox_Int (box_Int t v)) v)) :pattern ((box_Int t v)))))
(assert (forall ((s Slice_Any) (i Int)) (! (= (elem_Slice_Any s i) (select (arr_Slice_Any s) (+ (off_Slice_Any s) i))) :pattern ((elem_Slice_Any s i)))))
(assert (forall ((t Int) (v Slice_Int)) (! (=> (> t 0) (= (typeOf (box_Slice_Int t v)) t)) :pattern ((box_Slice_Int t v)))))
(assert (forall ((t Int) (v Slice_Int)) (! (=> (> t 0) (= (unbox_Slice_Int (box_Slice_Int t v)) v)) :pattern ((box_Slice_Int t v)))))
(assert (forall ((t Int) (v Slice_Any)) (! (=> (> t 0) (= (typeOf (box_Slice_Any t v)) t)) :pattern ((box_Slice_Any t v)))))
(assert (forall ((t Int) (v Slice_Any)) (! (=> (> t 0) (= (unbox_Slice_Any (box_Slice_Any t v)) v)) :pattern ((box_Slice_Any t v)))))
(assert (forall ((q_rs_3 Slice_Int) (q_n_4 Int) (q_l_5 Str) (q_d_6 Slice_Int) (q_i_7 Int)) (! (=> (and (and (and (ThrowPre q_rs_3 q_n_4 q_l_5 q_d_6 q_i_7) (<= 0 q_n_4)) (< q_n_4 (len_Slice_Int q_rs_3))) (not (and (not (= (elem_Slice_Int q_rs_3 q_n_4) 0)) (select (select Mdom_map_string_any@pre (elem_Slice_Int q_rs_3 q_n_4)) q_l_5)))) (ThrowPre q_rs_3 (- q_n_4 1) q_l_5 q_d_6 q_i_7)) :pattern ((ThrowPre q_rs_3 q_n_4 q_l_5 q_d_6 q_i_7))))) ; axiom throw-skip
(assert (forall ((q_rs_8 Slice_Int) (q_n_9 Int) (q_l_10 Str) (q_d_11 Slice_Int) (q_i_12 Int) (q_v_13 Any)) (! (=> (and (and (and (and (ThrowPre q_rs_8 q_n_9 q_l_10 q_d_11 q_i_12) (<= 0 q_n_9)) (< q_n_9 (len_Slice_Int q_rs_8))) (and (not (= (elem_Slice_Int q_rs_8 q_n_9) 0)) (select (select Mdom_map_string_any@pre (elem_Slice_Int q_rs_8 q_n_9)) q_l_10))) (D (select (select Mval_map_string_any@pre (elem_Slice_Int q_rs_8 q_n_9)) q_l_10) q_d_11 q_i_12 false q_i_12 q_v_13)) (ThrowPre q_rs_8 (- q_n_9 1) q_l_10 q_d_11 q_i_12)) :pattern ((ThrowPre q_rs_8 q_n_9 q_l_10 q_d_11 q_i_12) (D (select (select Mval_map_string_any@pre (elem_Slice_Int q_rs_8 q_n_9)) q_l_10) q_d_11 q_i_12 false q_i_12 q_v_13))))) ; axiom throw-next
(assert (forall ((q_rs_14 Slice_Int) (q_n_15 Int) (q_l_16 Str) (q_d_17 Slice_Int) (q_i_18 Int) (q_j_19 Int) (q_v_20 Any)) (! (=> (and (and (and (and (ThrowPre q_rs_14 q_n_15 q_l_16 q_d_17 q_i_18) (<= 0 q_n_15)) (< q_n_15 (len_Slice_Int q_rs_14))) (and (not (= (elem_Slice_Int q_rs_14 q_n_15) 0)) (select (select Mdom_map_string_any@pre (elem_Slice_Int q_rs_14 q_n_15)) q_l_16))) (D (select (select Mval_map_string_any@pre (elem_Slice_Int q_rs_14 q_n_15)) q_l_16) q_d_17 q_i_18 true q_j_19 q_v_20)) (TH q_rs_14 q_l_16 q_d_17 q_i_18 true q_j_19 q_v_20)) :pattern ((ThrowPre q_rs_14 q_n_15 q_l_16 q_d_17 q_i_18) (D (select (select Mval_map_string_any@pre (elem_Slice_Int q_rs_14 q_n_15)) q_l_16) q_d_17 q_i_18 true q_j_19 q_v_20))))) ; axiom throw-ok
(assert (forall ((q_rs_21 Slice_Int) (q_l_22 Str) (q_d_23 Slice_Int) (q_i_24 Int)) (! (=> (ThrowPre q_rs_21 (- 0 1) q_l_22 q_d_23 q_i_24) (TH q_rs_21 q_l_22 q_d_23 q_i_24 false q_i_24 nilAny)) :pattern ((ThrowPre q_rs_21 (- 0 1) q_l_22 q_d_23 q_i_24))))) ; axiom throw-fail
(assert (forall ((q_r_25 Int) (q_d_26 Slice_Int) (q_i_27 Int) (q_ok_28 Bool) (q_j_29 Int) (q_v_30 Any)) (! (=> (D (select H_rule_expr@pre q_r_25) q_d_26 q_i_27 q_ok_28 q_j_29 q_v_30) (DR q_r_25 q_d_26 q_i_27 q_ok_28 q_j_29 q_v_30)) :pattern ((D (select H_rule_expr@pre q_r_25) q_d_26 q_i_27 q_ok_28 q_j_29 q_v_30))))) ; axiom rule-intro
(assert (forall ((q_r_31 Int) (q_d_32 Slice_Int) (q_i_33 Int) (q_ok_34 Bool) (q_j_35 Int) (q_v_36 Any)) (! (=> (select H_rule_leftRecursive@pre q_r_31) (DR q_r_31 q_d_32 q_i_33 q_ok_34 q_j_35 q_v_36)) :pattern ((DR q_r_31 q_d_32 q_i_33 q_ok_34 q_j_35 q_v_36))))) ; axiom rule-lr
(assert (forall ((q_f_37 Int) (q_r_38 Int) (q_d_39 Slice_Int) (q_i_40 Int) (q_ok_41 Bool) (q_j_42 Int) (q_v_43 Any)) (! (=> (and (and (DR q_r_38 q_d_39 q_i_40 q_ok_41 q_j_42 q_v_43) (not (= q_r_38 0))) (= (select H_rule_name@pre q_r_38) (select H_ruleRefExpr_name@pre q_f_37))) (D (box_Int 1 q_f_37) q_d_39 q_i_40 q_ok_41 q_j_42 q_v_43)) :pattern ((DR q_r_38 q_d_39 q_i_40 q_ok_41 q_j_42 q_v_43) (D (box_Int 1 q_f_37) q_d_39 q_i_40 q_ok_41 q_j_42 q_v_43))))) ; axiom ref-intro
(assert (forall ((q_f_44 Int) (q_d_45 Slice_Int) (q_i_46 Int)) (! (=> (not (defined (select H_ruleRefExpr_name@pre q_f_44))) (D (box_Int 1 q_f_44) q_d_45 q_i_46 false q_i_46 nilAny)) :pattern ((D (box_Int 1 q_f_44) q_d_45 q_i_46 false q_i_46 nilAny))))) ; axiom ref-undef
(assert (forall ((q_s_47 Int) (q_k_48 Int)) (! (=> (and (and (not (= q_s_47 0)) (<= 0 q_k_48)) (< q_k_48 (len_Slice_Any (select H_seqExpr_exprs@pre q_s_47)))) (IsNode (elem_Slice_Any (select H_seqExpr_exprs@pre q_s_47) q_k_48))) :pattern ((elem_Slice_Any (select H_seqExpr_exprs@pre q_s_47) q_k_48))))) ; axiom wf-seq
(assert (forall ((q_c_49 Int) (q_k_50 Int)) (! (=> (and (and (not (= q_c_49 0)) (<= 0 q_k_50)) (< q_k_50 (len_Slice_Any (select H_choiceExpr_alternatives@pre q_c_49)))) (IsNode (elem_Slice_Any (select H_choiceExpr_alternatives@pre q_c_49) q_k_50))) :pattern ((elem_Slice_Any (select H_choiceExpr_alternatives@pre q_c_49) q_k_50))))) ; axiom wf-choice
(assert (forall ((q_a_51 Int)) (! (=> (not (= q_a_51 0)) (not (= (select H_andCodeExpr_run@pre q_a_51) 0))) :pattern ((select H_andCodeExpr_run@pre q_a_51))))) ; axiom wf-andcode
(assert (forall ((q_a_52 Int)) (! (=> (not (= q_a_52 0)) (not (= (select H_notCodeExpr_run@pre q_a_52) 0))) :pattern ((select H_notCodeExpr_run@pre q_a_52))))) ; axiom wf-notcode
(assert (forall ((q_a_53 Int)) (! (=> (not (= q_a_53 0)) (not (= (select H_stateCodeExpr_run@pre q_a_53) 0))) :pattern ((select H_stateCodeExpr_run@pre q_a_53))))) ; axiom wf-statecode
(assert (forall ((q_c_54 Int)) (! (=> (not (= q_c_54 0)) (= (mod (len_Slice_Int (select H_charClassMatcher_ranges@pre q_c_54)) 2) 0)) :pattern ((select H_charClassMatcher_ranges@pre q_c_54))))) ; axiom wf-class
(assert (forall ((q_r_55 Int)) (! (=> (not (= q_r_55 0)) (IsNode (select H_rule_expr@pre q_r_55))) :pattern ((select H_rule_expr@pre q_r_55))))) ; axiom wf-rule
(assert (forall ((q_o_56 Slice_Any) (q_j_57 Int) (q_a_58 (Array Int Any)) (q_n_59 Int)) (! (=> (and (and (and (KeptE q_o_56 q_j_57 q_a_58 q_n_59) (<= 0 q_j_57)) (< q_j_57 (len_Slice_Any q_o_56))) (forall ((q_i_60 Int)) (=> (and (<= 0 q_i_60) (< q_i_60 q_j_57)) (not (= (errMsg (elem_Slice_Any q_o_56 q_i_60)) (errMsg (elem_Slice_Any q_o_56 q_j_57))))))) (KeptE q_o_56 (+ q_j_57 1) (store q_a_58 q_n_59 (elem_Slice_Any q_o_56 q_j_57)) (+ q_n_59 1))) :pattern ((KeptE q_o_56 q_j_57 q_a_58 q_n_59))))) ; axiom kepte-take
(assert (forall ((q_o_61 Slice_Any) (q_j_62 Int) (q_a_63 (Array Int Any)) (q_n_64 Int)) (! (=> (and (and (and (KeptE q_o_61 q_j_62 q_a_63 q_n_64) (<= 0 q_j_62)) (< q_j_62 (len_Slice_Any q_o_61))) (not (forall ((q_i_65 Int)) (=> (and (<= 0 q_i_65) (< q_i_65 q_j_62)) (not (= (errMsg (elem_Slice_Any q_o_61 q_i_65)) (errMsg (elem_Slice_Any q_o_61 q_j_62)))))))) (KeptE q_o_61 (+ q_j_62 1) q_a_63 q_n_64)) :pattern ((KeptE q_o_61 q_j_62 q_a_63 q_n_64))))) ; axiom kepte-skip
(assert (forall ((q_r_66 Int)) (! (=> (and (not (= q_r_66 0)) (select H_rule_leader@pre q_r_66)) (select H_rule_leftRecursive@pre q_r_66)) :pattern ((select H_rule_leader@pre q_r_66))))) ; axiom wf-leader
(assert (forall ((q_b_67 Slice_Int)) (! (and (=> (= (len_Slice_Int q_b_67) 0) (and (= (decR q_b_67) 65533) (= (decW q_b_67) 0))) (=> (> (len_Slice_Int q_b_67) 0) (and (and (<= 1 (decW q_b_67)) (<= (decW q_b_67) 4)) (<= (decW q_b_67) (len_Slice_Int q_b_67))))) :pattern ((decW q_b_67))))) ; axiom dec-eof
(assert (forall ((q_b_68 Slice_Int)) (! (and (<= 0 (decR q_b_68)) (<= (decR q_b_68) 1114111)) :pattern ((decR q_b_68))))) ; axiom dec-range
(assert (forall ((q_d_69 Slice_Int) (q_o_70 Int)) (! (=> (and (and (bnd q_d_69 q_o_70) (<= 0 q_o_70)) (< q_o_70 (len_Slice_Int q_d_69))) (and (and (bnd q_d_69 (+ q_o_70 (decW (mk_Slice_Int (arr_Slice_Int q_d_69) (+ (off_Slice_Int q_d_69) q_o_70) (- (len_Slice_Int q_d_69) q_o_70) (- (cap_Slice_Int q_d_69) q_o_70))))) (= (lineAt q_d_69 (+ q_o_70 (decW (mk_Slice_Int (arr_Slice_Int q_d_69) (+ (off_Slice_Int q_d_69) q_o_70) (- (len_Slice_Int q_d_69) q_o_70) (- (cap_Slice_Int q_d_69) q_o_70))))) (+ (lineAt q_d_69 q_o_70) (ite (= (decR (mk_Slice_Int (arr_Slice_Int q_d_69) (+ (off_Slice_Int q_d_69) (+ q_o_70 (decW (mk_Slice_Int (arr_Slice_Int q_d_69) (+ (off_Slice_Int q_d_69) q_o_70) (- (len_Slice_Int q_d_69) q_o_70) (- (cap_Slice_Int q_d_69) q_o_70))))) (- (len_Slice_Int q_d_69) (+ q_o_70 (decW (mk_Slice_Int (arr_Slice_Int q_d_69) (+ (off_Slice_Int q_d_69) q_o_70) (- (len_Slice_Int q_d_69) q_o_70) (- (cap_Slice_Int q_d_69) q_o_70))))) (- (cap_Slice_Int q_d_69) (+ q_o_70 (decW (mk_Slice_Int (arr_Slice_Int q_d_69) (+ (off_Slice_Int q_d_69) q_o_70) (- (len_Slice_Int q_d_69) q_o_70) (- (cap_Slice_Int q_d_69) q_o_70))))))) 10) 1 0)))) (= (colAt q_d_69 (+ q_o_70 (decW (mk_Slice_Int (arr_Slice_Int q_d_69) (+ (off_Slice_Int q_d_69) q_o_70) (- (len_Slice_Int q_d_69) q_o_70) (- (cap_Slice_Int q_d_69) q_o_70))))) (ite (= (decR (mk_Slice_Int (arr_Slice_Int q_d_69) (+ (off_Slice_Int q_d_69) (+ q_o_70 (decW (mk_Slice_Int (arr_Slice_Int q_d_69) (+ (off_Slice_Int q_d_69) q_o_70) (- (len_Slice_Int q_d_69) q_o_70) (- (cap_Slice_Int q_d_69) q_o_70))))) (- (len_Slice_Int q_d_69) (+ q_o_70 (decW (mk_Slice_Int (arr_Slice_Int q_d_69) (+ (off_Slice_Int q_d_69) q_o_70) (- (len_Slice_Int q_d_69) q_o_70) (- (cap_Slice_Int q_d_69) q_o_70))))) (- (cap_Slice_Int q_d_69) (+ q_o_70 (decW (mk_Slice_Int (arr_Slice_Int q_d_69) (+ (off_Slice_Int q_d_69) q_o_70) (- (len_Slice_Int q_d_69) q_o_70) (- (cap_Slice_Int q_d_69) q_o_70))))))) 10) 0 (+ (colAt q_d_69 q_o_70) 1))))) :pattern ((bnd q_d_69 q_o_70))))) ; axiom pos-step
(assert (and (and (not (= G_g@pre 0)) (>= (len_Slice_Int (select H_grammar_rules@pre G_g@pre)) 1)) (forall ((q_k_71 Int)) (! (=> (and (<= 0 q_k_71) (< q_k_71 (len_Slice_Int (select H_grammar_rules@pre G_g@pre)))) (not (= (elem_Slice_Int (select H_grammar_rules@pre G_g@pre) q_k_71) 0))) :pattern ((elem_Slice_Int (select H_grammar_rules@pre G_g@pre) q_k_71)))))) ; axiom wf-grammar
(assert (forall ((q_k_72 Int)) (! (=> (and (<= 0 q_k_72) (< q_k_72 (len_Slice_Int (select H_grammar_rules@pre G_g@pre)))) (defined (select H_rule_name@pre (elem_Slice_Int (select H_grammar_rules@pre G_g@pre) q_k_72)))) :pattern ((elem_Slice_Int (select H_grammar_rules@pre G_g@pre) q_k_72))))) ; axiom defined-intro
(assert (forall ((q_n_73 Str)) (! (=> (defined q_n_73) (exists ((q_k_74 Int)) (and (and (<= 0 q_k_74) (< q_k_74 (len_Slice_Int (select H_grammar_rules@pre G_g@pre)))) (= (select H_rule_name@pre (elem_Slice_Int (select H_grammar_rules@pre G_g@pre) q_k_74)) q_n_73)))) :pattern ((defined q_n_73))))) ; axiom defined-elim
(assert (forall ((q_l_75 Int) (q_d_76 Slice_Int) (q_k_77 Int) (q_i_78 Int) (q_j_79 Int)) (! (=> (and (and (and (and (LitPre q_l_75 q_d_76 q_k_77 q_i_78 q_j_79) (<= 0 q_k_77)) (< q_k_77 (runeCount (select H_litMatcher_val@pre q_l_75)))) (> (decW (mk_Slice_Int (arr_Slice_Int q_d_76) (+ (off_Slice_Int q_d_76) q_j_79) (- (len_Slice_Int q_d_76) q_j_79) (- (cap_Slice_Int q_d_76) q_j_79))) 0)) (= (ite (select H_litMatcher_ignoreCase@pre q_l_75) (toLower (decR (mk_Slice_Int (arr_Slice_Int q_d_76) (+ (off_Slice_Int q_d_76) q_j_79) (- (len_Slice_Int q_d_76) q_j_79) (- (cap_Slice_Int q_d_76) q_j_79)))) (decR (mk_Slice_Int (arr_Slice_Int q_d_76) (+ (off_Slice_Int q_d_76) q_j_79) (- (len_Slice_Int q_d_76) q_j_79) (- (cap_Slice_Int q_d_76) q_j_79)))) (runeOf (select H_litMatcher_val@pre q_l_75) q_k_77))) (LitPre q_l_75 q_d_76 (+ q_k_77 1) q_i_78 (+ q_j_79 (decW (mk_Slice_Int (arr_Slice_Int q_d_76) (+ (off_Slice_Int q_d_76) q_j_79) (- (len_Slice_Int q_d_76) q_j_79) (- (cap_Slice_Int q_d_76) q_j_79)))))) :pattern ((LitPre q_l_75 q_d_76 q_k_77 q_i_78 q_j_79))))) ; axiom lit-step
(assert (forall ((q_l_80 Int) (q_d_81 Slice_Int) (q_i_82 Int) (q_j_83 Int) (q_v_84 Any)) (! (=> (and (LitPre q_l_80 q_d_81 (runeCount (select H_litMatcher_val@pre q_l_80)) q_i_82 q_j_83) (= q_v_84 (box_Slice_Int 2 (mk_Slice_Int (arr_Slice_Int q_d_81) (+ (off_Slice_Int q_d_81) q_i_82) (- q_j_83 q_i_82) (- (cap_Slice_Int q_d_81) q_i_82))))) (D (box_Int 3 q_l_80) q_d_81 q_i_82 true q_j_83 q_v_84)) :pattern ((D (box_Int 3 q_l_80) q_d_81 q_i_82 true q_j_83 q_v_84))))) ; axiom lit-ok
(assert (forall ((q_l_85 Int) (q_d_86 Slice_Int) (q_k_87 Int) (q_i_88 Int) (q_j_89 Int)) (! (=> (and (and (and (LitPre q_l_85 q_d_86 q_k_87 q_i_88 q_j_89) (<= 0 q_k_87)) (< q_k_87 (runeCount (select H_litMatcher_val@pre q_l_85)))) (or (= (decW (mk_Slice_Int (arr_Slice_Int q_d_86) (+ (off_Slice_Int q_d_86) q_j_89) (- (len_Slice_Int q_d_86) q_j_89) (- (cap_Slice_Int q_d_86) q_j_89))) 0) (not (= (ite (select H_litMatcher_ignoreCase@pre q_l_85) (toLower (decR (mk_Slice_Int (arr_Slice_Int q_d_86) (+ (off_Slice_Int q_d_86) q_j_89) (- (len_Slice_Int q_d_86) q_j_89) (- (cap_Slice_Int q_d_86) q_j_89)))) (decR (mk_Slice_Int (arr_Slice_Int q_d_86) (+ (off_Slice_Int q_d_86) q_j_89) (- (len_Slice_Int q_d_86) q_j_89) (- (cap_Slice_Int q_d_86) q_j_89)))) (runeOf (select H_litMatcher_val@pre q_l_85) q_k_87))))) (D (box_Int 3 q_l_85) q_d_86 q_i_88 false q_i_88 nilAny)) :pattern ((LitPre q_l_85 q_d_86 q_k_87 q_i_88 q_j_89))))) ; axiom lit-fail
(assert (forall ((q_c_90 Int) (q_d_91 Slice_Int) (q_i_92 Int) (q_j_93 Int) (q_v_94 Any)) (! (=> (and (and (and (> (decW (mk_Slice_Int (arr_Slice_Int q_d_91) (+ (off_Slice_Int q_d_91) q_i_92) (- (len_Slice_Int q_d_91) q_i_92) (- (cap_Slice_Int q_d_91) q_i_92))) 0) (not (= (or (or (exists ((q_k_95 Int)) (and (and (<= 0 q_k_95) (< q_k_95 (len_Slice_Int (select H_charClassMatcher_chars@pre q_c_90)))) (= (elem_Slice_Int (select H_charClassMatcher_chars@pre q_c_90) q_k_95) (ite (select H_charClassMatcher_ignoreCase@pre q_c_90) (toLower (decR (mk_Slice_Int (arr_Slice_Int q_d_91) (+ (off_Slice_Int q_d_91) q_i_92) (- (len_Slice_Int q_d_91) q_i_92) (- (cap_Slice_Int q_d_91) q_i_92)))) (decR (mk_Slice_Int (arr_Slice_Int q_d_91) (+ (off_Slice_Int q_d_91) q_i_92) (- (len_Slice_Int q_d_91) q_i_92) (- (cap_Slice_Int q_d_91) q_i_92))))))) (exists ((q_k_96 Int)) (and (and (and (<= 0 q_k_96) (< (+ (* 2 q_k_96) 1) (len_Slice_Int (select H_charClassMatcher_ranges@pre q_c_90)))) (<= (elem_Slice_Int (select H_charClassMatcher_ranges@pre q_c_90) (* 2 q_k_96)) (ite (select H_charClassMatcher_ignoreCase@pre q_c_90) (toLower (decR (mk_Slice_Int (arr_Slice_Int q_d_91) (+ (off_Slice_Int q_d_91) q_i_92) (- (len_Slice_Int q_d_91) q_i_92) (- (cap_Slice_Int q_d_91) q_i_92)))) (decR (mk_Slice_Int (arr_Slice_Int q_d_91) (+ (off_Slice_Int q_d_91) q_i_92) (- (len_Slice_Int q_d_91) q_i_92) (- (cap_Slice_Int q_d_91) q_i_92)))))) (<= (ite (select H_charClassMatcher_ignoreCase@pre q_c_90) (toLower (decR (mk_Slice_Int (arr_Slice_Int q_d_91) (+ (off_Slice_Int q_d_91) q_i_92) (- (len_Slice_Int q_d_91) q_i_92) (- (cap_Slice_Int q_d_91) q_i_92)))) (decR (mk_Slice_Int (arr_Slice_Int q_d_91) (+ (off_Slice_Int q_d_91) q_i_92) (- (len_Slice_Int q_d_91) q_i_92) (- (cap_Slice_Int q_d_91) q_i_92)))) (elem_Slice_Int (select H_charClassMatcher_ranges@pre q_c_90) (+ (* 2 q_k_96) 1)))))) (exists ((q_k_97 Int)) (and (and (<= 0 q_k_97) (< q_k_97 (len_Slice_Int (select H_charClassMatcher_classes@pre q_c_90)))) (uniIs (elem_Slice_Int (select H_charClassMatcher_classes@pre q_c_90) q_k_97) (ite (select H_charClassMatcher_ignoreCase@pre q_c_90) (toLower (decR (mk_Slice_Int (arr_Slice_Int q_d_91) (+ (off_Slice_Int q_d_91) q_i_92) (- (len_Slice_Int q_d_91) q_i_92) (- (cap_Slice_Int q_d_91) q_i_92)))) (decR (mk_Slice_Int (arr_Slice_Int q_d_91) (+ (off_Slice_Int q_d_91) q_i_92) (- (len_Slice_Int q_d_91) q_i_92) (- (cap_Slice_Int q_d_91) q_i_92)))))))) (select H_charClassMatcher_inverted@pre q_c_90)))) (= q_j_93 (+ q_i_92 (decW (mk_Slice_Int (arr_Slice_Int q_d_91) (+ (off_Slice_Int q_d_91) q_i_92) (- (len_Slice_Int q_d_91) q_i_92) (- (cap_Slice_Int q_d_91) q_i_92)))))) (= q_v_94 (box_Slice_Int 2 (mk_Slice_Int (arr_Slice_Int q_d_91) (+ (off_Slice_Int q_d_91) q_i_92) (- q_j_93 q_i_92) (- (cap_Slice_Int q_d_91) q_i_92))))) (D (box_Int 4 q_c_90) q_d_91 q_i_92 true q_j_93 q_v_94)) :pattern ((D (box_Int 4 q_c_90) q_d_91 q_i_92 true q_j_93 q_v_94))))) ; axiom class-ok
(assert (forall ((q_c_98 Int) (q_d_99 Slice_Int) (q_i_100 Int)) (! (=> (not (and (> (decW (mk_Slice_Int (arr_Slice_Int q_d_99) (+ (off_Slice_Int q_d_99) q_i_100) (- (len_Slice_Int q_d_99) q_i_100) (- (cap_Slice_Int q_d_99) q_i_100))) 0) (not (= (or (or (exists ((q_k_101 Int)) (and (and (<= 0 q_k_101) (< q_k_101 (len_Slice_Int (select H_charClassMatcher_chars@pre q_c_98)))) (= (elem_Slice_Int (select H_charClassMatcher_chars@pre q_c_98) q_k_101) (ite (select H_charClassMatcher_ignoreCase@pre q_c_98) (toLower (decR (mk_Slice_Int (arr_Slice_Int q_d_99) (+ (off_Slice_Int q_d_99) q_i_100) (- (len_Slice_Int q_d_99) q_i_100) (- (cap_Slice_Int q_d_99) q_i_100)))) (decR (mk_Slice_Int (arr_Slice_Int q_d_99) (+ (off_Slice_Int q_d_99) q_i_100) (- (len_Slice_Int q_d_99) q_i_100) (- (cap_Slice_Int q_d_99) q_i_100))))))) (exists ((q_k_102 Int)) (and (and (and (<= 0 q_k_102) (< (+ (* 2 q_k_102) 1) (len_Slice_Int (select H_charClassMatcher_ranges@pre q_c_98)))) (<= (elem_Slice_Int (select H_charClassMatcher_ranges@pre q_c_98) (* 2 q_k_102)) (ite (select H_charClassMatcher_ignoreCase@pre q_c_98) (toLower (decR (mk_Slice_Int (arr_Slice_Int q_d_99) (+ (off_Slice_Int q_d_99) q_i_100) (- (len_Slice_Int q_d_99) q_i_100) (- (cap_Slice_Int q_d_99) q_i_100)))) (decR (mk_Slice_Int (arr_Slice_Int q_d_99) (+ (off_Slice_Int q_d_99) q_i_100) (- (len_Slice_Int q_d_99) q_i_100) (- (cap_Slice_Int q_d_99) q_i_100)))))) (<= (ite (select H_charClassMatcher_ignoreCase@pre q_c_98) (toLower (decR (mk_Slice_Int (arr_Slice_Int q_d_99) (+ (off_Slice_Int q_d_99) q_i_100) (- (len_Slice_Int q_d_99) q_i_100) (- (cap_Slice_Int q_d_99) q_i_100)))) (decR (mk_Slice_Int (arr_Slice_Int q_d_99) (+ (off_Slice_Int q_d_99) q_i_100) (- (len_Slice_Int q_d_99) q_i_100) (- (cap_Slice_Int q_d_99) q_i_100)))) (elem_Slice_Int (select H_charClassMatcher_ranges@pre q_c_98) (+ (* 2 q_k_102) 1)))))) (exists ((q_k_103 Int)) (and (and (<= 0 q_k_103) (< q_k_103 (len_Slice_Int (select H_charClassMatcher_classes@pre q_c_98)))) (uniIs (elem_Slice_Int (select H_charClassMatcher_classes@pre q_c_98) q_k_103) (ite (select H_charClassMatcher_ignoreCase@pre q_c_98) (toLower (decR (mk_Slice_Int (arr_Slice_Int q_d_99) (+ (off_Slice_Int q_d_99) q_i_100) (- (len_Slice_Int q_d_99) q_i_100) (- (cap_Slice_Int q_d_99) q_i_100)))) (decR (mk_Slice_Int (arr_Slice_Int q_d_99) (+ (off_Slice_Int q_d_99) q_i_100) (- (len_Slice_Int q_d_99) q_i_100) (- (cap_Slice_Int q_d_99) q_i_100)))))))) (select H_charClassMatcher_inverted@pre q_c_98))))) (D (box_Int 4 q_c_98) q_d_99 q_i_100 false q_i_100 nilAny)) :pattern ((D (box_Int 4 q_c_98) q_d_99 q_i_100 false q_i_100 nilAny))))) ; axiom class-no
(assert (forall ((q_a_104 Int) (q_d_105 Slice_Int) (q_i_106 Int) (q_j_107 Int) (q_v_108 Any)) (! (=> (and (and (> (decW (mk_Slice_Int (arr_Slice_Int q_d_105) (+ (off_Slice_Int q_d_105) q_i_106) (- (len_Slice_Int q_d_105) q_i_106) (- (cap_Slice_Int q_d_105) q_i_106))) 0) (= q_j_107 (+ q_i_106 (decW (mk_Slice_Int (arr_Slice_Int q_d_105) (+ (off_Slice_Int q_d_105) q_i_106) (- (len_Slice_Int q_d_105) q_i_106) (- (cap_Slice_Int q_d_105) q_i_106)))))) (= q_v_108 (box_Slice_Int 2 (mk_Slice_Int (arr_Slice_Int q_d_105) (+ (off_Slice_Int q_d_105) q_i_106) (- q_j_107 q_i_106) (- (cap_Slice_Int q_d_105) q_i_106))))) (D (box_Int 5 q_a_104) q_d_105 q_i_106 true q_j_107 q_v_108)) :pattern ((D (box_Int 5 q_a_104) q_d_105 q_i_106 true q_j_107 q_v_108))))) ; axiom any-ok
(assert (forall ((q_a_109 Int) (q_d_110 Slice_Int) (q_i_111 Int)) (! (=> (= (decW (mk_Slice_Int (arr_Slice_Int q_d_110) (+ (off_Slice_Int q_d_110) q_i_111) (- (len_Slice_Int q_d_110) q_i_111) (- (cap_Slice_Int q_d_110) q_i_111))) 0) (D (box_Int 5 q_a_109) q_d_110 q_i_111 false q_i_111 nilAny)) :pattern ((D (box_Int 5 q_a_109) q_d_110 q_i_111 false q_i_111 nilAny))))) ; axiom any-no
(assert (forall ((q_s_112 Int) (q_d_113 Slice_Int) (q_k_114 Int) (q_i_115 Int) (q_j_116 Int) (q_a_117 (Array Int Any)) (q_j2_118 Int) (q_v_119 Any)) (! (=> (and (and (and (SeqPre q_s_112 q_d_113 q_k_114 q_i_115 q_j_116 q_a_117) (<= 0 q_k_114)) (< q_k_114 (len_Slice_Any (select H_seqExpr_exprs@pre q_s_112)))) (D (elem_Slice_Any (select H_seqExpr_exprs@pre q_s_112) q_k_114) q_d_113 q_j_116 true q_j2_118 q_v_119)) (SeqPre q_s_112 q_d_113 (+ q_k_114 1) q_i_115 q_j2_118 (store q_a_117 q_k_114 q_v_119))) :pattern ((SeqPre q_s_112 q_d_113 q_k_114 q_i_115 q_j_116 q_a_117) (D (elem_Slice_Any (select H_seqExpr_exprs@pre q_s_112) q_k_114) q_d_113 q_j_116 true q_j2_118 q_v_119))))) ; axiom seq-step
(assert (forall ((q_s_120 Int) (q_d_121 Slice_Int) (q_i_122 Int) (q_j_123 Int) (q_vs_124 Slice_Any)) (! (=> (and (and (SeqPre q_s_120 q_d_121 (len_Slice_Any (select H_seqExpr_exprs@pre q_s_120)) q_i_122 q_j_123 (arr_Slice_Any q_vs_124)) (= (off_Slice_Any q_vs_124) 0)) (= (len_Slice_Any q_vs_124) (len_Slice_Any (select H_seqExpr_exprs@pre q_s_120)))) (D (box_Int 6 q_s_120) q_d_121 q_i_122 true q_j_123 (box_Slice_Any 7 q_vs_124))) :pattern ((SeqPre q_s_120 q_d_121 (len_Slice_Any (select H_seqExpr_exprs@pre q_s_120)) q_i_122 q_j_123 (arr_Slice_Any q_vs_124)))))) ; axiom seq-ok
(assert (forall ((q_s_125 Int) (q_d_126 Slice_Int) (q_k_127 Int) (q_i_128 Int) (q_j_129 Int) (q_a_130 (Array Int Any)) (q_v_131 Any)) (! (=> (and (and (and (SeqPre q_s_125 q_d_126 q_k_127 q_i_128 q_j_129 q_a_130) (<= 0 q_k_127)) (< q_k_127 (len_Slice_Any (select H_seqExpr_exprs@pre q_s_125)))) (D (elem_Slice_Any (select H_seqExpr_exprs@pre q_s_125) q_k_127) q_d_126 q_j_129 false q_j_129 q_v_131)) (D (box_Int 6 q_s_125) q_d_126 q_i_128 false q_i_128 nilAny)) :pattern ((SeqPre q_s_125 q_d_126 q_k_127 q_i_128 q_j_129 q_a_130) (D (elem_Slice_Any (select H_seqExpr_exprs@pre q_s_125) q_k_127) q_d_126 q_j_129 false q_j_129 q_v_131))))) ; axiom seq-fail
(assert (forall ((q_c_132 Int) (q_d_133 Slice_Int) (q_k_134 Int) (q_i_135 Int) (q_v_136 Any)) (! (=> (and (and (and (ChoicePre q_c_132 q_d_133 q_k_134 q_i_135) (<= 0 q_k_134)) (< q_k_134 (len_Slice_Any (select H_choiceExpr_alternatives@pre q_c_132)))) (D (elem_Slice_Any (select H_choiceExpr_alternatives@pre q_c_132) q_k_134) q_d_133 q_i_135 false q_i_135 q_v_136)) (ChoicePre q_c_132 q_d_133 (+ q_k_134 1) q_i_135)) :pattern ((ChoicePre q_c_132 q_d_133 q_k_134 q_i_135) (D (elem_Slice_Any (select H_choiceExpr_alternatives@pre q_c_132) q_k_134) q_d_133 q_i_135 false q_i_135 q_v_136))))) ; axiom choice-step
(assert (forall ((q_c_137 Int) (q_d_138 Slice_Int) (q_k_139 Int) (q_i_140 Int) (q_j_141 Int) (q_v_142 Any)) (! (=> (and (and (and (ChoicePre q_c_137 q_d_138 q_k_139 q_i_140) (<= 0 q_k_139)) (< q_k_139 (len_Slice_Any (select H_choiceExpr_alternatives@pre q_c_137)))) (D (elem_Slice_Any (select H_choiceExpr_alternatives@pre q_c_137) q_k_139) q_d_138 q_i_140 true q_j_141 q_v_142)) (D (box_Int 8 q_c_137) q_d_138 q_i_140 true q_j_141 q_v_142)) :pattern ((ChoicePre q_c_137 q_d_138 q_k_139 q_i_140) (D (elem_Slice_Any (select H_choiceExpr_alternatives@pre q_c_137) q_k_139) q_d_138 q_i_140 true q_j_141 q_v_142))))) ; axiom choice-ok
(assert (forall ((q_c_143 Int) (q_d_144 Slice_Int) (q_i_145 Int)) (! (=> (ChoicePre q_c_143 q_d_144 (len_Slice_Any (select H_choiceExpr_alternatives@pre q_c_143)) q_i_145) (D (box_Int 8 q_c_143) q_d_144 q_i_145 false q_i_145 nilAny)) :pattern ((ChoicePre q_c_143 q_d_144 (len_Slice_Any (select H_choiceExpr_alternatives@pre q_c_143)) q_i_145))))) ; axiom choice-fail
(assert (forall ((q_a_146 Int) (q_d_147 Slice_Int) (q_i_148 Int) (q_ok_149 Bool) (q_j_150 Int) (q_v_151 Any)) (! (=> (D (select H_andExpr_expr@pre q_a_146) q_d_147 q_i_148 q_ok_149 q_j_150 q_v_151) (D (box_Int 9 q_a_146) q_d_147 q_i_148 q_ok_149 q_i_148 nilAny)) :pattern ((D (select H_andExpr_expr@pre q_a_146) q_d_147 q_i_148 q_ok_149 q_j_150 q_v_151) (D (box_Int 9 q_a_146) q_d_147 q_i_148 q_ok_149 q_i_148 nilAny))))) ; axiom and-intro
(assert (forall ((q_n_152 Int) (q_d_153 Slice_Int) (q_i_154 Int) (q_j_155 Int) (q_v_156 Any)) (! (=> (D (select H_notExpr_expr@pre q_n_152) q_d_153 q_i_154 true q_j_155 q_v_156) (D (box_Int 10 q_n_152) q_d_153 q_i_154 false q_i_154 nilAny)) :pattern ((D (select H_notExpr_expr@pre q_n_152) q_d_153 q_i_154 true q_j_155 q_v_156))))) ; axiom not-true
(assert (forall ((q_n_157 Int) (q_d_158 Slice_Int) (q_i_159 Int) (q_j_160 Int) (q_v_161 Any)) (! (=> (D (select H_notExpr_expr@pre q_n_157) q_d_158 q_i_159 false q_j_160 q_v_161) (D (box_Int 10 q_n_157) q_d_158 q_i_159 true q_i_159 nilAny)) :pattern ((D (select H_notExpr_expr@pre q_n_157) q_d_158 q_i_159 false q_j_160 q_v_161))))) ; axiom not-false
(assert (forall ((q_e_162 Any) (q_d_163 Slice_Int) (q_k_164 Int) (q_i_165 Int) (q_j_166 Int) (q_a_167 (Array Int Any)) (q_j2_168 Int) (q_v_169 Any)) (! (=> (and (and (RepPre q_e_162 q_d_163 q_k_164 q_i_165 q_j_166 q_a_167) (<= 0 q_k_164)) (D q_e_162 q_d_163 q_j_166 true q_j2_168 q_v_169)) (RepPre q_e_162 q_d_163 (+ q_k_164 1) q_i_165 q_j2_168 (store q_a_167 q_k_164 q_v_169))) :pattern ((RepPre q_e_162 q_d_163 q_k_164 q_i_165 q_j_166 q_a_167) (D q_e_162 q_d_163 q_j_166 true q_j2_168 q_v_169))))) ; axiom rep-step
(assert (forall ((q_z_170 Int) (q_d_171 Slice_Int) (q_k_172 Int) (q_i_173 Int) (q_j_174 Int) (q_vs_175 Slice_Any) (q_v_176 Any)) (! (=> (and (and (and (RepPre (select H_zeroOrMoreExpr_expr@pre q_z_170) q_d_171 q_k_172 q_i_173 q_j_174 (arr_Slice_Any q_vs_175)) (= (off_Slice_Any q_vs_175) 0)) (= (len_Slice_Any q_vs_175) q_k_172)) (D (select H_zeroOrMoreExpr_expr@pre q_z_170) q_d_171 q_j_174 false q_j_174 q_v_176)) (D (box_Int 11 q_z_170) q_d_171 q_i_173 true q_j_174 (box_Slice_Any 7 q_vs_175))) :pattern ((RepPre (select H_zeroOrMoreExpr_expr@pre q_z_170) q_d_171 q_k_172 q_i_173 q_j_174 (arr_Slice_Any q_vs_175)) (D (select H_zeroOrMoreExpr_expr@pre q_z_170) q_d_171 q_j_174 false q_j_174 q_v_176))))) ; axiom star-ok
(assert (forall ((q_o_177 Int) (q_d_178 Slice_Int) (q_k_179 Int) (q_i_180 Int) (q_j_181 Int) (q_vs_182 Slice_Any) (q_v_183 Any)) (! (=> (and (and (and (and (RepPre (select H_oneOrMoreExpr_expr@pre q_o_177) q_d_178 q_k_179 q_i_180 q_j_181 (arr_Slice_Any q_vs_182)) (>= q_k_179 1)) (= (off_Slice_Any q_vs_182) 0)) (= (len_Slice_Any q_vs_182) q_k_179)) (D (select H_oneOrMoreExpr_expr@pre q_o_177) q_d_178 q_j_181 false q_j_181 q_v_183)) (D (box_Int 12 q_o_177) q_d_178 q_i_180 true q_j_181 (box_Slice_Any 7 q_vs_182))) :pattern ((RepPre (select H_oneOrMoreExpr_expr@pre q_o_177) q_d_178 q_k_179 q_i_180 q_j_181 (arr_Slice_Any q_vs_182)) (D (select H_oneOrMoreExpr_expr@pre q_o_177) q_d_178 q_j_181 false q_j_181 q_v_183))))) ; axiom plus-ok
(assert (forall ((q_o_184 Int) (q_d_185 Slice_Int) (q_i_186 Int) (q_v_187 Any)) (! (=> (D (select H_oneOrMoreExpr_expr@pre q_o_184) q_d_185 q_i_186 false q_i_186 q_v_187) (D (box_Int 12 q_o_184) q_d_185 q_i_186 false q_i_186 nilAny)) :pattern ((D (select H_oneOrMoreExpr_expr@pre q_o_184) q_d_185 q_i_186 false q_i_186 q_v_187) (D (box_Int 12 q_o_184) q_d_185 q_i_186 false q_i_186 nilAny))))) ; axiom plus-fail
(assert (forall ((q_z_188 Int) (q_d_189 Slice_Int) (q_i_190 Int) (q_j_191 Int) (q_v_192 Any)) (! (=> (D (select H_zeroOrOneExpr_expr@pre q_z_188) q_d_189 q_i_190 true q_j_191 q_v_192) (D (box_Int 13 q_z_188) q_d_189 q_i_190 true q_j_191 q_v_192)) :pattern ((D (select H_zeroOrOneExpr_expr@pre q_z_188) q_d_189 q_i_190 true q_j_191 q_v_192))))) ; axiom opt-some
(assert (forall ((q_z_193 Int) (q_d_194 Slice_Int) (q_i_195 Int) (q_v_196 Any)) (! (=> (D (select H_zeroOrOneExpr_expr@pre q_z_193) q_d_194 q_i_195 false q_i_195 q_v_196) (D (box_Int 13 q_z_193) q_d_194 q_i_195 true q_i_195 nilAny)) :pattern ((D (select H_zeroOrOneExpr_expr@pre q_z_193) q_d_194 q_i_195 false q_i_195 q_v_196))))) ; axiom opt-none
(assert (forall ((q_l_197 Int) (q_d_198 Slice_Int) (q_i_199 Int) (q_ok_200 Bool) (q_j_201 Int) (q_v_202 Any)) (! (=> (D (select H_labeledExpr_expr@pre q_l_197) q_d_198 q_i_199 q_ok_200 q_j_201 q_v_202) (D (box_Int 14 q_l_197) q_d_198 q_i_199 q_ok_200 q_j_201 q_v_202)) :pattern ((D (select H_labeledExpr_expr@pre q_l_197) q_d_198 q_i_199 q_ok_200 q_j_201 q_v_202))))) ; axiom label-intro
(assert (forall ((q_a_203 Int) (q_d_204 Slice_Int) (q_i_205 Int) (q_j_206 Int) (q_v_207 Any) (q_w_208 Any)) (! (=> (D (select H_actionExpr_expr@pre q_a_203) q_d_204 q_i_205 true q_j_206 q_v_207) (D (box_Int 15 q_a_203) q_d_204 q_i_205 true q_j_206 q_w_208)) :pattern ((D (select H_actionExpr_expr@pre q_a_203) q_d_204 q_i_205 true q_j_206 q_v_207) (D (box_Int 15 q_a_203) q_d_204 q_i_205 true q_j_206 q_w_208))))) ; axiom action-ok
(assert (forall ((q_a_209 Int) (q_d_210 Slice_Int) (q_i_211 Int) (q_v_212 Any)) (! (=> (D (select H_actionExpr_expr@pre q_a_209) q_d_210 q_i_211 false q_i_211 q_v_212) (D (box_Int 15 q_a_209) q_d_210 q_i_211 false q_i_211 nilAny)) :pattern ((D (select H_actionExpr_expr@pre q_a_209) q_d_210 q_i_211 false q_i_211 q_v_212))))) ; axiom action-fail
(assert (forall ((q_a_213 Int) (q_d_214 Slice_Int) (q_i_215 Int) (q_ok_216 Bool)) (! (D (box_Int 16 q_a_213) q_d_214 q_i_215 q_ok_216 q_i_215 nilAny) :pattern ((D (box_Int 16 q_a_213) q_d_214 q_i_215 q_ok_216 q_i_215 nilAny))))) ; axiom andcode
(assert (forall ((q_a_217 Int) (q_d_218 Slice_Int) (q_i_219 Int) (q_ok_220 Bool)) (! (D (box_Int 17 q_a_217) q_d_218 q_i_219 q_ok_220 q_i_219 nilAny) :pattern ((D (box_Int 17 q_a_217) q_d_218 q_i_219 q_ok_220 q_i_219 nilAny))))) ; axiom notcode
(assert (forall ((q_a_221 Int) (q_d_222 Slice_Int) (q_i_223 Int)) (! (D (box_Int 18 q_a_221) q_d_222 q_i_223 true q_i_223 nilAny) :pattern ((D (box_Int 18 q_a_221) q_d_222 q_i_223 true q_i_223 nilAny))))) ; axiom statecode
(assert (forall ((q_t_224 Int) (q_d_225 Slice_Int) (q_i_226 Int) (q_ok_227 Bool) (q_j_228 Int) (q_v_229 Any)) (! (D (box_Int 19 q_t_224) q_d_225 q_i_226 q_ok_227 q_j_228 q_v_229) :pattern ((D (box_Int 19 q_t_224) q_d_225 q_i_226 q_ok_227 q_j_228 q_v_229))))) ; axiom throw-any
(assert (forall ((q_r_230 Int) (q_d_231 Slice_Int) (q_i_232 Int) (q_ok_233 Bool) (q_j_234 Int) (q_v_235 Any)) (! (D (box_Int 20 q_r_230) q_d_231 q_i_232 q_ok_233 q_j_234 q_v_235) :pattern ((D (box_Int 20 q_r_230) q_d_231 q_i_232 q_ok_233 q_j_234 q_v_235))))) ; axiom recovery-any
(assert (forall ((q_rs_236 Slice_Int) (q_l_237 Str) (q_d_238 Slice_Int) (q_i_239 Int)) (! (ThrowPre q_rs_236 (- (len_Slice_Int q_rs_236) 1) q_l_237 q_d_238 q_i_239) :pattern ((ThrowPre q_rs_236 (- (len_Slice_Int q_rs_236) 1) q_l_237 q_d_238 q_i_239))))) ; axiom throw-base
(assert (forall ((q_e_240 Any)) (! (= (IsNode q_e_240) (or (or (or (or (or (or (or (or (or (or (or (or (or (or (or (or (or (and (= (typeOf q_e_240) 15) (not (= (unbox_Int q_e_240) 0))) (and (= (typeOf q_e_240) 16) (not (= (unbox_Int q_e_240) 0)))) (and (= (typeOf q_e_240) 9) (not (= (unbox_Int q_e_240) 0)))) (and (= (typeOf q_e_240) 5) (not (= (unbox_Int q_e_240) 0)))) (and (= (typeOf q_e_240) 4) (not (= (unbox_Int q_e_240) 0)))) (and (= (typeOf q_e_240) 8) (not (= (unbox_Int q_e_240) 0)))) (and (= (typeOf q_e_240) 14) (not (= (unbox_Int q_e_240) 0)))) (and (= (typeOf q_e_240) 3) (not (= (unbox_Int q_e_240) 0)))) (and (= (typeOf q_e_240) 17) (not (= (unbox_Int q_e_240) 0)))) (and (= (typeOf q_e_240) 10) (not (= (unbox_Int q_e_240) 0)))) (and (= (typeOf q_e_240) 12) (not (= (unbox_Int q_e_240) 0)))) (and (= (typeOf q_e_240) 20) (not (= (unbox_Int q_e_240) 0)))) (and (= (typeOf q_e_240) 1) (not (= (unbox_Int q_e_240) 0)))) (and (= (typeOf q_e_240) 6) (not (= (unbox_Int q_e_240) 0)))) (and (= (typeOf q_e_240) 18) (not (= (unbox_Int q_e_240) 0)))) (and (= (typeOf q_e_240) 19) (not (= (unbox_Int q_e_240) 0)))) (and (= (typeOf q_e_240) 11) (not (= (unbox_Int q_e_240) 0)))) (and (= (typeOf q_e_240) 13) (not (= (unbox_Int q_e_240) 0))))) :pattern ((IsNode q_e_240))))) ; axiom node-def
(assert (forall ((q_a_241 Int)) (! (=> (not (= q_a_241 0)) (and (IsNode (select H_actionExpr_expr@pre q_a_241)) (not (= (select H_actionExpr_run@pre q_a_241) 0)))) :pattern ((select H_actionExpr_expr@pre q_a_241))))) ; axiom wf-action
(assert (forall ((q_a_242 Int)) (! (=> (not (= q_a_242 0)) (IsNode (select H_andExpr_expr@pre q_a_242))) :pattern ((select H_andExpr_expr@pre q_a_242))))) ; axiom wf-and
(assert (forall ((q_a_243 Int)) (! (=> (not (= q_a_243 0)) (IsNode (select H_notExpr_expr@pre q_a_243))) :pattern ((select H_notExpr_expr@pre q_a_243))))) ; axiom wf-not
(assert (forall ((q_a_244 Int)) (! (=> (not (= q_a_244 0)) (IsNode (select H_zeroOrOneExpr_expr@pre q_a_244))) :pattern ((select H_zeroOrOneExpr_expr@pre q_a_244))))) ; axiom wf-opt
(assert (forall ((q_a_245 Int)) (! (=> (not (= q_a_245 0)) (IsNode (select H_zeroOrMoreExpr_expr@pre q_a_245))) :pattern ((select H_zeroOrMoreExpr_expr@pre q_a_245))))) ; axiom wf-star
(assert (forall ((q_a_246 Int)) (! (=> (not (= q_a_246 0)) (IsNode (select H_oneOrMoreExpr_expr@pre q_a_246))) :pattern ((select H_oneOrMoreExpr_expr@pre q_a_246))))) ; axiom wf-plus
(assert (forall ((q_a_247 Int)) (! (=> (not (= q_a_247 0)) (IsNode (select H_labeledExpr_expr@pre q_a_247))) :pattern ((select H_labeledExpr_expr@pre q_a_247))))) ; axiom wf-label
(assert (forall ((q_a_248 Int)) (! (=> (not (= q_a_248 0)) (IsNode (select H_recoveryExpr_expr@pre q_a_248))) :pattern ((select H_recoveryExpr_expr@pre q_a_248))))) ; axiom wf-recovery
(assert (forall ((q_a_249 Int)) (! (=> (not (= q_a_249 0)) (IsNode (select H_recoveryExpr_recoverExpr@pre q_a_249))) :pattern ((select H_recoveryExpr_recoverExpr@pre q_a_249))))) ; axiom wf-recovery2
(assert (forall ((q_c_250 Int) (q_r_251 Int)) (! (=> (and (and (<= (- 2147483648) q_r_251) (<= q_r_251 2147483647)) true) (=> (and (and (not (= q_c_250 0)) (<= 0 q_r_251)) (< q_r_251 128)) (= (select (select H_charClassMatcher_basicLatinChars@pre q_c_250) q_r_251) (or (or (exists ((q_k_252 Int)) (and (and (<= 0 q_k_252) (< q_k_252 (len_Slice_Int (select H_charClassMatcher_chars@pre q_c_250)))) (= (elem_Slice_Int (select H_charClassMatcher_chars@pre q_c_250) q_k_252) (ite (select H_charClassMatcher_ignoreCase@pre q_c_250) (toLower q_r_251) q_r_251)))) (exists ((q_k_253 Int)) (and (and (and (<= 0 q_k_253) (< (+ (* 2 q_k_253) 1) (len_Slice_Int (select H_charClassMatcher_ranges@pre q_c_250)))) (<= (elem_Slice_Int (select H_charClassMatcher_ranges@pre q_c_250) (* 2 q_k_253)) (ite (select H_charClassMatcher_ignoreCase@pre q_c_250) (toLower q_r_251) q_r_251))) (<= (ite (select H_charClassMatcher_ignoreCase@pre q_c_250) (toLower q_r_251) q_r_251) (elem_Slice_Int (select H_charClassMatcher_ranges@pre q_c_250) (+ (* 2 q_k_253) 1)))))) (exists ((q_k_254 Int)) (and (and (<= 0 q_k_254) (< q_k_254 (len_Slice_Int (select H_charClassMatcher_classes@pre q_c_250)))) (uniIs (elem_Slice_Int (select H_charClassMatcher_classes@pre q_c_250) q_k_254) (ite (select H_charClassMatcher_ignoreCase@pre q_c_250) (toLower q_r_251) q_r_251)))))))) :pattern ((select (select H_charClassMatcher_basicLatinChars@pre q_c_250) q_r_251))))) ; axiom wf-bltable
(assert (forall ((q_o_255 Slice_Any) (q_a_256 (Array Int Any))) (! (KeptE q_o_255 0 q_a_256 0) :pattern ((KeptE q_o_255 0 q_a_256 0))))) ; axiom kepte-base
(assert (= (toLower 65533) 65533)) ; axiom tolower-fffd
(assert (forall ((q_d_257 Slice_Int)) (! (and (and (bnd q_d_257 0) (= (lineAt q_d_257 0) (ite (= (decR (mk_Slice_Int (arr_Slice_Int q_d_257) (+ (off_Slice_Int q_d_257) 0) (- (len_Slice_Int q_d_257) 0) (- (cap_Slice_Int q_d_257) 0))) 10) 2 1))) (= (colAt q_d_257 0) (ite (= (decR (mk_Slice_Int (arr_Slice_Int q_d_257) (+ (off_Slice_Int q_d_257) 0) (- (len_Slice_Int q_d_257) 0) (- (cap_Slice_Int q_d_257) 0))) 10) 0 1))) :pattern ((bnd q_d_257 0))))) ; axiom pos-base
(assert (forall ((q_l_258 Int) (q_d_259 Slice_Int) (q_i_260 Int)) (! (LitPre q_l_258 q_d_259 0 q_i_260 q_i_260) :pattern ((LitPre q_l_258 q_d_259 0 q_i_260 q_i_260))))) ; axiom lit-base
(assert (forall ((q_s_261 Int) (q_d_262 Slice_Int) (q_i_263 Int) (q_a_264 (Array Int Any))) (! (SeqPre q_s_261 q_d_262 0 q_i_263 q_i_263 q_a_264) :pattern ((SeqPre q_s_261 q_d_262 0 q_i_263 q_i_263 q_a_264))))) ; axiom seq-base
(assert (forall ((q_c_265 Int) (q_d_266 Slice_Int) (q_i_267 Int)) (! (ChoicePre q_c_265 q_d_266 0 q_i_267) :pattern ((ChoicePre q_c_265 q_d_266 0 q_i_267))))) ; axiom choice-base
(assert (forall ((q_e_268 Any) (q_d_269 Slice_Int) (q_i_270 Int) (q_a_271 (Array Int Any))) (! (RepPre q_e_268 q_d_269 0 q_i_270 q_i_270 q_a_271) :pattern ((RepPre q_e_268 q_d_269 0 q_i_270 q_i_270 q_a_271))))) ; axiom rep-base
(assert (forall ((r Int)) (! (and (<= 0 (len_Slice_Any (select H_seqExpr_exprs@pre r))) (<= (len_Slice_Any (select H_seqExpr_exprs@pre r)) (cap_Slice_Any (select H_seqExpr_exprs@pre r))) (<= 0 (off_Slice_Any (select H_seqExpr_exprs@pre r)))) :pattern ((select H_seqExpr_exprs@pre r)))))
(assert (forall ((r Int)) (! (and (<= 0 (len_Slice_Any (select H_choiceExpr_alternatives@pre r))) (<= (len_Slice_Any (select H_choiceExpr_alternatives@pre r)) (cap_Slice_Any (select H_choiceExpr_alternatives@pre r))) (<= 0 (off_Slice_Any (select H_choiceExpr_alternatives@pre r)))) :pattern ((select H_choiceExpr_alternatives@pre r)))))
(assert (forall ((r Int)) (! (and (<= 0 (len_Slice_Int (select H_charClassMatcher_ranges@pre r))) (<= (len_Slice_Int (select H_charClassMatcher_ranges@pre r)) (cap_Slice_Int (select H_charClassMatcher_ranges@pre r))) (<= 0 (off_Slice_Int (select H_charClassMatcher_ranges@pre r)))) :pattern ((select H_charClassMatcher_ranges@pre r)))))
(assert (forall ((r Int)) (! (and (<= 0 (len_Slice_Int (select H_grammar_rules@pre r))) (<= (len_Slice_Int (select H_grammar_rules@pre r)) (cap_Slice_Int (select H_grammar_rules@pre r))) (<= 0 (off_Slice_Int (select H_grammar_rules@pre r)))) :pattern ((select H_grammar_rules@pre r)))))
(assert (forall ((r Int)) (! (and (<= 0 (len_Slice_Int (select H_charClassMatcher_chars@pre r))) (<= (len_Slice_Int (select H_charClassMatcher_chars@pre r)) (cap_Slice_Int (select H_charClassMatcher_chars@pre r))) (<= 0 (off_Slice_Int (select H_charClassMatcher_chars@pre r)))) :pattern ((select H_charClassMatcher_chars@pre r)))))
(assert (forall ((r Int)) (! (and (<= 0 (len_Slice_Int (select H_charClassMatcher_classes@pre r))) (<= (len_Slice_Int (select H_charClassMatcher_classes@pre r)) (cap_Slice_Int (select H_charClassMatcher_classes@pre r))) (<= 0 (off_Slice_Int (select H_charClassMatcher_classes@pre r)))) :pattern ((select H_charClassMatcher_classes@pre r)))))
(assert (or (= in_p 0) (select Alloc@pre in_p)))
(assert (or (= in_state 0) (select Alloc@pre in_state)))
(assert (and (not (= in_p 0)) (and (and (and (and (not (= (S_current_state (select H_parser_cur@pre in_p)) 0)) (select Alloc@pre (S_current_state (select H_parser_cur@pre in_p)))) (not (= (S_current_globalStore (select H_parser_cur@pre in_p)) 0))) (select Alloc@pre (S_current_globalStore (select H_parser_cur@pre in_p)))) (not (= (S_current_state (select H_parser_cur@pre in_p)) (S_current_globalStore (select H_parser_cur@pre in_p)))))))
(assert (and (and (and (not (= in_state 0)) (select Alloc@pre in_state)) (not (= in_state (S_current_state (select H_parser_cur@pre in_p))))) (not (= in_state (S_current_globalStore (select H_parser_cur@pre in_p))))))
(assert (select H_parser_debug@pre in_p))
(assert (not (= in_p 0)))
(assert (= H_parser_depth!2 (store H_parser_depth@pre in_p hv!1)))
(assert (forall ((r Int)) (! (=> (select Alloc@pre r) (select Alloc!3 r)) :pattern ((select Alloc!3 r)))))
(assert (= ret_parser_in!4 str!0))
(assert (= dom0!5 (select Mdom_storeDict@pre in_state)))
(assert (forall ((k Str)) (! (=> (select visited1!8 k) (select dom0!5 k)) :pattern ((select visited1!8 k)))))
(assert (= visited1!8 dom0!5))
(assert (not (= in_state 0)))
(assert (= Mdom_storeDict!24 (store Mdom_storeDict!6 in_state hv!23)))
(assert (not (or (= in_state (S_current_state (select H_parser_cur@pre in_p))) (not (select Alloc@pre in_state)) false)))
(check-sat)
(get-value (in_p in_state))
