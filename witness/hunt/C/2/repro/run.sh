#!/bin/sh
# usage: run.sh <pigeon source tree>
# exit 0: violation observed, exit 1: not observed (or the tooling failed)
set -u
SRC=${1:?usage: run.sh <pigeon source tree>}
export GOFLAGS=-mod=mod GOPROXY=off GOSUMDB=off GOTOOLCHAIN=local
GO=${GO:-go1.26}
HERE=$(cd "$(dirname "$0")" && pwd)
W=$(mktemp -d)
trap 'rm -rf "$W"' EXIT
(cd "$SRC" && $GO build -o "$W/pigeon" .) || { echo "cannot build pigeon"; exit 1; }
P="$W/pigeon"

# gen_build <dir> <grammar> <flags...>: generate a parser and build $W/<dir>/demo.
# memoOpts() yields Memoize(true) unless the parser is built with -optimize-parser
# (which removes the option).
gen_build() {
	d="$W/$1"; g="$2"; shift 2
	mkdir -p "$d"
	printf 'module demo\n\ngo 1.25\n' > "$d/go.mod"
	cp "$HERE/main.go" "$d/main.go"
	case " $* " in
	*" -optimize-parser "*) printf 'package main\n\nfunc memoOpts() []Option { return nil }\n' > "$d/memo.go" ;;
	*) printf 'package main\n\nfunc memoOpts() []Option { return []Option{Memoize(true)} }\n' > "$d/memo.go" ;;
	esac
	"$P" "$@" -o "$d/parser.go" "$g" || return 1
	(cd "$d" && $GO build -o demo .) || return 1
}

# finding 2: with Memoize OFF, a left-recursive (leader) rule that is invoked a second time at
# the same offset (after ordinary PEG backtracking) is answered from the left-recursion memo and
# the state changes it made are not re-applied.
gen_build lr  "$HERE/state_min.peg"      -support-left-recursion || exit 1
gen_build it  "$HERE/state_min_iter.peg"                          || exit 1
gen_build lre "$HERE/state_expr.peg"     -support-left-recursion || exit 1
gen_build ite "$HERE/state_expr_iter.peg"                         || exit 1
gen_build lro "$HERE/state_expr.peg"     -support-left-recursion -optimize-parser || exit 1

echo "-- minimal, left-recursive A (Memoize off):";  L=$("$W/lr/demo" plain yxxq yxxr); echo "$L"
echo "-- minimal, iterative A (Memoize off):";        I=$("$W/it/demo" plain yxxq yxxr); echo "$I"
echo "-- expression grammar, left-recursive (Memoize off):"; LE=$("$W/lre/demo" plain '1+2' '(1)+2' '(1)+(2)' '(1)!+2'); echo "$LE"
echo "-- expression grammar, left-recursive, -optimize-parser:"; LO=$("$W/lro/demo" plain '1+2' '(1)+2' '(1)+(2)' '(1)!+2'); echo "$LO"
echo "-- expression grammar, iterative (Memoize off):";      IE=$("$W/ite/demo" plain '1+2' '(1)+2' '(1)+(2)' '(1)!+2'); echo "$IE"

if [ "$L" != "$I" ] || [ "$LE" != "$IE" ] || [ "$LO" != "$IE" ]; then
	echo "VIOLATION: state changes made by a left-recursive rule are lost when it is re-invoked at the same offset"
	exit 0
fi
echo "not observed"
exit 1
