; obligation ast:RecoveryExpr.InitialNames:ensures[first]
; clause: fresh(names) && forall nm string :: {has(names, nm)} has(names, nm) == InFirst(r, nm)
; at return at ast.go:265
; path: loop#1 exit / then@ast.go:263 / return at ast.go:265
(set-option :produce-models true)
(set-logic ALL)
(declare-sort Str 0)
(declare-sort Any 0)
(declare-datatypes ((S_anon_struct__ 0)) (((mk_S_anon_struct__ (S_anon_struct____unit Int)))))
(declare-datatypes ((Slice_Any 0)) (((mk_Slice_Any (arr_Slice_Any (Array Int Any)) (off_Slice_Any Int) (len_Slice_Any Int) (cap_Slice_Any Int)))))
(declare-datatypes ((Slice_Int 0)) (((mk_Slice_Int (arr_Slice_Int (Array Int Int)) (off_Slice_Int Int) (len_Slice_Int Int) (cap_Slice_Int Int)))))
(declare-datatypes ((S_Pos 0)) (((mk_S_Pos (S_Pos_Filename Str) (S_Pos_Line Int) (S_Pos_Col Int) (S_Pos_Off Int)))))
(declare-datatypes ((S_posValue 0)) (((mk_S_posValue (S_posValue_p S_Pos) (S_posValue_Val Str)))))
(declare-datatypes ((Slice_Str 0)) (((mk_Slice_Str (arr_Slice_Str (Array Int Str)) (off_Slice_Str Int) (len_Slice_Str Int) (cap_Slice_Str Int)))))
(declare-fun typeOf (Any) Int)
(declare-const nilAny Any)
(declare-fun slen (Str) Int)
(declare-const emptyStr Str)
(declare-fun scat (Str Str) Str)
(declare-fun runeCount (Str) Int)
(declare-fun runeOf (Str Int) Int)
(declare-fun sle (Str Str) Bool)
(declare-fun card_Str ((Array Str Bool)) Int)
(declare-fun wit_Str ((Array Str Bool)) Str)
(declare-fun elem_Slice_Any (Slice_Any Int) Any)
(declare-fun IsExpr (Any) Bool)
(declare-fun elem_Slice_Int (Slice_Int Int) Int)
(declare-fun InFirst (Any Str) Bool)
(declare-fun NF (Any) Bool)
(declare-fun box_Int (Int Int) Any)
(declare-fun unbox_Int (Any) Int)
(declare-fun KeptR (Slice_Int Int (Array Int Int) Int) Bool)
(declare-fun decR (Slice_Int) Int)
(declare-fun decW (Slice_Int) Int)
(declare-const in_r Int)
(declare-const Alloc@pre (Array Int Bool))
(declare-const H_ChoiceExpr_Alternatives@pre (Array Int Slice_Any))
(declare-const H_SeqExpr_Exprs@pre (Array Int Slice_Any))
(declare-const H_ActionExpr_Expr@pre (Array Int Any))
(declare-const H_LabeledExpr_Expr@pre (Array Int Any))
(declare-const H_AndExpr_Expr@pre (Array Int Any))
(declare-const H_NotExpr_Expr@pre (Array Int Any))
(declare-const H_ZeroOrOneExpr_Expr@pre (Array Int Any))
(declare-const H_ZeroOrMoreExpr_Expr@pre (Array Int Any))
(declare-const H_OneOrMoreExpr_Expr@pre (Array Int Any))
(declare-const H_RecoveryExpr_Expr@pre (Array Int Any))
(declare-const H_RecoveryExpr_RecoverExpr@pre (Array Int Any))
(declare-const H_RuleRefExpr_Name@pre (Array Int Int))
(declare-const H_Rule_Expr@pre (Array Int Any))
(declare-const H_Rule_Name@pre (Array Int Int))
(declare-const H_Grammar_Rules@pre (Array Int Slice_Int))
(declare-const map!1 Int)
(declare-const Alloc!2 (Array Int Bool))
(declare-const Mdom_map_string_struct__@pre (Array Int (Array Str Bool)))
(declare-const Mdom_map_string_struct__!3 (Array Int (Array Str Bool)))
(declare-const Alloc!4 (Array Int Bool))
(declare-const ret_Expression_InitialNames!5 Int)
(declare-const dom0!6 (Array Str Bool))
(declare-const Mdom_map_string_struct__!7 (Array Int (Array Str Bool)))
(declare-const Mval_map_string_struct__@pre (Array Int (Array Str S_anon_struct__)))
(declare-const Mval_map_string_struct__!8 (Array Int (Array Str S_anon_struct__)))
(declare-const visited1!9 (Array Str Bool))
(declare-const key!10 Str)
(declare-const Mdom_map_string_struct__!11 (Array Int (Array Str Bool)))
(declare-const Mval_map_string_struct__!12 (Array Int (Array Str S_anon_struct__)))
(declare-const visited1!13 (Array Str Bool))
(declare-const ret_Expression_IsNullable!14 Bool)
(declare-const Alloc!15 (Array Int Bool))
(declare-const ret_Expression_InitialNames!16 Int)
(declare-const dom0!17 (Array Str Bool))
(declare-const Mdom_map_string_struct__!18 (Array Int (Array Str Bool)))
(declare-const Mval_map_string_struct__!19 (Array Int (Array Str S_anon_struct__)))
(declare-const visited2!20 (Array Str Bool))
(declare-const key!21 Str)
(declare-const Mdom_map_string_struct__!22 (Array Int (Array Str Bool)))
(declare-const Mval_map_string_struct__!23 (Array Int (Array Str S_anon_struct__)))
(declare-const visited2!24 (Array Str Bool))
(declare-const H_ChoiceExpr_Nullable@pre (Array Int Bool))
(declare-const H_SeqExpr_Nullable@pre (Array Int Bool))
(declare-const H_ActionExpr_Nullable@pre (Array Int Bool))
(declare-const H_RecoveryExpr_Nullable@pre (Array Int Bool))
(declare-const H_RuleRefExpr_Nullable@pre (Array Int Bool))
(declare-const H_Rule_Nullable@pre (Array Int Bool))
(declare-const H_LitMatcher_posValue@pre (Array Int S_posValue))
(declare-const H_CharClassMatcher_Chars@pre (Array Int Slice_Int))
(declare-const H_CharClassMatcher_Ranges@pre (Array Int Slice_Int))
(declare-const H_CharClassMatcher_UnicodeClasses@pre (Array Int Slice_Str))
(declare-const H_Identifier_posValue@pre (Array Int S_posValue))
(assert (= (typeOf nilAny) 0))
(assert (forall ((x Any)) (! (=> (= (typeOf x) 0) (= x nilAny)) :pattern ((typeOf x)))))
(assert (forall ((s Str)) (! (>= (slen s) 0) :pattern ((slen s)))))
(assert (= (slen emptyStr) 0))
(assert (forall ((s Str)) (! (=> (= (slen s) 0) (= s emptyStr)) :pattern ((slen s)))))
(assert (forall ((a Str) (b Str)) (! (= (slen (scat a b)) (+ (slen a) (slen b))) :pattern ((scat a b)))))
(assert (forall ((a Str) (b Str) (c Str)) (! (=> (= (scat a b) (scat a c)) (= b c)) :pattern ((scat a b) (scat a c)))))
(assert (forall ((a Str) (b Str) (c Str)) (! (= (scat (scat a b) c) (scat a (scat b c))) :pattern ((scat (scat a b) c)))))
(assert (forall ((a Str)) (! (= (scat a emptyStr) a) :pattern ((scat a emptyStr)))))
(assert (forall ((a Str)) (! (= (scat emptyStr a) a) :pattern ((scat emptyStr a)))))
(assert (forall ((s Str)) (! (>= (runeCount s) 0) :pattern ((runeCount s)))))
(assert (forall ((a Str)) (! (sle a a) :pattern ((sle a a)))))
(assert (forall ((a Str) (b Str)) (! (or (sle a b) (sle b a)) :pattern ((sle a b)))))
(assert (forall ((a Str) (b Str)) (! (=> (and (sle a b) (sle b a)) (= a b)) :pattern ((sle a b) (sle b a)))))
(assert (forall ((a Str) (b Str) (c Str)) (! (=> (and (sle a b) (sle b c)) (sle a c)) :pattern ((sle a b) (sle b c)))))
(assert (forall ((d (Array Str Bool))) (! (>= (card_Str d) 0) :pattern ((card_Str d)))))
(assert (= (card_Str ((as const (Array Str Bool)) false)) 0))
(assert (forall ((d (Array Str Bool)) (k Str)) (! (=> (= (card_Str d) 0) (not (select d k))) :pattern ((card_Str d) (select d k)))))
(assert (forall ((d (Array Str Bool))) (! (=> (= (card_Str d) 0) (= d ((as const (Array Str Bool)) false))) :pattern ((card_Str d)))))
(assert (forall ((d (Array Str Bool))) (! (=> (> (card_Str d) 0) (select d (wit_Str d))) :pattern ((card_Str d)))))
(assert (forall ((d (Array Str Bool)) (a Str) (b Str)) (! (=> (and (= (card_Str d) 1) (select d a) (select d b)) (= a b)) :pattern ((card_Str d) (select d a) (select d b)))))
(assert (forall ((d (Array Str Bool)) (k Str)) (! (= (card_Str (store d k true)) (ite (select d k) (card_Str d) (+ (card_Str d) 1))) :pattern ((card_Str (store d k true))))))
(assert (forall ((d (Array Str Bool)) (k Str)) (! (= (card_Str (store d k false)) (ite (select d k) (- (card_Str d) 1) (card_Str d))) :pattern ((card_Str (store d k false))))))
(assert (forall ((s Slice_Any) (i Int)) (! (= (elem_Slice_Any s i) (select (arr_Slice_Any s) (+ (off_Slice_Any s) i))) :pattern ((elem_Slice_Any s i)))))
(assert (forall ((s Slice_Int) (i Int)) (! (= (elem_Slice_Int s i) (select (arr_Slice_Int s) (+ (off_Slice_Int s) i))) :pattern ((elem_Slice_Int s i)))))
(assert (forall ((t Int) (v Int)) (! (=> (> t 0) (= (typeOf (box_Int t v)) t)) :pattern ((box_Int t v)))))
(assert (forall ((t Int) (v Int)) (! (=> (> t 0) (= (unbox_Int (box_Int t v)) v)) :pattern ((box_Int t v)))))
(assert (forall ((q_c_89 Int)) (! (= (NF (box_Int 2 q_c_89)) (select H_ChoiceExpr_Nullable@pre q_c_89)) :pattern ((NF (box_Int 2 q_c_89)))))) ; axiom nf-choice
(assert (forall ((q_c_90 Int)) (! (= (NF (box_Int 3 q_c_90)) (select H_SeqExpr_Nullable@pre q_c_90)) :pattern ((NF (box_Int 3 q_c_90)))))) ; axiom nf-seq
(assert (forall ((q_c_91 Int)) (! (= (NF (box_Int 4 q_c_91)) (select H_ActionExpr_Nullable@pre q_c_91)) :pattern ((NF (box_Int 4 q_c_91)))))) ; axiom nf-action
(assert (forall ((q_c_92 Int)) (! (= (NF (box_Int 1 q_c_92)) (select H_RecoveryExpr_Nullable@pre q_c_92)) :pattern ((NF (box_Int 1 q_c_92)))))) ; axiom nf-recovery
(assert (forall ((q_c_93 Int)) (! (= (NF (box_Int 5 q_c_93)) (select H_RuleRefExpr_Nullable@pre q_c_93)) :pattern ((NF (box_Int 5 q_c_93)))))) ; axiom nf-ruleref
(assert (forall ((q_c_94 Int)) (! (= (NF (box_Int 6 q_c_94)) (select H_Rule_Nullable@pre q_c_94)) :pattern ((NF (box_Int 6 q_c_94)))))) ; axiom nf-rule
(assert (forall ((q_c_95 Int)) (! (= (NF (box_Int 7 q_c_95)) (NF (select H_LabeledExpr_Expr@pre q_c_95))) :pattern ((NF (box_Int 7 q_c_95)))))) ; axiom nf-labeled
(assert (forall ((q_c_96 Int)) (! (= (NF (box_Int 8 q_c_96)) (NF (select H_OneOrMoreExpr_Expr@pre q_c_96))) :pattern ((NF (box_Int 8 q_c_96)))))) ; axiom nf-plus
(assert (forall ((q_c_97 Int)) (! (NF (box_Int 9 q_c_97)) :pattern ((NF (box_Int 9 q_c_97)))))) ; axiom nf-and
(assert (forall ((q_c_98 Int)) (! (NF (box_Int 10 q_c_98)) :pattern ((NF (box_Int 10 q_c_98)))))) ; axiom nf-not
(assert (forall ((q_c_99 Int)) (! (NF (box_Int 11 q_c_99)) :pattern ((NF (box_Int 11 q_c_99)))))) ; axiom nf-opt
(assert (forall ((q_c_100 Int)) (! (NF (box_Int 12 q_c_100)) :pattern ((NF (box_Int 12 q_c_100)))))) ; axiom nf-star
(assert (forall ((q_c_101 Int)) (! (NF (box_Int 13 q_c_101)) :pattern ((NF (box_Int 13 q_c_101)))))) ; axiom nf-throw
(assert (forall ((q_c_102 Int)) (! (NF (box_Int 14 q_c_102)) :pattern ((NF (box_Int 14 q_c_102)))))) ; axiom nf-state
(assert (forall ((q_c_103 Int)) (! (NF (box_Int 15 q_c_103)) :pattern ((NF (box_Int 15 q_c_103)))))) ; axiom nf-andcode
(assert (forall ((q_c_104 Int)) (! (NF (box_Int 16 q_c_104)) :pattern ((NF (box_Int 16 q_c_104)))))) ; axiom nf-notcode
(assert (forall ((q_c_105 Int)) (! (= (NF (box_Int 17 q_c_105)) (= (slen (S_posValue_Val (select H_LitMatcher_posValue@pre q_c_105))) 0)) :pattern ((NF (box_Int 17 q_c_105)))))) ; axiom nf-lit
(assert (forall ((q_c_106 Int)) (! (= (NF (box_Int 18 q_c_106)) (and (and (= (len_Slice_Int (select H_CharClassMatcher_Chars@pre q_c_106)) 0) (= (len_Slice_Int (select H_CharClassMatcher_Ranges@pre q_c_106)) 0)) (= (len_Slice_Str (select H_CharClassMatcher_UnicodeClasses@pre q_c_106)) 0))) :pattern ((NF (box_Int 18 q_c_106)))))) ; axiom nf-class
(assert (forall ((q_c_107 Int)) (! (not (NF (box_Int 19 q_c_107))) :pattern ((NF (box_Int 19 q_c_107)))))) ; axiom nf-any
(assert (forall ((q_c_108 Int) (q_n_109 Str)) (! (= (InFirst (box_Int 2 q_c_108) q_n_109) (exists ((q_k_110 Int)) (and (and (<= 0 q_k_110) (< q_k_110 (len_Slice_Any (select H_ChoiceExpr_Alternatives@pre q_c_108)))) (InFirst (elem_Slice_Any (select H_ChoiceExpr_Alternatives@pre q_c_108) q_k_110) q_n_109)))) :pattern ((InFirst (box_Int 2 q_c_108) q_n_109))))) ; axiom first-choice
(assert (forall ((q_c_111 Int) (q_n_112 Str)) (! (= (InFirst (box_Int 3 q_c_111) q_n_112) (exists ((q_k_113 Int)) (and (and (and (<= 0 q_k_113) (< q_k_113 (len_Slice_Any (select H_SeqExpr_Exprs@pre q_c_111)))) (InFirst (elem_Slice_Any (select H_SeqExpr_Exprs@pre q_c_111) q_k_113) q_n_112)) (forall ((q_j_114 Int)) (=> (and (<= 0 q_j_114) (< q_j_114 q_k_113)) (NF (elem_Slice_Any (select H_SeqExpr_Exprs@pre q_c_111) q_j_114))))))) :pattern ((InFirst (box_Int 3 q_c_111) q_n_112))))) ; axiom first-seq
(assert (forall ((q_c_115 Int) (q_n_116 Str)) (! (= (InFirst (box_Int 4 q_c_115) q_n_116) (InFirst (select H_ActionExpr_Expr@pre q_c_115) q_n_116)) :pattern ((InFirst (box_Int 4 q_c_115) q_n_116))))) ; axiom first-action
(assert (forall ((q_c_117 Int) (q_n_118 Str)) (! (= (InFirst (box_Int 7 q_c_117) q_n_118) (InFirst (select H_LabeledExpr_Expr@pre q_c_117) q_n_118)) :pattern ((InFirst (box_Int 7 q_c_117) q_n_118))))) ; axiom first-labeled
(assert (forall ((q_c_119 Int) (q_n_120 Str)) (! (= (InFirst (box_Int 11 q_c_119) q_n_120) (InFirst (select H_ZeroOrOneExpr_Expr@pre q_c_119) q_n_120)) :pattern ((InFirst (box_Int 11 q_c_119) q_n_120))))) ; axiom first-opt
(assert (forall ((q_c_121 Int) (q_n_122 Str)) (! (= (InFirst (box_Int 12 q_c_121) q_n_122) (InFirst (select H_ZeroOrMoreExpr_Expr@pre q_c_121) q_n_122)) :pattern ((InFirst (box_Int 12 q_c_121) q_n_122))))) ; axiom first-star
(assert (forall ((q_c_123 Int) (q_n_124 Str)) (! (= (InFirst (box_Int 8 q_c_123) q_n_124) (InFirst (select H_OneOrMoreExpr_Expr@pre q_c_123) q_n_124)) :pattern ((InFirst (box_Int 8 q_c_123) q_n_124))))) ; axiom first-plus
(assert (forall ((q_c_125 Int) (q_n_126 Str)) (! (= (InFirst (box_Int 9 q_c_125) q_n_126) (InFirst (select H_AndExpr_Expr@pre q_c_125) q_n_126)) :pattern ((InFirst (box_Int 9 q_c_125) q_n_126))))) ; axiom first-and
(assert (forall ((q_c_127 Int) (q_n_128 Str)) (! (= (InFirst (box_Int 10 q_c_127) q_n_128) (InFirst (select H_NotExpr_Expr@pre q_c_127) q_n_128)) :pattern ((InFirst (box_Int 10 q_c_127) q_n_128))))) ; axiom first-not
(assert (forall ((q_c_129 Int) (q_n_130 Str)) (! (= (InFirst (box_Int 1 q_c_129) q_n_130) (or (InFirst (select H_RecoveryExpr_Expr@pre q_c_129) q_n_130) (InFirst (select H_RecoveryExpr_RecoverExpr@pre q_c_129) q_n_130))) :pattern ((InFirst (box_Int 1 q_c_129) q_n_130))))) ; axiom first-recovery
(assert (forall ((q_c_131 Int) (q_n_132 Str)) (! (= (InFirst (box_Int 5 q_c_131) q_n_132) (and (not (= (select H_RuleRefExpr_Name@pre q_c_131) 0)) (= q_n_132 (S_posValue_Val (select H_Identifier_posValue@pre (select H_RuleRefExpr_Name@pre q_c_131)))))) :pattern ((InFirst (box_Int 5 q_c_131) q_n_132))))) ; axiom first-ruleref
(assert (forall ((q_c_133 Int) (q_n_134 Str)) (! (= (InFirst (box_Int 6 q_c_133) q_n_134) (InFirst (select H_Rule_Expr@pre q_c_133) q_n_134)) :pattern ((InFirst (box_Int 6 q_c_133) q_n_134))))) ; axiom first-rule
(assert (forall ((q_c_135 Int) (q_n_136 Str)) (! (not (InFirst (box_Int 13 q_c_135) q_n_136)) :pattern ((InFirst (box_Int 13 q_c_135) q_n_136))))) ; axiom first-throw
(assert (forall ((q_c_137 Int) (q_n_138 Str)) (! (not (InFirst (box_Int 14 q_c_137) q_n_138)) :pattern ((InFirst (box_Int 14 q_c_137) q_n_138))))) ; axiom first-state
(assert (forall ((q_c_139 Int) (q_n_140 Str)) (! (not (InFirst (box_Int 15 q_c_139) q_n_140)) :pattern ((InFirst (box_Int 15 q_c_139) q_n_140))))) ; axiom first-andcode
(assert (forall ((q_c_141 Int) (q_n_142 Str)) (! (not (InFirst (box_Int 16 q_c_141) q_n_142)) :pattern ((InFirst (box_Int 16 q_c_141) q_n_142))))) ; axiom first-notcode
(assert (forall ((q_c_143 Int) (q_n_144 Str)) (! (not (InFirst (box_Int 17 q_c_143) q_n_144)) :pattern ((InFirst (box_Int 17 q_c_143) q_n_144))))) ; axiom first-lit
(assert (forall ((q_c_145 Int) (q_n_146 Str)) (! (not (InFirst (box_Int 18 q_c_145) q_n_146)) :pattern ((InFirst (box_Int 18 q_c_145) q_n_146))))) ; axiom first-class
(assert (forall ((q_c_147 Int) (q_n_148 Str)) (! (not (InFirst (box_Int 19 q_c_147) q_n_148)) :pattern ((InFirst (box_Int 19 q_c_147) q_n_148))))) ; axiom first-any
(assert (forall ((q_e_149 Any)) (! (= (IsExpr q_e_149) (or (or (or (or (or (or (or (or (or (or (or (or (or (or (or (or (or (and (= (typeOf q_e_149) 2) (not (= (unbox_Int q_e_149) 0))) (and (= (typeOf q_e_149) 3) (not (= (unbox_Int q_e_149) 0)))) (and (= (typeOf q_e_149) 4) (not (= (unbox_Int q_e_149) 0)))) (and (= (typeOf q_e_149) 7) (not (= (unbox_Int q_e_149) 0)))) (and (= (typeOf q_e_149) 9) (not (= (unbox_Int q_e_149) 0)))) (and (= (typeOf q_e_149) 10) (not (= (unbox_Int q_e_149) 0)))) (and (= (typeOf q_e_149) 11) (not (= (unbox_Int q_e_149) 0)))) (and (= (typeOf q_e_149) 12) (not (= (unbox_Int q_e_149) 0)))) (and (= (typeOf q_e_149) 8) (not (= (unbox_Int q_e_149) 0)))) (and (= (typeOf q_e_149) 1) (not (= (unbox_Int q_e_149) 0)))) (and (= (typeOf q_e_149) 5) (not (= (unbox_Int q_e_149) 0)))) (and (= (typeOf q_e_149) 13) (not (= (unbox_Int q_e_149) 0)))) (and (= (typeOf q_e_149) 14) (not (= (unbox_Int q_e_149) 0)))) (and (= (typeOf q_e_149) 15) (not (= (unbox_Int q_e_149) 0)))) (and (= (typeOf q_e_149) 16) (not (= (unbox_Int q_e_149) 0)))) (and (= (typeOf q_e_149) 17) (not (= (unbox_Int q_e_149) 0)))) (and (= (typeOf q_e_149) 18) (not (= (unbox_Int q_e_149) 0)))) (and (= (typeOf q_e_149) 19) (not (= (unbox_Int q_e_149) 0))))) :pattern ((IsExpr q_e_149))))) ; axiom isexpr-def
(assert (forall ((q_o_150 Slice_Int) (q_j_151 Int) (q_a_152 (Array Int Int)) (q_n_153 Int)) (! (=> (and (and (and (KeptR q_o_150 q_j_151 q_a_152 q_n_153) (<= 0 q_j_151)) (< q_j_151 (len_Slice_Int q_o_150))) (forall ((q_i_154 Int)) (=> (and (<= 0 q_i_154) (< q_i_154 q_j_151)) (not (= (elem_Slice_Int q_o_150 q_i_154) (elem_Slice_Int q_o_150 q_j_151)))))) (KeptR q_o_150 (+ q_j_151 1) (store q_a_152 q_n_153 (elem_Slice_Int q_o_150 q_j_151)) (+ q_n_153 1))) :pattern ((KeptR q_o_150 q_j_151 q_a_152 q_n_153))))) ; axiom keptr-take
(assert (forall ((q_o_155 Slice_Int) (q_j_156 Int) (q_a_157 (Array Int Int)) (q_n_158 Int)) (! (=> (and (and (and (KeptR q_o_155 q_j_156 q_a_157 q_n_158) (<= 0 q_j_156)) (< q_j_156 (len_Slice_Int q_o_155))) (not (forall ((q_i_159 Int)) (=> (and (<= 0 q_i_159) (< q_i_159 q_j_156)) (not (= (elem_Slice_Int q_o_155 q_i_159) (elem_Slice_Int q_o_155 q_j_156))))))) (KeptR q_o_155 (+ q_j_156 1) q_a_157 q_n_158)) :pattern ((KeptR q_o_155 q_j_156 q_a_157 q_n_158))))) ; axiom keptr-skip
(assert (forall ((q_b_160 Slice_Int)) (! (and (=> (= (len_Slice_Int q_b_160) 0) (and (= (decR q_b_160) 65533) (= (decW q_b_160) 0))) (=> (> (len_Slice_Int q_b_160) 0) (and (and (<= 1 (decW q_b_160)) (<= (decW q_b_160) 4)) (<= (decW q_b_160) (len_Slice_Int q_b_160))))) :pattern ((decW q_b_160))))) ; axiom dec-eof
(assert (forall ((q_b_161 Slice_Int)) (! (and (<= 0 (decR q_b_161)) (<= (decR q_b_161) 1114111)) :pattern ((decR q_b_161))))) ; axiom dec-range
(assert (forall ((q_o_162 Slice_Int) (q_a_163 (Array Int Int))) (! (KeptR q_o_162 0 q_a_163 0) :pattern ((KeptR q_o_162 0 q_a_163 0))))) ; axiom keptr-base
(assert (forall ((r Int)) (! (and (<= 0 (len_Slice_Any (select H_ChoiceExpr_Alternatives@pre r))) (<= (len_Slice_Any (select H_ChoiceExpr_Alternatives@pre r)) (cap_Slice_Any (select H_ChoiceExpr_Alternatives@pre r))) (<= 0 (off_Slice_Any (select H_ChoiceExpr_Alternatives@pre r)))) :pattern ((select H_ChoiceExpr_Alternatives@pre r)))))
(assert (forall ((r Int)) (! (and (<= 0 (len_Slice_Any (select H_SeqExpr_Exprs@pre r))) (<= (len_Slice_Any (select H_SeqExpr_Exprs@pre r)) (cap_Slice_Any (select H_SeqExpr_Exprs@pre r))) (<= 0 (off_Slice_Any (select H_SeqExpr_Exprs@pre r)))) :pattern ((select H_SeqExpr_Exprs@pre r)))))
(assert (forall ((r Int)) (! (and (<= 0 (len_Slice_Int (select H_Grammar_Rules@pre r))) (<= (len_Slice_Int (select H_Grammar_Rules@pre r)) (cap_Slice_Int (select H_Grammar_Rules@pre r))) (<= 0 (off_Slice_Int (select H_Grammar_Rules@pre r)))) :pattern ((select H_Grammar_Rules@pre r)))))
(assert (forall ((r Int)) (! (and (<= 0 (len_Slice_Int (select H_CharClassMatcher_Chars@pre r))) (<= (len_Slice_Int (select H_CharClassMatcher_Chars@pre r)) (cap_Slice_Int (select H_CharClassMatcher_Chars@pre r))) (<= 0 (off_Slice_Int (select H_CharClassMatcher_Chars@pre r)))) :pattern ((select H_CharClassMatcher_Chars@pre r)))))
(assert (forall ((r Int)) (! (and (<= 0 (len_Slice_Int (select H_CharClassMatcher_Ranges@pre r))) (<= (len_Slice_Int (select H_CharClassMatcher_Ranges@pre r)) (cap_Slice_Int (select H_CharClassMatcher_Ranges@pre r))) (<= 0 (off_Slice_Int (select H_CharClassMatcher_Ranges@pre r)))) :pattern ((select H_CharClassMatcher_Ranges@pre r)))))
(assert (forall ((r Int)) (! (and (<= 0 (len_Slice_Str (select H_CharClassMatcher_UnicodeClasses@pre r))) (<= (len_Slice_Str (select H_CharClassMatcher_UnicodeClasses@pre r)) (cap_Slice_Str (select H_CharClassMatcher_UnicodeClasses@pre r))) (<= 0 (off_Slice_Str (select H_CharClassMatcher_UnicodeClasses@pre r)))) :pattern ((select H_CharClassMatcher_UnicodeClasses@pre r)))))
(assert (or (= in_r 0) (select Alloc@pre in_r)))
(assert (and (not (= in_r 0)) (and (and (and (and (and (and (and (and (and (and (and (and (and (and (forall ((q_c_1 Int) (q_k_2 Int)) (! (=> (and (and (not (= q_c_1 0)) (<= 0 q_k_2)) (< q_k_2 (len_Slice_Any (select H_ChoiceExpr_Alternatives@pre q_c_1)))) (IsExpr (elem_Slice_Any (select H_ChoiceExpr_Alternatives@pre q_c_1) q_k_2))) :pattern ((elem_Slice_Any (select H_ChoiceExpr_Alternatives@pre q_c_1) q_k_2)))) (forall ((q_c_3 Int) (q_k_4 Int)) (! (=> (and (and (not (= q_c_3 0)) (<= 0 q_k_4)) (< q_k_4 (len_Slice_Any (select H_SeqExpr_Exprs@pre q_c_3)))) (IsExpr (elem_Slice_Any (select H_SeqExpr_Exprs@pre q_c_3) q_k_4))) :pattern ((elem_Slice_Any (select H_SeqExpr_Exprs@pre q_c_3) q_k_4))))) (forall ((q_c_5 Int)) (! (=> (not (= q_c_5 0)) (IsExpr (select H_ActionExpr_Expr@pre q_c_5))) :pattern ((select H_ActionExpr_Expr@pre q_c_5))))) (forall ((q_c_6 Int)) (! (=> (not (= q_c_6 0)) (IsExpr (select H_LabeledExpr_Expr@pre q_c_6))) :pattern ((select H_LabeledExpr_Expr@pre q_c_6))))) (forall ((q_c_7 Int)) (! (=> (not (= q_c_7 0)) (IsExpr (select H_AndExpr_Expr@pre q_c_7))) :pattern ((select H_AndExpr_Expr@pre q_c_7))))) (forall ((q_c_8 Int)) (! (=> (not (= q_c_8 0)) (IsExpr (select H_NotExpr_Expr@pre q_c_8))) :pattern ((select H_NotExpr_Expr@pre q_c_8))))) (forall ((q_c_9 Int)) (! (=> (not (= q_c_9 0)) (IsExpr (select H_ZeroOrOneExpr_Expr@pre q_c_9))) :pattern ((select H_ZeroOrOneExpr_Expr@pre q_c_9))))) (forall ((q_c_10 Int)) (! (=> (not (= q_c_10 0)) (IsExpr (select H_ZeroOrMoreExpr_Expr@pre q_c_10))) :pattern ((select H_ZeroOrMoreExpr_Expr@pre q_c_10))))) (forall ((q_c_11 Int)) (! (=> (not (= q_c_11 0)) (IsExpr (select H_OneOrMoreExpr_Expr@pre q_c_11))) :pattern ((select H_OneOrMoreExpr_Expr@pre q_c_11))))) (forall ((q_c_12 Int)) (! (=> (not (= q_c_12 0)) (IsExpr (select H_RecoveryExpr_Expr@pre q_c_12))) :pattern ((select H_RecoveryExpr_Expr@pre q_c_12))))) (forall ((q_c_13 Int)) (! (=> (not (= q_c_13 0)) (IsExpr (select H_RecoveryExpr_RecoverExpr@pre q_c_13))) :pattern ((select H_RecoveryExpr_RecoverExpr@pre q_c_13))))) (forall ((q_c_14 Int)) (! (=> (not (= q_c_14 0)) (not (= (select H_RuleRefExpr_Name@pre q_c_14) 0))) :pattern ((select H_RuleRefExpr_Name@pre q_c_14))))) (forall ((q_c_15 Int)) (! (=> (not (= q_c_15 0)) (IsExpr (select H_Rule_Expr@pre q_c_15))) :pattern ((select H_Rule_Expr@pre q_c_15))))) (forall ((q_c_16 Int)) (! (=> (not (= q_c_16 0)) (not (= (select H_Rule_Name@pre q_c_16) 0))) :pattern ((select H_Rule_Name@pre q_c_16))))) (forall ((q_c_17 Int) (q_k_18 Int)) (! (=> (and (and (not (= q_c_17 0)) (<= 0 q_k_18)) (< q_k_18 (len_Slice_Int (select H_Grammar_Rules@pre q_c_17)))) (not (= (elem_Slice_Int (select H_Grammar_Rules@pre q_c_17) q_k_18) 0))) :pattern ((elem_Slice_Int (select H_Grammar_Rules@pre q_c_17) q_k_18)))))))
(assert (not (= map!1 0)))
(assert (not (select Alloc@pre map!1)))
(assert (= Alloc!2 (store Alloc@pre map!1 true)))
(assert (= Mdom_map_string_struct__!3 (store Mdom_map_string_struct__@pre map!1 ((as const (Array Str Bool)) false))))
(assert (and (IsExpr (select H_RecoveryExpr_Expr@pre in_r)) (and (and (and (and (and (and (and (and (and (and (and (and (and (and (forall ((q_c_19 Int) (q_k_20 Int)) (! (=> (and (and (not (= q_c_19 0)) (<= 0 q_k_20)) (< q_k_20 (len_Slice_Any (select H_ChoiceExpr_Alternatives@pre q_c_19)))) (IsExpr (elem_Slice_Any (select H_ChoiceExpr_Alternatives@pre q_c_19) q_k_20))) :pattern ((elem_Slice_Any (select H_ChoiceExpr_Alternatives@pre q_c_19) q_k_20)))) (forall ((q_c_21 Int) (q_k_22 Int)) (! (=> (and (and (not (= q_c_21 0)) (<= 0 q_k_22)) (< q_k_22 (len_Slice_Any (select H_SeqExpr_Exprs@pre q_c_21)))) (IsExpr (elem_Slice_Any (select H_SeqExpr_Exprs@pre q_c_21) q_k_22))) :pattern ((elem_Slice_Any (select H_SeqExpr_Exprs@pre q_c_21) q_k_22))))) (forall ((q_c_23 Int)) (! (=> (not (= q_c_23 0)) (IsExpr (select H_ActionExpr_Expr@pre q_c_23))) :pattern ((select H_ActionExpr_Expr@pre q_c_23))))) (forall ((q_c_24 Int)) (! (=> (not (= q_c_24 0)) (IsExpr (select H_LabeledExpr_Expr@pre q_c_24))) :pattern ((select H_LabeledExpr_Expr@pre q_c_24))))) (forall ((q_c_25 Int)) (! (=> (not (= q_c_25 0)) (IsExpr (select H_AndExpr_Expr@pre q_c_25))) :pattern ((select H_AndExpr_Expr@pre q_c_25))))) (forall ((q_c_26 Int)) (! (=> (not (= q_c_26 0)) (IsExpr (select H_NotExpr_Expr@pre q_c_26))) :pattern ((select H_NotExpr_Expr@pre q_c_26))))) (forall ((q_c_27 Int)) (! (=> (not (= q_c_27 0)) (IsExpr (select H_ZeroOrOneExpr_Expr@pre q_c_27))) :pattern ((select H_ZeroOrOneExpr_Expr@pre q_c_27))))) (forall ((q_c_28 Int)) (! (=> (not (= q_c_28 0)) (IsExpr (select H_ZeroOrMoreExpr_Expr@pre q_c_28))) :pattern ((select H_ZeroOrMoreExpr_Expr@pre q_c_28))))) (forall ((q_c_29 Int)) (! (=> (not (= q_c_29 0)) (IsExpr (select H_OneOrMoreExpr_Expr@pre q_c_29))) :pattern ((select H_OneOrMoreExpr_Expr@pre q_c_29))))) (forall ((q_c_30 Int)) (! (=> (not (= q_c_30 0)) (IsExpr (select H_RecoveryExpr_Expr@pre q_c_30))) :pattern ((select H_RecoveryExpr_Expr@pre q_c_30))))) (forall ((q_c_31 Int)) (! (=> (not (= q_c_31 0)) (IsExpr (select H_RecoveryExpr_RecoverExpr@pre q_c_31))) :pattern ((select H_RecoveryExpr_RecoverExpr@pre q_c_31))))) (forall ((q_c_32 Int)) (! (=> (not (= q_c_32 0)) (not (= (select H_RuleRefExpr_Name@pre q_c_32) 0))) :pattern ((select H_RuleRefExpr_Name@pre q_c_32))))) (forall ((q_c_33 Int)) (! (=> (not (= q_c_33 0)) (IsExpr (select H_Rule_Expr@pre q_c_33))) :pattern ((select H_Rule_Expr@pre q_c_33))))) (forall ((q_c_34 Int)) (! (=> (not (= q_c_34 0)) (not (= (select H_Rule_Name@pre q_c_34) 0))) :pattern ((select H_Rule_Name@pre q_c_34))))) (forall ((q_c_35 Int) (q_k_36 Int)) (! (=> (and (and (not (= q_c_35 0)) (<= 0 q_k_36)) (< q_k_36 (len_Slice_Int (select H_Grammar_Rules@pre q_c_35)))) (not (= (elem_Slice_Int (select H_Grammar_Rules@pre q_c_35) q_k_36) 0))) :pattern ((elem_Slice_Int (select H_Grammar_Rules@pre q_c_35) q_k_36)))))))
(assert (forall ((r Int)) (! (=> (select Alloc!2 r) (select Alloc!4 r)) :pattern ((select Alloc!4 r)))))
(assert (and (and (not (= ret_Expression_InitialNames!5 0)) (select Alloc!4 ret_Expression_InitialNames!5) (not (select Alloc!2 ret_Expression_InitialNames!5))) (forall ((q_n_37 Str)) (! (= (and (not (= ret_Expression_InitialNames!5 0)) (select (select Mdom_map_string_struct__!3 ret_Expression_InitialNames!5) q_n_37)) (InFirst (select H_RecoveryExpr_Expr@pre in_r) q_n_37)) :pattern ((select (select Mdom_map_string_struct__!3 ret_Expression_InitialNames!5) q_n_37))))))
(assert (= dom0!6 (select Mdom_map_string_struct__!3 ret_Expression_InitialNames!5)))
(assert (forall ((k Str)) (! (=> (select visited1!9 k) (select dom0!6 k)) :pattern ((select visited1!9 k)))))
(assert (and (and (and (not (= map!1 0)) (select Alloc!4 map!1) (not (select Alloc@pre map!1))) (forall ((q_n_40 Str)) (! (= (select dom0!6 q_n_40) (InFirst (select H_RecoveryExpr_Expr@pre in_r) q_n_40)) :pattern ((select dom0!6 q_n_40))))) (forall ((q_n_41 Str)) (! (= (and (not (= map!1 0)) (select (select Mdom_map_string_struct__!7 map!1) q_n_41)) (select visited1!9 q_n_41)) :pattern ((select (select Mdom_map_string_struct__!7 map!1) q_n_41))))))
(assert (= visited1!9 dom0!6))
(assert (and (IsExpr (select H_RecoveryExpr_Expr@pre in_r)) (and (and (and (and (and (and (and (and (and (and (and (and (and (and (forall ((q_c_44 Int) (q_k_45 Int)) (! (=> (and (and (not (= q_c_44 0)) (<= 0 q_k_45)) (< q_k_45 (len_Slice_Any (select H_ChoiceExpr_Alternatives@pre q_c_44)))) (IsExpr (elem_Slice_Any (select H_ChoiceExpr_Alternatives@pre q_c_44) q_k_45))) :pattern ((elem_Slice_Any (select H_ChoiceExpr_Alternatives@pre q_c_44) q_k_45)))) (forall ((q_c_46 Int) (q_k_47 Int)) (! (=> (and (and (not (= q_c_46 0)) (<= 0 q_k_47)) (< q_k_47 (len_Slice_Any (select H_SeqExpr_Exprs@pre q_c_46)))) (IsExpr (elem_Slice_Any (select H_SeqExpr_Exprs@pre q_c_46) q_k_47))) :pattern ((elem_Slice_Any (select H_SeqExpr_Exprs@pre q_c_46) q_k_47))))) (forall ((q_c_48 Int)) (! (=> (not (= q_c_48 0)) (IsExpr (select H_ActionExpr_Expr@pre q_c_48))) :pattern ((select H_ActionExpr_Expr@pre q_c_48))))) (forall ((q_c_49 Int)) (! (=> (not (= q_c_49 0)) (IsExpr (select H_LabeledExpr_Expr@pre q_c_49))) :pattern ((select H_LabeledExpr_Expr@pre q_c_49))))) (forall ((q_c_50 Int)) (! (=> (not (= q_c_50 0)) (IsExpr (select H_AndExpr_Expr@pre q_c_50))) :pattern ((select H_AndExpr_Expr@pre q_c_50))))) (forall ((q_c_51 Int)) (! (=> (not (= q_c_51 0)) (IsExpr (select H_NotExpr_Expr@pre q_c_51))) :pattern ((select H_NotExpr_Expr@pre q_c_51))))) (forall ((q_c_52 Int)) (! (=> (not (= q_c_52 0)) (IsExpr (select H_ZeroOrOneExpr_Expr@pre q_c_52))) :pattern ((select H_ZeroOrOneExpr_Expr@pre q_c_52))))) (forall ((q_c_53 Int)) (! (=> (not (= q_c_53 0)) (IsExpr (select H_ZeroOrMoreExpr_Expr@pre q_c_53))) :pattern ((select H_ZeroOrMoreExpr_Expr@pre q_c_53))))) (forall ((q_c_54 Int)) (! (=> (not (= q_c_54 0)) (IsExpr (select H_OneOrMoreExpr_Expr@pre q_c_54))) :pattern ((select H_OneOrMoreExpr_Expr@pre q_c_54))))) (forall ((q_c_55 Int)) (! (=> (not (= q_c_55 0)) (IsExpr (select H_RecoveryExpr_Expr@pre q_c_55))) :pattern ((select H_RecoveryExpr_Expr@pre q_c_55))))) (forall ((q_c_56 Int)) (! (=> (not (= q_c_56 0)) (IsExpr (select H_RecoveryExpr_RecoverExpr@pre q_c_56))) :pattern ((select H_RecoveryExpr_RecoverExpr@pre q_c_56))))) (forall ((q_c_57 Int)) (! (=> (not (= q_c_57 0)) (not (= (select H_RuleRefExpr_Name@pre q_c_57) 0))) :pattern ((select H_RuleRefExpr_Name@pre q_c_57))))) (forall ((q_c_58 Int)) (! (=> (not (= q_c_58 0)) (IsExpr (select H_Rule_Expr@pre q_c_58))) :pattern ((select H_Rule_Expr@pre q_c_58))))) (forall ((q_c_59 Int)) (! (=> (not (= q_c_59 0)) (not (= (select H_Rule_Name@pre q_c_59) 0))) :pattern ((select H_Rule_Name@pre q_c_59))))) (forall ((q_c_60 Int) (q_k_61 Int)) (! (=> (and (and (not (= q_c_60 0)) (<= 0 q_k_61)) (< q_k_61 (len_Slice_Int (select H_Grammar_Rules@pre q_c_60)))) (not (= (elem_Slice_Int (select H_Grammar_Rules@pre q_c_60) q_k_61) 0))) :pattern ((elem_Slice_Int (select H_Grammar_Rules@pre q_c_60) q_k_61)))))))
(assert (= ret_Expression_IsNullable!14 (NF (select H_RecoveryExpr_Expr@pre in_r))))
(assert (not ret_Expression_IsNullable!14))
(assert (not (forall ((q_nm_87 Str)) (! (= (and (not (= map!1 0)) (select (select Mdom_map_string_struct__!7 map!1) q_nm_87)) (InFirst (box_Int 1 in_r) q_nm_87)) :pattern ((select (select Mdom_map_string_struct__!7 map!1) q_nm_87))))))
(check-sat)
(get-value (in_r))
