package main

import (
	"fmt"
	"os"
	"strings"
)

func try(opts ...Option) (out string, escaped bool) {
	defer func() {
		if e := recover(); e != nil {
			out = fmt.Sprintf("PANIC escaped from Parse: %v", e)
			escaped = true
		}
	}()
	v, err := Parse("", []byte("aaaaaaaaaa"), opts...)
	return fmt.Sprintf("v=%v err=%v", v, err), false
}

func main() {
	a, _ := try(MaxExpressions(5))
	fmt.Println("MaxExpressions(5):                ", a)
	b, escaped := try(MaxExpressions(5), Recover(false))
	fmt.Println("MaxExpressions(5), Recover(false):", b)
	if strings.Contains(a, "max number of expressions parsed") && escaped {
		fmt.Println("VIOLATION: with Recover(false) the exhausted budget is not reported as an error, Parse panics")
		os.Exit(0)
	}
	fmt.Println("no violation observed")
	os.Exit(1)
}
