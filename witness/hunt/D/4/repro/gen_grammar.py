#!/usr/bin/env python3
# N+2 short rules; every rule references the next one twice:
#   S <- AN ; AN <- AN-1 AN-1 ; ... ; A1 <- A0 A0 ; A0 <- [a]
# The language is a^(2^N). Without -optimize-grammar pigeon handles it instantly.
import sys
n = int(sys.argv[1])
print('{\npackage main\n}')
print('S <- A%d' % n)
for i in range(n, 0, -1):
    print('A%d <- A%d A%d' % (i, i - 1, i - 1))
print('A0 <- [a]')
