package main

import "fmt"

func main() {
	// S <- ( E //{e} "b" ) / ( E //{e} "c" ) ; E <- E "+" / "a" %{e}
	// "ac": the first alternative fails ("b" does not match "c"), the second one
	// matches: E matches "a" and the throw is recovered by "c".
	v, err := Parse("", []byte("ac"))
	fmt.Printf("value=%q err=%v\n", v, err)
	if err != nil {
		fmt.Println("VIOLATION: \"ac\" is matched by the second alternative, but Parse fails")
	} else {
		fmt.Println("OK")
	}
}
