package main

// Replay of solver models on the real code. Implemented per function family; where no
// replayer exists the violation is reported with no-failing-input-found.
func replayModel(d *Driver, q *Query) (bool, string) {
	return false, ""
}
