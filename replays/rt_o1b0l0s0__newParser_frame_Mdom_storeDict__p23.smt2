; obligation rt[o1b0l0s0]:newParser:frame[Mdom_storeDict]
; clause: callee may modify all storeDict; must be inside modifies
; at rt.go:366
(set-option :produce-models true)
(set-logic ALL)
(declare-sort Str 0)
(declare-sort Any 0)
(declare-datatypes ((Slice_Int 0)) (((mk_Slice_Int (arr_Slice_Int (Array Int Int)) (off_Slice_Int Int) (len_Slice_Int Int) (cap_Slice_Int Int)))))
(declare-datatypes ((S_Stats 0)) (((mk_S_Stats (S_Stats_ExprCnt Int) (S_Stats_ChoiceAltCnt Int)))))
(declare-datatypes ((S_position 0)) (((mk_S_position (S_position_line Int) (S_position_col Int) (S_position_offset Int)))))
(declare-datatypes ((S_savepoint 0)) (((mk_S_savepoint (S_savepoint_position S_position) (S_savepoint_rn Int) (S_savepoint_w Int)))))
(declare-datatypes ((S_current 0)) (((mk_S_current (S_current_pos S_position) (S_current_text Slice_Int) (S_current_globalStore Int)))))
(declare-datatypes ((Slice_Str 0)) (((mk_Slice_Str (arr_Slice_Str (Array Int Str)) (off_Slice_Str Int) (len_Slice_Str Int) (cap_Slice_Str Int)))))
(declare-datatypes ((S_parser 0)) (((mk_S_parser (S_parser_filename Str) (S_parser_pt S_savepoint) (S_parser_cur S_current) (S_parser_data Slice_Int) (S_parser_errs Int) (S_parser_depth Int) (S_parser_recover Bool) (S_parser_rules Int) (S_parser_vstack Slice_Int) (S_parser_rstack Slice_Int) (S_parser_maxFailPos S_position) (S_parser_maxFailExpected Slice_Str) (S_parser_maxFailInvertExpected Bool) (S_parser_maxExprCnt Int) (S_parser_entrypoint Str) (S_parser_allowInvalidUTF8 Bool) (S_parser_Stats Int) (S_parser_choiceNoMatch Str) (S_parser_recoveryStack Slice_Int)))))
(declare-datatypes ((Slice_Any 0)) (((mk_Slice_Any (arr_Slice_Any (Array Int Any)) (off_Slice_Any Int) (len_Slice_Any Int) (cap_Slice_Any Int)))))
(declare-fun typeOf (Any) Int)
(declare-const nilAny Any)
(declare-fun slen (Str) Int)
(declare-const emptyStr Str)
(declare-fun scat (Str Str) Str)
(declare-fun runeCount (Str) Int)
(declare-fun runeOf (Str Int) Int)
(declare-fun sle (Str Str) Bool)
(declare-fun card_Str ((Array Str Bool)) Int)
(declare-fun wit_Str ((Array Str Bool)) Str)
(declare-const nilslice_Slice_Int Slice_Int)
(declare-const nilslice_Slice_Str Slice_Str)
(declare-const nilslice_Slice_Any Slice_Any)
(declare-const constarr_Array_Int_Str (Array Int Str))
(declare-fun elem_Slice_Int (Slice_Int Int) Int)
(declare-fun IsNode (Any) Bool)
(declare-fun elem_Slice_Any (Slice_Any Int) Any)
(declare-fun box_Int (Int Int) Any)
(declare-fun unbox_Int (Any) Int)
(declare-fun bnd (Slice_Int Int) Bool)
(declare-fun decW (Slice_Int) Int)
(declare-fun lineAt (Slice_Int Int) Int)
(declare-fun decR (Slice_Int) Int)
(declare-fun colAt (Slice_Int Int) Int)
(declare-fun defined (Str) Bool)
(declare-fun LitPre (Int Slice_Int Int Int Int) Bool)
(declare-fun toLower (Int) Int)
(declare-fun box_Slice_Int (Int Slice_Int) Any)
(declare-fun unbox_Slice_Int (Any) Slice_Int)
(declare-fun D (Any Slice_Int Int Bool Int Any) Bool)
(declare-fun uniIs (Int Int) Bool)
(declare-fun SeqPre (Int Slice_Int Int Int Int (Array Int Any)) Bool)
(declare-fun box_Slice_Any (Int Slice_Any) Any)
(declare-fun unbox_Slice_Any (Any) Slice_Any)
(declare-fun ChoicePre (Int Slice_Int Int Int) Bool)
(declare-fun RepPre (Any Slice_Int Int Int Int (Array Int Any)) Bool)
(declare-fun ThrowPre (Slice_Int Int Str Slice_Int Int) Bool)
(declare-fun TH (Slice_Int Str Slice_Int Int Bool Int Any) Bool)
(declare-fun DR (Int Slice_Int Int Bool Int Any) Bool)
(declare-fun KeptE (Slice_Any Int (Array Int Any) Int) Bool)
(declare-fun errMsg (Any) Str)
(declare-const in_filename Str)
(declare-const in_b Slice_Int)
(declare-const in_opts Slice_Int)
(declare-const map!1 Int)
(declare-const Alloc@pre (Array Int Bool))
(declare-const Alloc!2 (Array Int Bool))
(declare-const Mdom_map_string_map_string_int@pre (Array Int (Array Str Bool)))
(declare-const Mdom_map_string_map_string_int!3 (Array Int (Array Str Bool)))
(declare-const new!4 Int)
(declare-const Alloc!5 (Array Int Bool))
(declare-const P_Slice_Any@pre (Array Int Slice_Any))
(declare-const P_Slice_Any!6 (Array Int Slice_Any))
(declare-const map!7 Int)
(declare-const Alloc!8 (Array Int Bool))
(declare-const Mdom_storeDict@pre (Array Int (Array Str Bool)))
(declare-const Mdom_storeDict!9 (Array Int (Array Str Bool)))
(declare-const addr_stats!10 Int)
(declare-const Alloc!11 (Array Int Bool))
(declare-const H_Stats_ExprCnt@pre (Array Int Int))
(declare-const H_Stats_ExprCnt!12 (Array Int Int))
(declare-const H_Stats_ChoiceAltCnt@pre (Array Int Int))
(declare-const H_Stats_ChoiceAltCnt!13 (Array Int Int))
(declare-const G_g@pre Int)
(declare-const H_grammar_rules@pre (Array Int Slice_Int))
(declare-const H_rule_name@pre (Array Int Str))
(declare-const new_parser!14 Int)
(declare-const Alloc!15 (Array Int Bool))
(declare-const H_parser_filename@pre (Array Int Str))
(declare-const H_parser_filename!16 (Array Int Str))
(declare-const H_parser_pt@pre (Array Int S_savepoint))
(declare-const H_parser_pt!17 (Array Int S_savepoint))
(declare-const H_parser_cur@pre (Array Int S_current))
(declare-const H_parser_cur!18 (Array Int S_current))
(declare-const H_parser_data@pre (Array Int Slice_Int))
(declare-const H_parser_data!19 (Array Int Slice_Int))
(declare-const H_parser_errs@pre (Array Int Int))
(declare-const H_parser_errs!20 (Array Int Int))
(declare-const H_parser_depth@pre (Array Int Int))
(declare-const H_parser_depth!21 (Array Int Int))
(declare-const H_parser_recover@pre (Array Int Bool))
(declare-const H_parser_recover!22 (Array Int Bool))
(declare-const H_parser_rules@pre (Array Int Int))
(declare-const H_parser_rules!23 (Array Int Int))
(declare-const H_parser_vstack@pre (Array Int Slice_Int))
(declare-const H_parser_vstack!24 (Array Int Slice_Int))
(declare-const H_parser_rstack@pre (Array Int Slice_Int))
(declare-const H_parser_rstack!25 (Array Int Slice_Int))
(declare-const H_parser_maxFailPos@pre (Array Int S_position))
(declare-const H_parser_maxFailPos!26 (Array Int S_position))
(declare-const H_parser_maxFailExpected@pre (Array Int Slice_Str))
(declare-const H_parser_maxFailExpected!27 (Array Int Slice_Str))
(declare-const H_parser_maxFailInvertExpected@pre (Array Int Bool))
(declare-const H_parser_maxFailInvertExpected!28 (Array Int Bool))
(declare-const H_parser_maxExprCnt@pre (Array Int Int))
(declare-const H_parser_maxExprCnt!29 (Array Int Int))
(declare-const H_parser_entrypoint@pre (Array Int Str))
(declare-const H_parser_entrypoint!30 (Array Int Str))
(declare-const H_parser_allowInvalidUTF8@pre (Array Int Bool))
(declare-const H_parser_allowInvalidUTF8!31 (Array Int Bool))
(declare-const H_parser_Stats@pre (Array Int Int))
(declare-const H_parser_Stats!32 (Array Int Int))
(declare-const H_parser_choiceNoMatch@pre (Array Int Str))
(declare-const H_parser_choiceNoMatch!33 (Array Int Str))
(declare-const H_parser_recoveryStack@pre (Array Int Slice_Int))
(declare-const H_parser_recoveryStack!34 (Array Int Slice_Int))
(declare-const Mdom_map_string_any@pre (Array Int (Array Str Bool)))
(declare-const Mval_map_string_any@pre (Array Int (Array Str Any)))
(declare-const hv!35 Int)
(declare-const H_parser_maxExprCnt!36 (Array Int Int))
(declare-const hv!37 Str)
(declare-const H_parser_entrypoint!38 (Array Int Str))
(declare-const hv!39 Bool)
(declare-const H_parser_allowInvalidUTF8!40 (Array Int Bool))
(declare-const hv!41 Bool)
(declare-const H_parser_recover!42 (Array Int Bool))
(declare-const Mdom_storeDict!43 (Array Int (Array Str Bool)))
(declare-const Mval_storeDict@pre (Array Int (Array Str Any)))
(declare-const Mval_storeDict!44 (Array Int (Array Str Any)))
(declare-const Alloc!45 (Array Int Bool))
(declare-const H_parser_maxExprCnt!46 (Array Int Int))
(declare-const H_litMatcher_val@pre (Array Int Str))
(declare-const H_litMatcher_ignoreCase@pre (Array Int Bool))
(declare-const H_charClassMatcher_ignoreCase@pre (Array Int Bool))
(declare-const H_charClassMatcher_chars@pre (Array Int Slice_Int))
(declare-const H_charClassMatcher_ranges@pre (Array Int Slice_Int))
(declare-const H_charClassMatcher_classes@pre (Array Int Slice_Int))
(declare-const H_charClassMatcher_inverted@pre (Array Int Bool))
(declare-const H_seqExpr_exprs@pre (Array Int Slice_Any))
(declare-const H_choiceExpr_alternatives@pre (Array Int Slice_Any))
(declare-const H_andExpr_expr@pre (Array Int Any))
(declare-const H_notExpr_expr@pre (Array Int Any))
(declare-const H_zeroOrMoreExpr_expr@pre (Array Int Any))
(declare-const H_oneOrMoreExpr_expr@pre (Array Int Any))
(declare-const H_zeroOrOneExpr_expr@pre (Array Int Any))
(declare-const H_labeledExpr_expr@pre (Array Int Any))
(declare-const H_actionExpr_expr@pre (Array Int Any))
(declare-const H_rule_expr@pre (Array Int Any))
(declare-const H_ruleRefExpr_name@pre (Array Int Str))
(declare-const H_actionExpr_run@pre (Array Int Int))
(declare-const H_recoveryExpr_expr@pre (Array Int Any))
(declare-const H_recoveryExpr_recoverExpr@pre (Array Int Any))
(declare-const H_andCodeExpr_run@pre (Array Int Int))
(declare-const H_notCodeExpr_run@pre (Array Int Int))
(assert (= (typeOf nilAny) 0))
(assert (forall ((x Any)) (! (=> (= (typeOf x) 0) (= x nilAny)) :pattern ((typeOf x)))))
(assert (forall ((s Str)) (! (>= (slen s) 0) :pattern ((slen s)))))
(assert (= (slen emptyStr) 0))
(assert (forall ((s Str)) (! (=> (= (slen s) 0) (= s emptyStr)) :pattern ((slen s)))))
(assert (forall ((a Str) (b Str)) (! (= (slen (scat a b)) (+ (slen a) (slen b))) :pattern ((scat a b)))))
(assert (forall ((a Str) (b Str) (c Str)) (! (=> (= (scat a b) (scat a c)) (= b c)) :pattern ((scat a b) (scat a c)))))
(assert (forall ((a Str) (b Str) (c Str)) (! (= (scat (scat a b) c) (scat a (scat b c))) :pattern ((scat (scat a b) c)))))
(assert (forall ((a Str)) (! (= (scat a emptyStr) a) :pattern ((scat a emptyStr)))))
(assert (forall ((a Str)) (! (= (scat emptyStr a) a) :pattern ((scat emptyStr a)))))
(assert (forall ((s Str)) (! (>= (runeCount s) 0) :pattern ((runeCount s)))))
(assert (forall ((a Str)) (! (sle a a) :pattern ((sle a a)))))
(assert (forall ((a Str) (b Str)) (! (or (sle a b) (sle b a)) :pattern ((sle a b)))))
(assert (forall ((a Str) (b Str)) (! (=> (and (sle a b) (sle b a)) (= a b)) :pattern ((sle a b) (sle b a)))))
(assert (forall ((a Str) (b Str) (c Str)) (! (=> (and (sle a b) (sle b c)) (sle a c)) :pattern ((sle a b) (sle b c)))))
(assert (forall ((d (Array Str Bool))) (! (>= (card_Str d) 0) :pattern ((card_Str d)))))
(assert (= (card_Str ((as const (Array Str Bool)) false)) 0))
(assert (forall ((d (Array Str Bool)) (k Str)) (! (=> (= (card_Str d) 0) (not (select d k))) :pattern ((card_Str d) (select d k)))))
(assert (forall ((d (Array Str Bool))) (! (=> (= (card_Str d) 0) (= d ((as const (Array Str Bool)) false))) :pattern ((card_Str d)))))
(assert (forall ((d (Array Str Bool))) (! (=> (> (card_Str d) 0) (select d (wit_Str d))) :pattern ((card_Str d)))))
(assert (forall ((d (Array Str Bool)) (a Str) (b Str)) (! (=> (and (= (card_Str d) 1) (select d a) (select d b)) (= a b)) :pattern ((card_Str d) (select d a) (select d b)))))
(assert (forall ((d (Array Str Bool)) (k Str)) (! (= (card_Str (store d k true)) (ite (select d k) (card_Str d) (+ (card_Str d) 1))) :pattern ((card_Str (store d k true))))))
(assert (forall ((d (Array Str Bool)) (k Str)) (! (= (card_Str (store d k false)) (ite (select d k) (- (card_Str d) 1) (card_Str d))) :pattern ((card_Str (store d k false))))))
(assert (and (= (len_Slice_Int nilslice_Slice_Int) 0) (= (cap_Slice_Int nilslice_Slice_Int) 0) (= (off_Slice_Int nilslice_Slice_Int) 0)))
(assert (and (= (len_Slice_Str nilslice_Slice_Str) 0) (= (cap_Slice_Str nilslice_Slice_Str) 0) (= (off_Slice_Str nilslice_Slice_Str) 0)))
(assert (and (= (len_Slice_Any nilslice_Slice_Any) 0) (= (cap_Slice_Any nilslice_Slice_Any) 0) (= (off_Slice_Any nilslice_Slice_Any) 0)))
(assert (forall ((i Int)) (! (= (select constarr_Array_Int_Str i) emptyStr) :pattern ((select constarr_Array_Int_Str i)))))
(assert (forall ((s Slice_Int) (i Int)) (! (= (elem_Slice_Int s i) (select (arr_Slice_Int s) (+ (off_Slice_Int s) i))) :pattern ((elem_Slice_Int s i)))))
(assert (forall ((s Slice_Any) (i Int)) (! (= (elem_Slice_Any s i) (select (arr_Slice_Any s) (+ (off_Slice_Any s) i))) :pattern ((elem_Slice_Any s i)))))
(assert (forall ((t Int) (v Int)) (! (=> (> t 0) (= (typeOf (box_Int t v)) t)) :pattern ((box_Int t v)))))
(assert (forall ((t Int) (v Int)) (! (=> (> t 0) (= (unbox_Int (box_Int t v)) v)) :pattern ((box_Int t v)))))
(assert (forall ((t Int) (v Slice_Int)) (! (=> (> t 0) (= (typeOf (box_Slice_Int t v)) t)) :pattern ((box_Slice_Int t v)))))
(assert (forall ((t Int) (v Slice_Int)) (! (=> (> t 0) (= (unbox_Slice_Int (box_Slice_Int t v)) v)) :pattern ((box_Slice_Int t v)))))
(assert (forall ((t Int) (v Slice_Any)) (! (=> (> t 0) (= (typeOf (box_Slice_Any t v)) t)) :pattern ((box_Slice_Any t v)))))
(assert (forall ((t Int) (v Slice_Any)) (! (=> (> t 0) (= (unbox_Slice_Any (box_Slice_Any t v)) v)) :pattern ((box_Slice_Any t v)))))
(assert (forall ((q_d_41 Slice_Int) (q_o_42 Int)) (! (=> (and (and (bnd q_d_41 q_o_42) (<= 0 q_o_42)) (< q_o_42 (len_Slice_Int q_d_41))) (and (and (bnd q_d_41 (+ q_o_42 (decW (mk_Slice_Int (arr_Slice_Int q_d_41) (+ (off_Slice_Int q_d_41) q_o_42) (- (len_Slice_Int q_d_41) q_o_42) (- (cap_Slice_Int q_d_41) q_o_42))))) (= (lineAt q_d_41 (+ q_o_42 (decW (mk_Slice_Int (arr_Slice_Int q_d_41) (+ (off_Slice_Int q_d_41) q_o_42) (- (len_Slice_Int q_d_41) q_o_42) (- (cap_Slice_Int q_d_41) q_o_42))))) (+ (lineAt q_d_41 q_o_42) (ite (= (decR (mk_Slice_Int (arr_Slice_Int q_d_41) (+ (off_Slice_Int q_d_41) (+ q_o_42 (decW (mk_Slice_Int (arr_Slice_Int q_d_41) (+ (off_Slice_Int q_d_41) q_o_42) (- (len_Slice_Int q_d_41) q_o_42) (- (cap_Slice_Int q_d_41) q_o_42))))) (- (len_Slice_Int q_d_41) (+ q_o_42 (decW (mk_Slice_Int (arr_Slice_Int q_d_41) (+ (off_Slice_Int q_d_41) q_o_42) (- (len_Slice_Int q_d_41) q_o_42) (- (cap_Slice_Int q_d_41) q_o_42))))) (- (cap_Slice_Int q_d_41) (+ q_o_42 (decW (mk_Slice_Int (arr_Slice_Int q_d_41) (+ (off_Slice_Int q_d_41) q_o_42) (- (len_Slice_Int q_d_41) q_o_42) (- (cap_Slice_Int q_d_41) q_o_42))))))) 10) 1 0)))) (= (colAt q_d_41 (+ q_o_42 (decW (mk_Slice_Int (arr_Slice_Int q_d_41) (+ (off_Slice_Int q_d_41) q_o_42) (- (len_Slice_Int q_d_41) q_o_42) (- (cap_Slice_Int q_d_41) q_o_42))))) (ite (= (decR (mk_Slice_Int (arr_Slice_Int q_d_41) (+ (off_Slice_Int q_d_41) (+ q_o_42 (decW (mk_Slice_Int (arr_Slice_Int q_d_41) (+ (off_Slice_Int q_d_41) q_o_42) (- (len_Slice_Int q_d_41) q_o_42) (- (cap_Slice_Int q_d_41) q_o_42))))) (- (len_Slice_Int q_d_41) (+ q_o_42 (decW (mk_Slice_Int (arr_Slice_Int q_d_41) (+ (off_Slice_Int q_d_41) q_o_42) (- (len_Slice_Int q_d_41) q_o_42) (- (cap_Slice_Int q_d_41) q_o_42))))) (- (cap_Slice_Int q_d_41) (+ q_o_42 (decW (mk_Slice_Int (arr_Slice_Int q_d_41) (+ (off_Slice_Int q_d_41) q_o_42) (- (len_Slice_Int q_d_41) q_o_42) (- (cap_Slice_Int q_d_41) q_o_42))))))) 10) 0 (+ (colAt q_d_41 q_o_42) 1))))) :pattern ((bnd q_d_41 q_o_42))))) ; axiom pos-step
(assert (and (and (not (= G_g@pre 0)) (>= (len_Slice_Int (select H_grammar_rules@pre G_g@pre)) 1)) (forall ((q_k_43 Int)) (! (=> (and (<= 0 q_k_43) (< q_k_43 (len_Slice_Int (select H_grammar_rules@pre G_g@pre)))) (not (= (elem_Slice_Int (select H_grammar_rules@pre G_g@pre) q_k_43) 0))) :pattern ((elem_Slice_Int (select H_grammar_rules@pre G_g@pre) q_k_43)))))) ; axiom wf-grammar
(assert (forall ((q_n_44 Str)) (! (= (defined q_n_44) (exists ((q_k_45 Int)) (and (and (<= 0 q_k_45) (< q_k_45 (len_Slice_Int (select H_grammar_rules@pre G_g@pre)))) (= (select H_rule_name@pre (elem_Slice_Int (select H_grammar_rules@pre G_g@pre) q_k_45)) q_n_44)))) :pattern ((defined q_n_44))))) ; axiom defined-def
(assert (forall ((q_l_46 Int) (q_d_47 Slice_Int) (q_k_48 Int) (q_i_49 Int) (q_j_50 Int)) (! (=> (and (and (and (and (LitPre q_l_46 q_d_47 q_k_48 q_i_49 q_j_50) (<= 0 q_k_48)) (< q_k_48 (runeCount (select H_litMatcher_val@pre q_l_46)))) (> (decW (mk_Slice_Int (arr_Slice_Int q_d_47) (+ (off_Slice_Int q_d_47) q_j_50) (- (len_Slice_Int q_d_47) q_j_50) (- (cap_Slice_Int q_d_47) q_j_50))) 0)) (= (ite (select H_litMatcher_ignoreCase@pre q_l_46) (toLower (decR (mk_Slice_Int (arr_Slice_Int q_d_47) (+ (off_Slice_Int q_d_47) q_j_50) (- (len_Slice_Int q_d_47) q_j_50) (- (cap_Slice_Int q_d_47) q_j_50)))) (decR (mk_Slice_Int (arr_Slice_Int q_d_47) (+ (off_Slice_Int q_d_47) q_j_50) (- (len_Slice_Int q_d_47) q_j_50) (- (cap_Slice_Int q_d_47) q_j_50)))) (runeOf (select H_litMatcher_val@pre q_l_46) q_k_48))) (LitPre q_l_46 q_d_47 (+ q_k_48 1) q_i_49 (+ q_j_50 (decW (mk_Slice_Int (arr_Slice_Int q_d_47) (+ (off_Slice_Int q_d_47) q_j_50) (- (len_Slice_Int q_d_47) q_j_50) (- (cap_Slice_Int q_d_47) q_j_50)))))) :pattern ((LitPre q_l_46 q_d_47 q_k_48 q_i_49 q_j_50))))) ; axiom lit-step
(assert (forall ((q_l_51 Int) (q_d_52 Slice_Int) (q_i_53 Int) (q_j_54 Int) (q_v_55 Any)) (! (=> (and (LitPre q_l_51 q_d_52 (runeCount (select H_litMatcher_val@pre q_l_51)) q_i_53 q_j_54) (= q_v_55 (box_Slice_Int 2 (mk_Slice_Int (arr_Slice_Int q_d_52) (+ (off_Slice_Int q_d_52) q_i_53) (- q_j_54 q_i_53) (- (cap_Slice_Int q_d_52) q_i_53))))) (D (box_Int 3 q_l_51) q_d_52 q_i_53 true q_j_54 q_v_55)) :pattern ((D (box_Int 3 q_l_51) q_d_52 q_i_53 true q_j_54 q_v_55))))) ; axiom lit-ok
(assert (forall ((q_l_56 Int) (q_d_57 Slice_Int) (q_k_58 Int) (q_i_59 Int) (q_j_60 Int)) (! (=> (and (and (and (LitPre q_l_56 q_d_57 q_k_58 q_i_59 q_j_60) (<= 0 q_k_58)) (< q_k_58 (runeCount (select H_litMatcher_val@pre q_l_56)))) (or (= (decW (mk_Slice_Int (arr_Slice_Int q_d_57) (+ (off_Slice_Int q_d_57) q_j_60) (- (len_Slice_Int q_d_57) q_j_60) (- (cap_Slice_Int q_d_57) q_j_60))) 0) (not (= (ite (select H_litMatcher_ignoreCase@pre q_l_56) (toLower (decR (mk_Slice_Int (arr_Slice_Int q_d_57) (+ (off_Slice_Int q_d_57) q_j_60) (- (len_Slice_Int q_d_57) q_j_60) (- (cap_Slice_Int q_d_57) q_j_60)))) (decR (mk_Slice_Int (arr_Slice_Int q_d_57) (+ (off_Slice_Int q_d_57) q_j_60) (- (len_Slice_Int q_d_57) q_j_60) (- (cap_Slice_Int q_d_57) q_j_60)))) (runeOf (select H_litMatcher_val@pre q_l_56) q_k_58))))) (D (box_Int 3 q_l_56) q_d_57 q_i_59 false q_i_59 nilAny)) :pattern ((LitPre q_l_56 q_d_57 q_k_58 q_i_59 q_j_60))))) ; axiom lit-fail
(assert (forall ((q_c_61 Int) (q_d_62 Slice_Int) (q_i_63 Int) (q_j_64 Int) (q_v_65 Any)) (! (=> (and (and (and (> (decW (mk_Slice_Int (arr_Slice_Int q_d_62) (+ (off_Slice_Int q_d_62) q_i_63) (- (len_Slice_Int q_d_62) q_i_63) (- (cap_Slice_Int q_d_62) q_i_63))) 0) (not (= (or (or (exists ((q_k_66 Int)) (and (and (<= 0 q_k_66) (< q_k_66 (len_Slice_Int (select H_charClassMatcher_chars@pre q_c_61)))) (= (elem_Slice_Int (select H_charClassMatcher_chars@pre q_c_61) q_k_66) (ite (select H_charClassMatcher_ignoreCase@pre q_c_61) (toLower (decR (mk_Slice_Int (arr_Slice_Int q_d_62) (+ (off_Slice_Int q_d_62) q_i_63) (- (len_Slice_Int q_d_62) q_i_63) (- (cap_Slice_Int q_d_62) q_i_63)))) (decR (mk_Slice_Int (arr_Slice_Int q_d_62) (+ (off_Slice_Int q_d_62) q_i_63) (- (len_Slice_Int q_d_62) q_i_63) (- (cap_Slice_Int q_d_62) q_i_63))))))) (exists ((q_k_67 Int)) (and (and (and (<= 0 q_k_67) (< (+ (* 2 q_k_67) 1) (len_Slice_Int (select H_charClassMatcher_ranges@pre q_c_61)))) (<= (elem_Slice_Int (select H_charClassMatcher_ranges@pre q_c_61) (* 2 q_k_67)) (ite (select H_charClassMatcher_ignoreCase@pre q_c_61) (toLower (decR (mk_Slice_Int (arr_Slice_Int q_d_62) (+ (off_Slice_Int q_d_62) q_i_63) (- (len_Slice_Int q_d_62) q_i_63) (- (cap_Slice_Int q_d_62) q_i_63)))) (decR (mk_Slice_Int (arr_Slice_Int q_d_62) (+ (off_Slice_Int q_d_62) q_i_63) (- (len_Slice_Int q_d_62) q_i_63) (- (cap_Slice_Int q_d_62) q_i_63)))))) (<= (ite (select H_charClassMatcher_ignoreCase@pre q_c_61) (toLower (decR (mk_Slice_Int (arr_Slice_Int q_d_62) (+ (off_Slice_Int q_d_62) q_i_63) (- (len_Slice_Int q_d_62) q_i_63) (- (cap_Slice_Int q_d_62) q_i_63)))) (decR (mk_Slice_Int (arr_Slice_Int q_d_62) (+ (off_Slice_Int q_d_62) q_i_63) (- (len_Slice_Int q_d_62) q_i_63) (- (cap_Slice_Int q_d_62) q_i_63)))) (elem_Slice_Int (select H_charClassMatcher_ranges@pre q_c_61) (+ (* 2 q_k_67) 1)))))) (exists ((q_k_68 Int)) (and (and (<= 0 q_k_68) (< q_k_68 (len_Slice_Int (select H_charClassMatcher_classes@pre q_c_61)))) (uniIs (elem_Slice_Int (select H_charClassMatcher_classes@pre q_c_61) q_k_68) (ite (select H_charClassMatcher_ignoreCase@pre q_c_61) (toLower (decR (mk_Slice_Int (arr_Slice_Int q_d_62) (+ (off_Slice_Int q_d_62) q_i_63) (- (len_Slice_Int q_d_62) q_i_63) (- (cap_Slice_Int q_d_62) q_i_63)))) (decR (mk_Slice_Int (arr_Slice_Int q_d_62) (+ (off_Slice_Int q_d_62) q_i_63) (- (len_Slice_Int q_d_62) q_i_63) (- (cap_Slice_Int q_d_62) q_i_63)))))))) (select H_charClassMatcher_inverted@pre q_c_61)))) (= q_j_64 (+ q_i_63 (decW (mk_Slice_Int (arr_Slice_Int q_d_62) (+ (off_Slice_Int q_d_62) q_i_63) (- (len_Slice_Int q_d_62) q_i_63) (- (cap_Slice_Int q_d_62) q_i_63)))))) (= q_v_65 (box_Slice_Int 2 (mk_Slice_Int (arr_Slice_Int q_d_62) (+ (off_Slice_Int q_d_62) q_i_63) (- q_j_64 q_i_63) (- (cap_Slice_Int q_d_62) q_i_63))))) (D (box_Int 4 q_c_61) q_d_62 q_i_63 true q_j_64 q_v_65)) :pattern ((D (box_Int 4 q_c_61) q_d_62 q_i_63 true q_j_64 q_v_65))))) ; axiom class-ok
(assert (forall ((q_c_69 Int) (q_d_70 Slice_Int) (q_i_71 Int)) (! (=> (not (and (> (decW (mk_Slice_Int (arr_Slice_Int q_d_70) (+ (off_Slice_Int q_d_70) q_i_71) (- (len_Slice_Int q_d_70) q_i_71) (- (cap_Slice_Int q_d_70) q_i_71))) 0) (not (= (or (or (exists ((q_k_72 Int)) (and (and (<= 0 q_k_72) (< q_k_72 (len_Slice_Int (select H_charClassMatcher_chars@pre q_c_69)))) (= (elem_Slice_Int (select H_charClassMatcher_chars@pre q_c_69) q_k_72) (ite (select H_charClassMatcher_ignoreCase@pre q_c_69) (toLower (decR (mk_Slice_Int (arr_Slice_Int q_d_70) (+ (off_Slice_Int q_d_70) q_i_71) (- (len_Slice_Int q_d_70) q_i_71) (- (cap_Slice_Int q_d_70) q_i_71)))) (decR (mk_Slice_Int (arr_Slice_Int q_d_70) (+ (off_Slice_Int q_d_70) q_i_71) (- (len_Slice_Int q_d_70) q_i_71) (- (cap_Slice_Int q_d_70) q_i_71))))))) (exists ((q_k_73 Int)) (and (and (and (<= 0 q_k_73) (< (+ (* 2 q_k_73) 1) (len_Slice_Int (select H_charClassMatcher_ranges@pre q_c_69)))) (<= (elem_Slice_Int (select H_charClassMatcher_ranges@pre q_c_69) (* 2 q_k_73)) (ite (select H_charClassMatcher_ignoreCase@pre q_c_69) (toLower (decR (mk_Slice_Int (arr_Slice_Int q_d_70) (+ (off_Slice_Int q_d_70) q_i_71) (- (len_Slice_Int q_d_70) q_i_71) (- (cap_Slice_Int q_d_70) q_i_71)))) (decR (mk_Slice_Int (arr_Slice_Int q_d_70) (+ (off_Slice_Int q_d_70) q_i_71) (- (len_Slice_Int q_d_70) q_i_71) (- (cap_Slice_Int q_d_70) q_i_71)))))) (<= (ite (select H_charClassMatcher_ignoreCase@pre q_c_69) (toLower (decR (mk_Slice_Int (arr_Slice_Int q_d_70) (+ (off_Slice_Int q_d_70) q_i_71) (- (len_Slice_Int q_d_70) q_i_71) (- (cap_Slice_Int q_d_70) q_i_71)))) (decR (mk_Slice_Int (arr_Slice_Int q_d_70) (+ (off_Slice_Int q_d_70) q_i_71) (- (len_Slice_Int q_d_70) q_i_71) (- (cap_Slice_Int q_d_70) q_i_71)))) (elem_Slice_Int (select H_charClassMatcher_ranges@pre q_c_69) (+ (* 2 q_k_73) 1)))))) (exists ((q_k_74 Int)) (and (and (<= 0 q_k_74) (< q_k_74 (len_Slice_Int (select H_charClassMatcher_classes@pre q_c_69)))) (uniIs (elem_Slice_Int (select H_charClassMatcher_classes@pre q_c_69) q_k_74) (ite (select H_charClassMatcher_ignoreCase@pre q_c_69) (toLower (decR (mk_Slice_Int (arr_Slice_Int q_d_70) (+ (off_Slice_Int q_d_70) q_i_71) (- (len_Slice_Int q_d_70) q_i_71) (- (cap_Slice_Int q_d_70) q_i_71)))) (decR (mk_Slice_Int (arr_Slice_Int q_d_70) (+ (off_Slice_Int q_d_70) q_i_71) (- (len_Slice_Int q_d_70) q_i_71) (- (cap_Slice_Int q_d_70) q_i_71)))))))) (select H_charClassMatcher_inverted@pre q_c_69))))) (D (box_Int 4 q_c_69) q_d_70 q_i_71 false q_i_71 nilAny)) :pattern ((D (box_Int 4 q_c_69) q_d_70 q_i_71 false q_i_71 nilAny))))) ; axiom class-no
(assert (forall ((q_a_75 Int) (q_d_76 Slice_Int) (q_i_77 Int) (q_j_78 Int) (q_v_79 Any)) (! (=> (and (and (> (decW (mk_Slice_Int (arr_Slice_Int q_d_76) (+ (off_Slice_Int q_d_76) q_i_77) (- (len_Slice_Int q_d_76) q_i_77) (- (cap_Slice_Int q_d_76) q_i_77))) 0) (= q_j_78 (+ q_i_77 (decW (mk_Slice_Int (arr_Slice_Int q_d_76) (+ (off_Slice_Int q_d_76) q_i_77) (- (len_Slice_Int q_d_76) q_i_77) (- (cap_Slice_Int q_d_76) q_i_77)))))) (= q_v_79 (box_Slice_Int 2 (mk_Slice_Int (arr_Slice_Int q_d_76) (+ (off_Slice_Int q_d_76) q_i_77) (- q_j_78 q_i_77) (- (cap_Slice_Int q_d_76) q_i_77))))) (D (box_Int 5 q_a_75) q_d_76 q_i_77 true q_j_78 q_v_79)) :pattern ((D (box_Int 5 q_a_75) q_d_76 q_i_77 true q_j_78 q_v_79))))) ; axiom any-ok
(assert (forall ((q_a_80 Int) (q_d_81 Slice_Int) (q_i_82 Int)) (! (=> (= (decW (mk_Slice_Int (arr_Slice_Int q_d_81) (+ (off_Slice_Int q_d_81) q_i_82) (- (len_Slice_Int q_d_81) q_i_82) (- (cap_Slice_Int q_d_81) q_i_82))) 0) (D (box_Int 5 q_a_80) q_d_81 q_i_82 false q_i_82 nilAny)) :pattern ((D (box_Int 5 q_a_80) q_d_81 q_i_82 false q_i_82 nilAny))))) ; axiom any-no
(assert (forall ((q_s_83 Int) (q_d_84 Slice_Int) (q_k_85 Int) (q_i_86 Int) (q_j_87 Int) (q_a_88 (Array Int Any)) (q_j2_89 Int) (q_v_90 Any)) (! (=> (and (and (and (SeqPre q_s_83 q_d_84 q_k_85 q_i_86 q_j_87 q_a_88) (<= 0 q_k_85)) (< q_k_85 (len_Slice_Any (select H_seqExpr_exprs@pre q_s_83)))) (D (elem_Slice_Any (select H_seqExpr_exprs@pre q_s_83) q_k_85) q_d_84 q_j_87 true q_j2_89 q_v_90)) (SeqPre q_s_83 q_d_84 (+ q_k_85 1) q_i_86 q_j2_89 (store q_a_88 q_k_85 q_v_90))) :pattern ((SeqPre q_s_83 q_d_84 q_k_85 q_i_86 q_j_87 q_a_88) (D (elem_Slice_Any (select H_seqExpr_exprs@pre q_s_83) q_k_85) q_d_84 q_j_87 true q_j2_89 q_v_90))))) ; axiom seq-step
(assert (forall ((q_s_91 Int) (q_d_92 Slice_Int) (q_i_93 Int) (q_j_94 Int) (q_vs_95 Slice_Any)) (! (=> (and (and (SeqPre q_s_91 q_d_92 (len_Slice_Any (select H_seqExpr_exprs@pre q_s_91)) q_i_93 q_j_94 (arr_Slice_Any q_vs_95)) (= (off_Slice_Any q_vs_95) 0)) (= (len_Slice_Any q_vs_95) (len_Slice_Any (select H_seqExpr_exprs@pre q_s_91)))) (D (box_Int 6 q_s_91) q_d_92 q_i_93 true q_j_94 (box_Slice_Any 7 q_vs_95))) :pattern ((SeqPre q_s_91 q_d_92 (len_Slice_Any (select H_seqExpr_exprs@pre q_s_91)) q_i_93 q_j_94 (arr_Slice_Any q_vs_95)))))) ; axiom seq-ok
(assert (forall ((q_s_96 Int) (q_d_97 Slice_Int) (q_k_98 Int) (q_i_99 Int) (q_j_100 Int) (q_a_101 (Array Int Any)) (q_v_102 Any)) (! (=> (and (and (and (SeqPre q_s_96 q_d_97 q_k_98 q_i_99 q_j_100 q_a_101) (<= 0 q_k_98)) (< q_k_98 (len_Slice_Any (select H_seqExpr_exprs@pre q_s_96)))) (D (elem_Slice_Any (select H_seqExpr_exprs@pre q_s_96) q_k_98) q_d_97 q_j_100 false q_j_100 q_v_102)) (D (box_Int 6 q_s_96) q_d_97 q_i_99 false q_i_99 nilAny)) :pattern ((SeqPre q_s_96 q_d_97 q_k_98 q_i_99 q_j_100 q_a_101) (D (elem_Slice_Any (select H_seqExpr_exprs@pre q_s_96) q_k_98) q_d_97 q_j_100 false q_j_100 q_v_102))))) ; axiom seq-fail
(assert (forall ((q_c_103 Int) (q_d_104 Slice_Int) (q_k_105 Int) (q_i_106 Int) (q_v_107 Any)) (! (=> (and (and (and (ChoicePre q_c_103 q_d_104 q_k_105 q_i_106) (<= 0 q_k_105)) (< q_k_105 (len_Slice_Any (select H_choiceExpr_alternatives@pre q_c_103)))) (D (elem_Slice_Any (select H_choiceExpr_alternatives@pre q_c_103) q_k_105) q_d_104 q_i_106 false q_i_106 q_v_107)) (ChoicePre q_c_103 q_d_104 (+ q_k_105 1) q_i_106)) :pattern ((ChoicePre q_c_103 q_d_104 q_k_105 q_i_106) (D (elem_Slice_Any (select H_choiceExpr_alternatives@pre q_c_103) q_k_105) q_d_104 q_i_106 false q_i_106 q_v_107))))) ; axiom choice-step
(assert (forall ((q_c_108 Int) (q_d_109 Slice_Int) (q_k_110 Int) (q_i_111 Int) (q_j_112 Int) (q_v_113 Any)) (! (=> (and (and (and (ChoicePre q_c_108 q_d_109 q_k_110 q_i_111) (<= 0 q_k_110)) (< q_k_110 (len_Slice_Any (select H_choiceExpr_alternatives@pre q_c_108)))) (D (elem_Slice_Any (select H_choiceExpr_alternatives@pre q_c_108) q_k_110) q_d_109 q_i_111 true q_j_112 q_v_113)) (D (box_Int 8 q_c_108) q_d_109 q_i_111 true q_j_112 q_v_113)) :pattern ((ChoicePre q_c_108 q_d_109 q_k_110 q_i_111) (D (elem_Slice_Any (select H_choiceExpr_alternatives@pre q_c_108) q_k_110) q_d_109 q_i_111 true q_j_112 q_v_113))))) ; axiom choice-ok
(assert (forall ((q_c_114 Int) (q_d_115 Slice_Int) (q_i_116 Int)) (! (=> (ChoicePre q_c_114 q_d_115 (len_Slice_Any (select H_choiceExpr_alternatives@pre q_c_114)) q_i_116) (D (box_Int 8 q_c_114) q_d_115 q_i_116 false q_i_116 nilAny)) :pattern ((ChoicePre q_c_114 q_d_115 (len_Slice_Any (select H_choiceExpr_alternatives@pre q_c_114)) q_i_116))))) ; axiom choice-fail
(assert (forall ((q_a_117 Int) (q_d_118 Slice_Int) (q_i_119 Int) (q_ok_120 Bool) (q_j_121 Int) (q_v_122 Any)) (! (=> (D (select H_andExpr_expr@pre q_a_117) q_d_118 q_i_119 q_ok_120 q_j_121 q_v_122) (D (box_Int 9 q_a_117) q_d_118 q_i_119 q_ok_120 q_i_119 nilAny)) :pattern ((D (select H_andExpr_expr@pre q_a_117) q_d_118 q_i_119 q_ok_120 q_j_121 q_v_122) (D (box_Int 9 q_a_117) q_d_118 q_i_119 q_ok_120 q_i_119 nilAny))))) ; axiom and-intro
(assert (forall ((q_n_123 Int) (q_d_124 Slice_Int) (q_i_125 Int) (q_j_126 Int) (q_v_127 Any)) (! (=> (D (select H_notExpr_expr@pre q_n_123) q_d_124 q_i_125 true q_j_126 q_v_127) (D (box_Int 10 q_n_123) q_d_124 q_i_125 false q_i_125 nilAny)) :pattern ((D (select H_notExpr_expr@pre q_n_123) q_d_124 q_i_125 true q_j_126 q_v_127))))) ; axiom not-true
(assert (forall ((q_n_128 Int) (q_d_129 Slice_Int) (q_i_130 Int) (q_j_131 Int) (q_v_132 Any)) (! (=> (D (select H_notExpr_expr@pre q_n_128) q_d_129 q_i_130 false q_j_131 q_v_132) (D (box_Int 10 q_n_128) q_d_129 q_i_130 true q_i_130 nilAny)) :pattern ((D (select H_notExpr_expr@pre q_n_128) q_d_129 q_i_130 false q_j_131 q_v_132))))) ; axiom not-false
(assert (forall ((q_e_133 Any) (q_d_134 Slice_Int) (q_k_135 Int) (q_i_136 Int) (q_j_137 Int) (q_a_138 (Array Int Any)) (q_j2_139 Int) (q_v_140 Any)) (! (=> (and (and (RepPre q_e_133 q_d_134 q_k_135 q_i_136 q_j_137 q_a_138) (<= 0 q_k_135)) (D q_e_133 q_d_134 q_j_137 true q_j2_139 q_v_140)) (RepPre q_e_133 q_d_134 (+ q_k_135 1) q_i_136 q_j2_139 (store q_a_138 q_k_135 q_v_140))) :pattern ((RepPre q_e_133 q_d_134 q_k_135 q_i_136 q_j_137 q_a_138) (D q_e_133 q_d_134 q_j_137 true q_j2_139 q_v_140))))) ; axiom rep-step
(assert (forall ((q_z_141 Int) (q_d_142 Slice_Int) (q_k_143 Int) (q_i_144 Int) (q_j_145 Int) (q_vs_146 Slice_Any) (q_v_147 Any)) (! (=> (and (and (and (RepPre (select H_zeroOrMoreExpr_expr@pre q_z_141) q_d_142 q_k_143 q_i_144 q_j_145 (arr_Slice_Any q_vs_146)) (= (off_Slice_Any q_vs_146) 0)) (= (len_Slice_Any q_vs_146) q_k_143)) (D (select H_zeroOrMoreExpr_expr@pre q_z_141) q_d_142 q_j_145 false q_j_145 q_v_147)) (D (box_Int 11 q_z_141) q_d_142 q_i_144 true q_j_145 (box_Slice_Any 7 q_vs_146))) :pattern ((RepPre (select H_zeroOrMoreExpr_expr@pre q_z_141) q_d_142 q_k_143 q_i_144 q_j_145 (arr_Slice_Any q_vs_146)) (D (select H_zeroOrMoreExpr_expr@pre q_z_141) q_d_142 q_j_145 false q_j_145 q_v_147))))) ; axiom star-ok
(assert (forall ((q_o_148 Int) (q_d_149 Slice_Int) (q_k_150 Int) (q_i_151 Int) (q_j_152 Int) (q_vs_153 Slice_Any) (q_v_154 Any)) (! (=> (and (and (and (and (RepPre (select H_oneOrMoreExpr_expr@pre q_o_148) q_d_149 q_k_150 q_i_151 q_j_152 (arr_Slice_Any q_vs_153)) (>= q_k_150 1)) (= (off_Slice_Any q_vs_153) 0)) (= (len_Slice_Any q_vs_153) q_k_150)) (D (select H_oneOrMoreExpr_expr@pre q_o_148) q_d_149 q_j_152 false q_j_152 q_v_154)) (D (box_Int 12 q_o_148) q_d_149 q_i_151 true q_j_152 (box_Slice_Any 7 q_vs_153))) :pattern ((RepPre (select H_oneOrMoreExpr_expr@pre q_o_148) q_d_149 q_k_150 q_i_151 q_j_152 (arr_Slice_Any q_vs_153)) (D (select H_oneOrMoreExpr_expr@pre q_o_148) q_d_149 q_j_152 false q_j_152 q_v_154))))) ; axiom plus-ok
(assert (forall ((q_o_155 Int) (q_d_156 Slice_Int) (q_i_157 Int) (q_v_158 Any)) (! (=> (D (select H_oneOrMoreExpr_expr@pre q_o_155) q_d_156 q_i_157 false q_i_157 q_v_158) (D (box_Int 12 q_o_155) q_d_156 q_i_157 false q_i_157 nilAny)) :pattern ((D (select H_oneOrMoreExpr_expr@pre q_o_155) q_d_156 q_i_157 false q_i_157 q_v_158) (D (box_Int 12 q_o_155) q_d_156 q_i_157 false q_i_157 nilAny))))) ; axiom plus-fail
(assert (forall ((q_z_159 Int) (q_d_160 Slice_Int) (q_i_161 Int) (q_j_162 Int) (q_v_163 Any)) (! (=> (D (select H_zeroOrOneExpr_expr@pre q_z_159) q_d_160 q_i_161 true q_j_162 q_v_163) (D (box_Int 13 q_z_159) q_d_160 q_i_161 true q_j_162 q_v_163)) :pattern ((D (select H_zeroOrOneExpr_expr@pre q_z_159) q_d_160 q_i_161 true q_j_162 q_v_163))))) ; axiom opt-some
(assert (forall ((q_z_164 Int) (q_d_165 Slice_Int) (q_i_166 Int) (q_v_167 Any)) (! (=> (D (select H_zeroOrOneExpr_expr@pre q_z_164) q_d_165 q_i_166 false q_i_166 q_v_167) (D (box_Int 13 q_z_164) q_d_165 q_i_166 true q_i_166 nilAny)) :pattern ((D (select H_zeroOrOneExpr_expr@pre q_z_164) q_d_165 q_i_166 false q_i_166 q_v_167))))) ; axiom opt-none
(assert (forall ((q_l_168 Int) (q_d_169 Slice_Int) (q_i_170 Int) (q_ok_171 Bool) (q_j_172 Int) (q_v_173 Any)) (! (=> (D (select H_labeledExpr_expr@pre q_l_168) q_d_169 q_i_170 q_ok_171 q_j_172 q_v_173) (D (box_Int 14 q_l_168) q_d_169 q_i_170 q_ok_171 q_j_172 q_v_173)) :pattern ((D (select H_labeledExpr_expr@pre q_l_168) q_d_169 q_i_170 q_ok_171 q_j_172 q_v_173))))) ; axiom label-intro
(assert (forall ((q_a_174 Int) (q_d_175 Slice_Int) (q_i_176 Int) (q_j_177 Int) (q_v_178 Any) (q_w_179 Any)) (! (=> (D (select H_actionExpr_expr@pre q_a_174) q_d_175 q_i_176 true q_j_177 q_v_178) (D (box_Int 15 q_a_174) q_d_175 q_i_176 true q_j_177 q_w_179)) :pattern ((D (select H_actionExpr_expr@pre q_a_174) q_d_175 q_i_176 true q_j_177 q_v_178) (D (box_Int 15 q_a_174) q_d_175 q_i_176 true q_j_177 q_w_179))))) ; axiom action-ok
(assert (forall ((q_a_180 Int) (q_d_181 Slice_Int) (q_i_182 Int) (q_v_183 Any)) (! (=> (D (select H_actionExpr_expr@pre q_a_180) q_d_181 q_i_182 false q_i_182 q_v_183) (D (box_Int 15 q_a_180) q_d_181 q_i_182 false q_i_182 nilAny)) :pattern ((D (select H_actionExpr_expr@pre q_a_180) q_d_181 q_i_182 false q_i_182 q_v_183))))) ; axiom action-fail
(assert (forall ((q_a_184 Int) (q_d_185 Slice_Int) (q_i_186 Int) (q_ok_187 Bool)) (! (D (box_Int 16 q_a_184) q_d_185 q_i_186 q_ok_187 q_i_186 nilAny) :pattern ((D (box_Int 16 q_a_184) q_d_185 q_i_186 q_ok_187 q_i_186 nilAny))))) ; axiom andcode
(assert (forall ((q_a_188 Int) (q_d_189 Slice_Int) (q_i_190 Int) (q_ok_191 Bool)) (! (D (box_Int 17 q_a_188) q_d_189 q_i_190 q_ok_191 q_i_190 nilAny) :pattern ((D (box_Int 17 q_a_188) q_d_189 q_i_190 q_ok_191 q_i_190 nilAny))))) ; axiom notcode
(assert (forall ((q_t_192 Int) (q_d_193 Slice_Int) (q_i_194 Int) (q_ok_195 Bool) (q_j_196 Int) (q_v_197 Any)) (! (D (box_Int 18 q_t_192) q_d_193 q_i_194 q_ok_195 q_j_196 q_v_197) :pattern ((D (box_Int 18 q_t_192) q_d_193 q_i_194 q_ok_195 q_j_196 q_v_197))))) ; axiom throw-any
(assert (forall ((q_r_198 Int) (q_d_199 Slice_Int) (q_i_200 Int) (q_ok_201 Bool) (q_j_202 Int) (q_v_203 Any)) (! (D (box_Int 19 q_r_198) q_d_199 q_i_200 q_ok_201 q_j_202 q_v_203) :pattern ((D (box_Int 19 q_r_198) q_d_199 q_i_200 q_ok_201 q_j_202 q_v_203))))) ; axiom recovery-any
(assert (forall ((q_rs_204 Slice_Int) (q_l_205 Str) (q_d_206 Slice_Int) (q_i_207 Int)) (! (ThrowPre q_rs_204 (- (len_Slice_Int q_rs_204) 1) q_l_205 q_d_206 q_i_207) :pattern ((ThrowPre q_rs_204 (- (len_Slice_Int q_rs_204) 1) q_l_205 q_d_206 q_i_207))))) ; axiom throw-base
(assert (forall ((q_rs_208 Slice_Int) (q_n_209 Int) (q_l_210 Str) (q_d_211 Slice_Int) (q_i_212 Int)) (! (=> (and (and (and (ThrowPre q_rs_208 q_n_209 q_l_210 q_d_211 q_i_212) (<= 0 q_n_209)) (< q_n_209 (len_Slice_Int q_rs_208))) (not (and (not (= (elem_Slice_Int q_rs_208 q_n_209) 0)) (select (select Mdom_map_string_any@pre (elem_Slice_Int q_rs_208 q_n_209)) q_l_210)))) (ThrowPre q_rs_208 (- q_n_209 1) q_l_210 q_d_211 q_i_212)) :pattern ((ThrowPre q_rs_208 q_n_209 q_l_210 q_d_211 q_i_212))))) ; axiom throw-skip
(assert (forall ((q_rs_213 Slice_Int) (q_n_214 Int) (q_l_215 Str) (q_d_216 Slice_Int) (q_i_217 Int) (q_v_218 Any)) (! (=> (and (and (and (and (ThrowPre q_rs_213 q_n_214 q_l_215 q_d_216 q_i_217) (<= 0 q_n_214)) (< q_n_214 (len_Slice_Int q_rs_213))) (and (not (= (elem_Slice_Int q_rs_213 q_n_214) 0)) (select (select Mdom_map_string_any@pre (elem_Slice_Int q_rs_213 q_n_214)) q_l_215))) (D (select (select Mval_map_string_any@pre (elem_Slice_Int q_rs_213 q_n_214)) q_l_215) q_d_216 q_i_217 false q_i_217 q_v_218)) (ThrowPre q_rs_213 (- q_n_214 1) q_l_215 q_d_216 q_i_217)) :pattern ((ThrowPre q_rs_213 q_n_214 q_l_215 q_d_216 q_i_217) (D (select (select Mval_map_string_any@pre (elem_Slice_Int q_rs_213 q_n_214)) q_l_215) q_d_216 q_i_217 false q_i_217 q_v_218))))) ; axiom throw-next
(assert (forall ((q_rs_219 Slice_Int) (q_n_220 Int) (q_l_221 Str) (q_d_222 Slice_Int) (q_i_223 Int) (q_j_224 Int) (q_v_225 Any)) (! (=> (and (and (and (and (ThrowPre q_rs_219 q_n_220 q_l_221 q_d_222 q_i_223) (<= 0 q_n_220)) (< q_n_220 (len_Slice_Int q_rs_219))) (and (not (= (elem_Slice_Int q_rs_219 q_n_220) 0)) (select (select Mdom_map_string_any@pre (elem_Slice_Int q_rs_219 q_n_220)) q_l_221))) (D (select (select Mval_map_string_any@pre (elem_Slice_Int q_rs_219 q_n_220)) q_l_221) q_d_222 q_i_223 true q_j_224 q_v_225)) (TH q_rs_219 q_l_221 q_d_222 q_i_223 true q_j_224 q_v_225)) :pattern ((ThrowPre q_rs_219 q_n_220 q_l_221 q_d_222 q_i_223) (D (select (select Mval_map_string_any@pre (elem_Slice_Int q_rs_219 q_n_220)) q_l_221) q_d_222 q_i_223 true q_j_224 q_v_225))))) ; axiom throw-ok
(assert (forall ((q_rs_226 Slice_Int) (q_l_227 Str) (q_d_228 Slice_Int) (q_i_229 Int)) (! (=> (ThrowPre q_rs_226 (- 0 1) q_l_227 q_d_228 q_i_229) (TH q_rs_226 q_l_227 q_d_228 q_i_229 false q_i_229 nilAny)) :pattern ((ThrowPre q_rs_226 (- 0 1) q_l_227 q_d_228 q_i_229))))) ; axiom throw-fail
(assert (forall ((q_r_230 Int) (q_d_231 Slice_Int) (q_i_232 Int) (q_ok_233 Bool) (q_j_234 Int) (q_v_235 Any)) (! (=> (D (select H_rule_expr@pre q_r_230) q_d_231 q_i_232 q_ok_233 q_j_234 q_v_235) (DR q_r_230 q_d_231 q_i_232 q_ok_233 q_j_234 q_v_235)) :pattern ((D (select H_rule_expr@pre q_r_230) q_d_231 q_i_232 q_ok_233 q_j_234 q_v_235))))) ; axiom rule-intro
(assert (forall ((q_f_236 Int) (q_r_237 Int) (q_d_238 Slice_Int) (q_i_239 Int) (q_ok_240 Bool) (q_j_241 Int) (q_v_242 Any)) (! (=> (and (and (DR q_r_237 q_d_238 q_i_239 q_ok_240 q_j_241 q_v_242) (not (= q_r_237 0))) (= (select H_rule_name@pre q_r_237) (select H_ruleRefExpr_name@pre q_f_236))) (D (box_Int 20 q_f_236) q_d_238 q_i_239 q_ok_240 q_j_241 q_v_242)) :pattern ((DR q_r_237 q_d_238 q_i_239 q_ok_240 q_j_241 q_v_242) (D (box_Int 20 q_f_236) q_d_238 q_i_239 q_ok_240 q_j_241 q_v_242))))) ; axiom ref-intro
(assert (forall ((q_f_243 Int) (q_d_244 Slice_Int) (q_i_245 Int)) (! (=> (not (defined (select H_ruleRefExpr_name@pre q_f_243))) (D (box_Int 20 q_f_243) q_d_244 q_i_245 false q_i_245 nilAny)) :pattern ((D (box_Int 20 q_f_243) q_d_244 q_i_245 false q_i_245 nilAny))))) ; axiom ref-undef
(assert (forall ((q_e_246 Any)) (! (= (IsNode q_e_246) (or (or (or (or (or (or (or (or (or (or (or (or (or (or (or (or (or (and (= (typeOf q_e_246) 15) (not (= (unbox_Int q_e_246) 0))) (and (= (typeOf q_e_246) 16) (not (= (unbox_Int q_e_246) 0)))) (and (= (typeOf q_e_246) 9) (not (= (unbox_Int q_e_246) 0)))) (and (= (typeOf q_e_246) 5) (not (= (unbox_Int q_e_246) 0)))) (and (= (typeOf q_e_246) 4) (not (= (unbox_Int q_e_246) 0)))) (and (= (typeOf q_e_246) 8) (not (= (unbox_Int q_e_246) 0)))) (and (= (typeOf q_e_246) 14) (not (= (unbox_Int q_e_246) 0)))) (and (= (typeOf q_e_246) 3) (not (= (unbox_Int q_e_246) 0)))) (and (= (typeOf q_e_246) 17) (not (= (unbox_Int q_e_246) 0)))) (and (= (typeOf q_e_246) 10) (not (= (unbox_Int q_e_246) 0)))) (and (= (typeOf q_e_246) 12) (not (= (unbox_Int q_e_246) 0)))) (and (= (typeOf q_e_246) 19) (not (= (unbox_Int q_e_246) 0)))) (and (= (typeOf q_e_246) 20) (not (= (unbox_Int q_e_246) 0)))) (and (= (typeOf q_e_246) 6) (not (= (unbox_Int q_e_246) 0)))) false) (and (= (typeOf q_e_246) 18) (not (= (unbox_Int q_e_246) 0)))) (and (= (typeOf q_e_246) 11) (not (= (unbox_Int q_e_246) 0)))) (and (= (typeOf q_e_246) 13) (not (= (unbox_Int q_e_246) 0))))) :pattern ((IsNode q_e_246))))) ; axiom node-def
(assert (forall ((q_a_247 Int)) (! (=> (not (= q_a_247 0)) (and (IsNode (select H_actionExpr_expr@pre q_a_247)) (not (= (select H_actionExpr_run@pre q_a_247) 0)))) :pattern ((select H_actionExpr_expr@pre q_a_247))))) ; axiom wf-action
(assert (forall ((q_a_248 Int)) (! (=> (not (= q_a_248 0)) (IsNode (select H_andExpr_expr@pre q_a_248))) :pattern ((select H_andExpr_expr@pre q_a_248))))) ; axiom wf-and
(assert (forall ((q_a_249 Int)) (! (=> (not (= q_a_249 0)) (IsNode (select H_notExpr_expr@pre q_a_249))) :pattern ((select H_notExpr_expr@pre q_a_249))))) ; axiom wf-not
(assert (forall ((q_a_250 Int)) (! (=> (not (= q_a_250 0)) (IsNode (select H_zeroOrOneExpr_expr@pre q_a_250))) :pattern ((select H_zeroOrOneExpr_expr@pre q_a_250))))) ; axiom wf-opt
(assert (forall ((q_a_251 Int)) (! (=> (not (= q_a_251 0)) (IsNode (select H_zeroOrMoreExpr_expr@pre q_a_251))) :pattern ((select H_zeroOrMoreExpr_expr@pre q_a_251))))) ; axiom wf-star
(assert (forall ((q_a_252 Int)) (! (=> (not (= q_a_252 0)) (IsNode (select H_oneOrMoreExpr_expr@pre q_a_252))) :pattern ((select H_oneOrMoreExpr_expr@pre q_a_252))))) ; axiom wf-plus
(assert (forall ((q_a_253 Int)) (! (=> (not (= q_a_253 0)) (IsNode (select H_labeledExpr_expr@pre q_a_253))) :pattern ((select H_labeledExpr_expr@pre q_a_253))))) ; axiom wf-label
(assert (forall ((q_a_254 Int)) (! (=> (not (= q_a_254 0)) (IsNode (select H_recoveryExpr_expr@pre q_a_254))) :pattern ((select H_recoveryExpr_expr@pre q_a_254))))) ; axiom wf-recovery
(assert (forall ((q_a_255 Int)) (! (=> (not (= q_a_255 0)) (IsNode (select H_recoveryExpr_recoverExpr@pre q_a_255))) :pattern ((select H_recoveryExpr_recoverExpr@pre q_a_255))))) ; axiom wf-recovery2
(assert (forall ((q_s_256 Int) (q_k_257 Int)) (! (=> (and (and (not (= q_s_256 0)) (<= 0 q_k_257)) (< q_k_257 (len_Slice_Any (select H_seqExpr_exprs@pre q_s_256)))) (IsNode (elem_Slice_Any (select H_seqExpr_exprs@pre q_s_256) q_k_257))) :pattern ((elem_Slice_Any (select H_seqExpr_exprs@pre q_s_256) q_k_257))))) ; axiom wf-seq
(assert (forall ((q_c_258 Int) (q_k_259 Int)) (! (=> (and (and (not (= q_c_258 0)) (<= 0 q_k_259)) (< q_k_259 (len_Slice_Any (select H_choiceExpr_alternatives@pre q_c_258)))) (IsNode (elem_Slice_Any (select H_choiceExpr_alternatives@pre q_c_258) q_k_259))) :pattern ((elem_Slice_Any (select H_choiceExpr_alternatives@pre q_c_258) q_k_259))))) ; axiom wf-choice
(assert (forall ((q_a_260 Int)) (! (=> (not (= q_a_260 0)) (not (= (select H_andCodeExpr_run@pre q_a_260) 0))) :pattern ((select H_andCodeExpr_run@pre q_a_260))))) ; axiom wf-andcode
(assert (forall ((q_a_261 Int)) (! (=> (not (= q_a_261 0)) (not (= (select H_notCodeExpr_run@pre q_a_261) 0))) :pattern ((select H_notCodeExpr_run@pre q_a_261))))) ; axiom wf-notcode
(assert (forall ((q_c_262 Int)) (! (=> (not (= q_c_262 0)) (= (mod (len_Slice_Int (select H_charClassMatcher_ranges@pre q_c_262)) 2) 0)) :pattern ((select H_charClassMatcher_ranges@pre q_c_262))))) ; axiom wf-class
(assert (forall ((q_r_263 Int)) (! (=> (not (= q_r_263 0)) (IsNode (select H_rule_expr@pre q_r_263))) :pattern ((select H_rule_expr@pre q_r_263))))) ; axiom wf-rule
(assert (forall ((q_o_264 Slice_Any) (q_j_265 Int) (q_a_266 (Array Int Any)) (q_n_267 Int)) (! (=> (and (and (and (KeptE q_o_264 q_j_265 q_a_266 q_n_267) (<= 0 q_j_265)) (< q_j_265 (len_Slice_Any q_o_264))) (forall ((q_i_268 Int)) (=> (and (<= 0 q_i_268) (< q_i_268 q_j_265)) (not (= (errMsg (elem_Slice_Any q_o_264 q_i_268)) (errMsg (elem_Slice_Any q_o_264 q_j_265))))))) (KeptE q_o_264 (+ q_j_265 1) (store q_a_266 q_n_267 (elem_Slice_Any q_o_264 q_j_265)) (+ q_n_267 1))) :pattern ((KeptE q_o_264 q_j_265 q_a_266 q_n_267))))) ; axiom kepte-take
(assert (forall ((q_o_269 Slice_Any) (q_j_270 Int) (q_a_271 (Array Int Any)) (q_n_272 Int)) (! (=> (and (and (and (KeptE q_o_269 q_j_270 q_a_271 q_n_272) (<= 0 q_j_270)) (< q_j_270 (len_Slice_Any q_o_269))) (not (forall ((q_i_273 Int)) (=> (and (<= 0 q_i_273) (< q_i_273 q_j_270)) (not (= (errMsg (elem_Slice_Any q_o_269 q_i_273)) (errMsg (elem_Slice_Any q_o_269 q_j_270)))))))) (KeptE q_o_269 (+ q_j_270 1) q_a_271 q_n_272)) :pattern ((KeptE q_o_269 q_j_270 q_a_271 q_n_272))))) ; axiom kepte-skip
(assert (forall ((q_b_274 Slice_Int)) (! (and (=> (= (len_Slice_Int q_b_274) 0) (and (= (decR q_b_274) 65533) (= (decW q_b_274) 0))) (=> (> (len_Slice_Int q_b_274) 0) (and (and (<= 1 (decW q_b_274)) (<= (decW q_b_274) 4)) (<= (decW q_b_274) (len_Slice_Int q_b_274))))) :pattern ((decW q_b_274))))) ; axiom dec-eof
(assert (forall ((q_b_275 Slice_Int)) (! (and (<= 0 (decR q_b_275)) (<= (decR q_b_275) 1114111)) :pattern ((decR q_b_275))))) ; axiom dec-range
(assert (= (toLower 65533) 65533)) ; axiom tolower-fffd
(assert (forall ((q_d_276 Slice_Int)) (! (and (and (bnd q_d_276 0) (= (lineAt q_d_276 0) (ite (= (decR (mk_Slice_Int (arr_Slice_Int q_d_276) (+ (off_Slice_Int q_d_276) 0) (- (len_Slice_Int q_d_276) 0) (- (cap_Slice_Int q_d_276) 0))) 10) 2 1))) (= (colAt q_d_276 0) (ite (= (decR (mk_Slice_Int (arr_Slice_Int q_d_276) (+ (off_Slice_Int q_d_276) 0) (- (len_Slice_Int q_d_276) 0) (- (cap_Slice_Int q_d_276) 0))) 10) 0 1))) :pattern ((bnd q_d_276 0))))) ; axiom pos-base
(assert (forall ((q_l_277 Int) (q_d_278 Slice_Int) (q_i_279 Int)) (! (LitPre q_l_277 q_d_278 0 q_i_279 q_i_279) :pattern ((LitPre q_l_277 q_d_278 0 q_i_279 q_i_279))))) ; axiom lit-base
(assert (forall ((q_s_280 Int) (q_d_281 Slice_Int) (q_i_282 Int) (q_a_283 (Array Int Any))) (! (SeqPre q_s_280 q_d_281 0 q_i_282 q_i_282 q_a_283) :pattern ((SeqPre q_s_280 q_d_281 0 q_i_282 q_i_282 q_a_283))))) ; axiom seq-base
(assert (forall ((q_c_284 Int) (q_d_285 Slice_Int) (q_i_286 Int)) (! (ChoicePre q_c_284 q_d_285 0 q_i_286) :pattern ((ChoicePre q_c_284 q_d_285 0 q_i_286))))) ; axiom choice-base
(assert (forall ((q_e_287 Any) (q_d_288 Slice_Int) (q_i_289 Int) (q_a_290 (Array Int Any))) (! (RepPre q_e_287 q_d_288 0 q_i_289 q_i_289 q_a_290) :pattern ((RepPre q_e_287 q_d_288 0 q_i_289 q_i_289 q_a_290))))) ; axiom rep-base
(assert (forall ((q_o_291 Slice_Any) (q_a_292 (Array Int Any))) (! (KeptE q_o_291 0 q_a_292 0) :pattern ((KeptE q_o_291 0 q_a_292 0))))) ; axiom kepte-base
(assert (forall ((r Int)) (! (and (<= 0 (len_Slice_Any (select P_Slice_Any@pre r))) (<= (len_Slice_Any (select P_Slice_Any@pre r)) (cap_Slice_Any (select P_Slice_Any@pre r))) (<= 0 (off_Slice_Any (select P_Slice_Any@pre r)))) :pattern ((select P_Slice_Any@pre r)))))
(assert (forall ((r Int)) (! (and (<= 0 (len_Slice_Int (select H_grammar_rules@pre r))) (<= (len_Slice_Int (select H_grammar_rules@pre r)) (cap_Slice_Int (select H_grammar_rules@pre r))) (<= 0 (off_Slice_Int (select H_grammar_rules@pre r)))) :pattern ((select H_grammar_rules@pre r)))))
(assert (forall ((r Int)) (! (and (<= 0 (len_Slice_Int (select H_parser_data@pre r))) (<= (len_Slice_Int (select H_parser_data@pre r)) (cap_Slice_Int (select H_parser_data@pre r))) (<= 0 (off_Slice_Int (select H_parser_data@pre r)))) :pattern ((select H_parser_data@pre r)))))
(assert (forall ((r Int)) (! (and (<= 0 (len_Slice_Int (select H_parser_vstack@pre r))) (<= (len_Slice_Int (select H_parser_vstack@pre r)) (cap_Slice_Int (select H_parser_vstack@pre r))) (<= 0 (off_Slice_Int (select H_parser_vstack@pre r)))) :pattern ((select H_parser_vstack@pre r)))))
(assert (forall ((r Int)) (! (and (<= 0 (len_Slice_Int (select H_parser_rstack@pre r))) (<= (len_Slice_Int (select H_parser_rstack@pre r)) (cap_Slice_Int (select H_parser_rstack@pre r))) (<= 0 (off_Slice_Int (select H_parser_rstack@pre r)))) :pattern ((select H_parser_rstack@pre r)))))
(assert (forall ((r Int)) (! (and (<= 0 (len_Slice_Str (select H_parser_maxFailExpected@pre r))) (<= (len_Slice_Str (select H_parser_maxFailExpected@pre r)) (cap_Slice_Str (select H_parser_maxFailExpected@pre r))) (<= 0 (off_Slice_Str (select H_parser_maxFailExpected@pre r)))) :pattern ((select H_parser_maxFailExpected@pre r)))))
(assert (forall ((r Int)) (! (and (<= 0 (len_Slice_Int (select H_parser_recoveryStack@pre r))) (<= (len_Slice_Int (select H_parser_recoveryStack@pre r)) (cap_Slice_Int (select H_parser_recoveryStack@pre r))) (<= 0 (off_Slice_Int (select H_parser_recoveryStack@pre r)))) :pattern ((select H_parser_recoveryStack@pre r)))))
(assert (forall ((r Int)) (! (and (<= 0 (len_Slice_Int (select H_charClassMatcher_chars@pre r))) (<= (len_Slice_Int (select H_charClassMatcher_chars@pre r)) (cap_Slice_Int (select H_charClassMatcher_chars@pre r))) (<= 0 (off_Slice_Int (select H_charClassMatcher_chars@pre r)))) :pattern ((select H_charClassMatcher_chars@pre r)))))
(assert (forall ((r Int)) (! (and (<= 0 (len_Slice_Int (select H_charClassMatcher_ranges@pre r))) (<= (len_Slice_Int (select H_charClassMatcher_ranges@pre r)) (cap_Slice_Int (select H_charClassMatcher_ranges@pre r))) (<= 0 (off_Slice_Int (select H_charClassMatcher_ranges@pre r)))) :pattern ((select H_charClassMatcher_ranges@pre r)))))
(assert (forall ((r Int)) (! (and (<= 0 (len_Slice_Int (select H_charClassMatcher_classes@pre r))) (<= (len_Slice_Int (select H_charClassMatcher_classes@pre r)) (cap_Slice_Int (select H_charClassMatcher_classes@pre r))) (<= 0 (off_Slice_Int (select H_charClassMatcher_classes@pre r)))) :pattern ((select H_charClassMatcher_classes@pre r)))))
(assert (forall ((r Int)) (! (and (<= 0 (len_Slice_Any (select H_seqExpr_exprs@pre r))) (<= (len_Slice_Any (select H_seqExpr_exprs@pre r)) (cap_Slice_Any (select H_seqExpr_exprs@pre r))) (<= 0 (off_Slice_Any (select H_seqExpr_exprs@pre r)))) :pattern ((select H_seqExpr_exprs@pre r)))))
(assert (forall ((r Int)) (! (and (<= 0 (len_Slice_Any (select H_choiceExpr_alternatives@pre r))) (<= (len_Slice_Any (select H_choiceExpr_alternatives@pre r)) (cap_Slice_Any (select H_choiceExpr_alternatives@pre r))) (<= 0 (off_Slice_Any (select H_choiceExpr_alternatives@pre r)))) :pattern ((select H_choiceExpr_alternatives@pre r)))))
(assert (and (<= 0 (len_Slice_Int in_b)) (<= (len_Slice_Int in_b) (cap_Slice_Int in_b)) (<= 0 (off_Slice_Int in_b))))
(assert (and (<= 0 (len_Slice_Int in_opts)) (<= (len_Slice_Int in_opts) (cap_Slice_Int in_opts)) (<= 0 (off_Slice_Int in_opts))))
(assert (not (= map!1 0)))
(assert (not (select Alloc@pre map!1)))
(assert (= Alloc!2 (store Alloc@pre map!1 true)))
(assert (= Mdom_map_string_map_string_int!3 (store Mdom_map_string_map_string_int@pre map!1 ((as const (Array Str Bool)) false))))
(assert (not (= new!4 0)))
(assert (not (select Alloc!2 new!4)))
(assert (not (select Alloc@pre new!4)))
(assert (= Alloc!5 (store Alloc!2 new!4 true)))
(assert (= P_Slice_Any!6 (store P_Slice_Any@pre new!4 nilslice_Slice_Any)))
(assert (not (= map!7 0)))
(assert (not (select Alloc!5 map!7)))
(assert (not (select Alloc@pre map!7)))
(assert (= Alloc!8 (store Alloc!5 map!7 true)))
(assert (= Mdom_storeDict!9 (store Mdom_storeDict@pre map!7 ((as const (Array Str Bool)) false))))
(assert (not (= addr_stats!10 0)))
(assert (not (select Alloc!8 addr_stats!10)))
(assert (not (select Alloc@pre addr_stats!10)))
(assert (= Alloc!11 (store Alloc!8 addr_stats!10 true)))
(assert (= H_Stats_ExprCnt!12 (store H_Stats_ExprCnt@pre addr_stats!10 (S_Stats_ExprCnt (mk_S_Stats 0 map!1)))))
(assert (= H_Stats_ChoiceAltCnt!13 (store H_Stats_ChoiceAltCnt@pre addr_stats!10 (S_Stats_ChoiceAltCnt (mk_S_Stats 0 map!1)))))
(assert (and (<= 0 (len_Slice_Int (select H_grammar_rules@pre G_g@pre))) (<= (len_Slice_Int (select H_grammar_rules@pre G_g@pre)) (cap_Slice_Int (select H_grammar_rules@pre G_g@pre))) (<= 0 (off_Slice_Int (select H_grammar_rules@pre G_g@pre)))))
(assert (not (= new_parser!14 0)))
(assert (not (select Alloc!11 new_parser!14)))
(assert (not (select Alloc@pre new_parser!14)))
(assert (= Alloc!15 (store Alloc!11 new_parser!14 true)))
(assert (= H_parser_filename!16 (store H_parser_filename@pre new_parser!14 (S_parser_filename (mk_S_parser in_filename (mk_S_savepoint (mk_S_position 1 0 0) 0 0) (mk_S_current (mk_S_position 0 0 0) nilslice_Slice_Int map!7) in_b new!4 0 true 0 nilslice_Slice_Int nilslice_Slice_Int (mk_S_position 1 1 0) (mk_Slice_Str constarr_Array_Int_Str 0 0 20) false 0 (select H_rule_name@pre (elem_Slice_Int (select H_grammar_rules@pre G_g@pre) 0)) false addr_stats!10 emptyStr nilslice_Slice_Int)))))
(assert (= H_parser_pt!17 (store H_parser_pt@pre new_parser!14 (S_parser_pt (mk_S_parser in_filename (mk_S_savepoint (mk_S_position 1 0 0) 0 0) (mk_S_current (mk_S_position 0 0 0) nilslice_Slice_Int map!7) in_b new!4 0 true 0 nilslice_Slice_Int nilslice_Slice_Int (mk_S_position 1 1 0) (mk_Slice_Str constarr_Array_Int_Str 0 0 20) false 0 (select H_rule_name@pre (elem_Slice_Int (select H_grammar_rules@pre G_g@pre) 0)) false addr_stats!10 emptyStr nilslice_Slice_Int)))))
(assert (= H_parser_cur!18 (store H_parser_cur@pre new_parser!14 (S_parser_cur (mk_S_parser in_filename (mk_S_savepoint (mk_S_position 1 0 0) 0 0) (mk_S_current (mk_S_position 0 0 0) nilslice_Slice_Int map!7) in_b new!4 0 true 0 nilslice_Slice_Int nilslice_Slice_Int (mk_S_position 1 1 0) (mk_Slice_Str constarr_Array_Int_Str 0 0 20) false 0 (select H_rule_name@pre (elem_Slice_Int (select H_grammar_rules@pre G_g@pre) 0)) false addr_stats!10 emptyStr nilslice_Slice_Int)))))
(assert (= H_parser_data!19 (store H_parser_data@pre new_parser!14 (S_parser_data (mk_S_parser in_filename (mk_S_savepoint (mk_S_position 1 0 0) 0 0) (mk_S_current (mk_S_position 0 0 0) nilslice_Slice_Int map!7) in_b new!4 0 true 0 nilslice_Slice_Int nilslice_Slice_Int (mk_S_position 1 1 0) (mk_Slice_Str constarr_Array_Int_Str 0 0 20) false 0 (select H_rule_name@pre (elem_Slice_Int (select H_grammar_rules@pre G_g@pre) 0)) false addr_stats!10 emptyStr nilslice_Slice_Int)))))
(assert (= H_parser_errs!20 (store H_parser_errs@pre new_parser!14 (S_parser_errs (mk_S_parser in_filename (mk_S_savepoint (mk_S_position 1 0 0) 0 0) (mk_S_current (mk_S_position 0 0 0) nilslice_Slice_Int map!7) in_b new!4 0 true 0 nilslice_Slice_Int nilslice_Slice_Int (mk_S_position 1 1 0) (mk_Slice_Str constarr_Array_Int_Str 0 0 20) false 0 (select H_rule_name@pre (elem_Slice_Int (select H_grammar_rules@pre G_g@pre) 0)) false addr_stats!10 emptyStr nilslice_Slice_Int)))))
(assert (= H_parser_depth!21 (store H_parser_depth@pre new_parser!14 (S_parser_depth (mk_S_parser in_filename (mk_S_savepoint (mk_S_position 1 0 0) 0 0) (mk_S_current (mk_S_position 0 0 0) nilslice_Slice_Int map!7) in_b new!4 0 true 0 nilslice_Slice_Int nilslice_Slice_Int (mk_S_position 1 1 0) (mk_Slice_Str constarr_Array_Int_Str 0 0 20) false 0 (select H_rule_name@pre (elem_Slice_Int (select H_grammar_rules@pre G_g@pre) 0)) false addr_stats!10 emptyStr nilslice_Slice_Int)))))
(assert (= H_parser_recover!22 (store H_parser_recover@pre new_parser!14 (S_parser_recover (mk_S_parser in_filename (mk_S_savepoint (mk_S_position 1 0 0) 0 0) (mk_S_current (mk_S_position 0 0 0) nilslice_Slice_Int map!7) in_b new!4 0 true 0 nilslice_Slice_Int nilslice_Slice_Int (mk_S_position 1 1 0) (mk_Slice_Str constarr_Array_Int_Str 0 0 20) false 0 (select H_rule_name@pre (elem_Slice_Int (select H_grammar_rules@pre G_g@pre) 0)) false addr_stats!10 emptyStr nilslice_Slice_Int)))))
(assert (= H_parser_rules!23 (store H_parser_rules@pre new_parser!14 (S_parser_rules (mk_S_parser in_filename (mk_S_savepoint (mk_S_position 1 0 0) 0 0) (mk_S_current (mk_S_position 0 0 0) nilslice_Slice_Int map!7) in_b new!4 0 true 0 nilslice_Slice_Int nilslice_Slice_Int (mk_S_position 1 1 0) (mk_Slice_Str constarr_Array_Int_Str 0 0 20) false 0 (select H_rule_name@pre (elem_Slice_Int (select H_grammar_rules@pre G_g@pre) 0)) false addr_stats!10 emptyStr nilslice_Slice_Int)))))
(assert (= H_parser_vstack!24 (store H_parser_vstack@pre new_parser!14 (S_parser_vstack (mk_S_parser in_filename (mk_S_savepoint (mk_S_position 1 0 0) 0 0) (mk_S_current (mk_S_position 0 0 0) nilslice_Slice_Int map!7) in_b new!4 0 true 0 nilslice_Slice_Int nilslice_Slice_Int (mk_S_position 1 1 0) (mk_Slice_Str constarr_Array_Int_Str 0 0 20) false 0 (select H_rule_name@pre (elem_Slice_Int (select H_grammar_rules@pre G_g@pre) 0)) false addr_stats!10 emptyStr nilslice_Slice_Int)))))
(assert (= H_parser_rstack!25 (store H_parser_rstack@pre new_parser!14 (S_parser_rstack (mk_S_parser in_filename (mk_S_savepoint (mk_S_position 1 0 0) 0 0) (mk_S_current (mk_S_position 0 0 0) nilslice_Slice_Int map!7) in_b new!4 0 true 0 nilslice_Slice_Int nilslice_Slice_Int (mk_S_position 1 1 0) (mk_Slice_Str constarr_Array_Int_Str 0 0 20) false 0 (select H_rule_name@pre (elem_Slice_Int (select H_grammar_rules@pre G_g@pre) 0)) false addr_stats!10 emptyStr nilslice_Slice_Int)))))
(assert (= H_parser_maxFailPos!26 (store H_parser_maxFailPos@pre new_parser!14 (S_parser_maxFailPos (mk_S_parser in_filename (mk_S_savepoint (mk_S_position 1 0 0) 0 0) (mk_S_current (mk_S_position 0 0 0) nilslice_Slice_Int map!7) in_b new!4 0 true 0 nilslice_Slice_Int nilslice_Slice_Int (mk_S_position 1 1 0) (mk_Slice_Str constarr_Array_Int_Str 0 0 20) false 0 (select H_rule_name@pre (elem_Slice_Int (select H_grammar_rules@pre G_g@pre) 0)) false addr_stats!10 emptyStr nilslice_Slice_Int)))))
(assert (= H_parser_maxFailExpected!27 (store H_parser_maxFailExpected@pre new_parser!14 (S_parser_maxFailExpected (mk_S_parser in_filename (mk_S_savepoint (mk_S_position 1 0 0) 0 0) (mk_S_current (mk_S_position 0 0 0) nilslice_Slice_Int map!7) in_b new!4 0 true 0 nilslice_Slice_Int nilslice_Slice_Int (mk_S_position 1 1 0) (mk_Slice_Str constarr_Array_Int_Str 0 0 20) false 0 (select H_rule_name@pre (elem_Slice_Int (select H_grammar_rules@pre G_g@pre) 0)) false addr_stats!10 emptyStr nilslice_Slice_Int)))))
(assert (= H_parser_maxFailInvertExpected!28 (store H_parser_maxFailInvertExpected@pre new_parser!14 (S_parser_maxFailInvertExpected (mk_S_parser in_filename (mk_S_savepoint (mk_S_position 1 0 0) 0 0) (mk_S_current (mk_S_position 0 0 0) nilslice_Slice_Int map!7) in_b new!4 0 true 0 nilslice_Slice_Int nilslice_Slice_Int (mk_S_position 1 1 0) (mk_Slice_Str constarr_Array_Int_Str 0 0 20) false 0 (select H_rule_name@pre (elem_Slice_Int (select H_grammar_rules@pre G_g@pre) 0)) false addr_stats!10 emptyStr nilslice_Slice_Int)))))
(assert (= H_parser_maxExprCnt!29 (store H_parser_maxExprCnt@pre new_parser!14 (S_parser_maxExprCnt (mk_S_parser in_filename (mk_S_savepoint (mk_S_position 1 0 0) 0 0) (mk_S_current (mk_S_position 0 0 0) nilslice_Slice_Int map!7) in_b new!4 0 true 0 nilslice_Slice_Int nilslice_Slice_Int (mk_S_position 1 1 0) (mk_Slice_Str constarr_Array_Int_Str 0 0 20) false 0 (select H_rule_name@pre (elem_Slice_Int (select H_grammar_rules@pre G_g@pre) 0)) false addr_stats!10 emptyStr nilslice_Slice_Int)))))
(assert (= H_parser_entrypoint!30 (store H_parser_entrypoint@pre new_parser!14 (S_parser_entrypoint (mk_S_parser in_filename (mk_S_savepoint (mk_S_position 1 0 0) 0 0) (mk_S_current (mk_S_position 0 0 0) nilslice_Slice_Int map!7) in_b new!4 0 true 0 nilslice_Slice_Int nilslice_Slice_Int (mk_S_position 1 1 0) (mk_Slice_Str constarr_Array_Int_Str 0 0 20) false 0 (select H_rule_name@pre (elem_Slice_Int (select H_grammar_rules@pre G_g@pre) 0)) false addr_stats!10 emptyStr nilslice_Slice_Int)))))
(assert (= H_parser_allowInvalidUTF8!31 (store H_parser_allowInvalidUTF8@pre new_parser!14 (S_parser_allowInvalidUTF8 (mk_S_parser in_filename (mk_S_savepoint (mk_S_position 1 0 0) 0 0) (mk_S_current (mk_S_position 0 0 0) nilslice_Slice_Int map!7) in_b new!4 0 true 0 nilslice_Slice_Int nilslice_Slice_Int (mk_S_position 1 1 0) (mk_Slice_Str constarr_Array_Int_Str 0 0 20) false 0 (select H_rule_name@pre (elem_Slice_Int (select H_grammar_rules@pre G_g@pre) 0)) false addr_stats!10 emptyStr nilslice_Slice_Int)))))
(assert (= H_parser_Stats!32 (store H_parser_Stats@pre new_parser!14 (S_parser_Stats (mk_S_parser in_filename (mk_S_savepoint (mk_S_position 1 0 0) 0 0) (mk_S_current (mk_S_position 0 0 0) nilslice_Slice_Int map!7) in_b new!4 0 true 0 nilslice_Slice_Int nilslice_Slice_Int (mk_S_position 1 1 0) (mk_Slice_Str constarr_Array_Int_Str 0 0 20) false 0 (select H_rule_name@pre (elem_Slice_Int (select H_grammar_rules@pre G_g@pre) 0)) false addr_stats!10 emptyStr nilslice_Slice_Int)))))
(assert (= H_parser_choiceNoMatch!33 (store H_parser_choiceNoMatch@pre new_parser!14 (S_parser_choiceNoMatch (mk_S_parser in_filename (mk_S_savepoint (mk_S_position 1 0 0) 0 0) (mk_S_current (mk_S_position 0 0 0) nilslice_Slice_Int map!7) in_b new!4 0 true 0 nilslice_Slice_Int nilslice_Slice_Int (mk_S_position 1 1 0) (mk_Slice_Str constarr_Array_Int_Str 0 0 20) false 0 (select H_rule_name@pre (elem_Slice_Int (select H_grammar_rules@pre G_g@pre) 0)) false addr_stats!10 emptyStr nilslice_Slice_Int)))))
(assert (= H_parser_recoveryStack!34 (store H_parser_recoveryStack@pre new_parser!14 (S_parser_recoveryStack (mk_S_parser in_filename (mk_S_savepoint (mk_S_position 1 0 0) 0 0) (mk_S_current (mk_S_position 0 0 0) nilslice_Slice_Int map!7) in_b new!4 0 true 0 nilslice_Slice_Int nilslice_Slice_Int (mk_S_position 1 1 0) (mk_Slice_Str constarr_Array_Int_Str 0 0 20) false 0 (select H_rule_name@pre (elem_Slice_Int (select H_grammar_rules@pre G_g@pre) 0)) false addr_stats!10 emptyStr nilslice_Slice_Int)))))
(assert (and (and (and (and (and (and (and (and (and (and (not (= new_parser!14 0)) (not (= (select H_parser_errs!20 new_parser!14) 0))) (not (= (select H_parser_Stats!32 new_parser!14) 0))) (forall ((q_k_1 Int)) (=> (and (<= 0 q_k_1) (< q_k_1 (len_Slice_Int (select H_parser_rstack!25 new_parser!14)))) (not (= (elem_Slice_Int (select H_parser_rstack!25 new_parser!14) q_k_1) 0))))) (forall ((q_k_2 Int)) (=> (and (<= 0 q_k_2) (< q_k_2 (len_Slice_Int (select H_parser_vstack!24 new_parser!14)))) (not (= (elem_Slice_Int (select H_parser_vstack!24 new_parser!14) q_k_2) 0))))) (forall ((q_k_3 Int)) (=> (and (<= 0 q_k_3) (< q_k_3 (len_Slice_Int (select H_parser_recoveryStack!34 new_parser!14)))) (not (= (elem_Slice_Int (select H_parser_recoveryStack!34 new_parser!14) q_k_3) 0))))) true) (forall ((q_k_4 Int)) (! (=> (and (<= 0 q_k_4) (< q_k_4 (cap_Slice_Int (select H_parser_vstack!24 new_parser!14)))) (or (= (elem_Slice_Int (select H_parser_vstack!24 new_parser!14) q_k_4) 0) (select Alloc!15 (elem_Slice_Int (select H_parser_vstack!24 new_parser!14) q_k_4)))) :pattern ((elem_Slice_Int (select H_parser_vstack!24 new_parser!14) q_k_4))))) (and (and (forall ((q_j_5 Int)) (! (=> (and (<= 0 q_j_5) (< q_j_5 (len_Slice_Int (select H_parser_recoveryStack!34 new_parser!14)))) (select Alloc!15 (elem_Slice_Int (select H_parser_recoveryStack!34 new_parser!14) q_j_5))) :pattern ((elem_Slice_Int (select H_parser_recoveryStack!34 new_parser!14) q_j_5)))) (forall ((q_j_6 Int) (q_k_7 Int)) (! (=> (and (and (and (<= 0 q_j_6) (< q_j_6 (len_Slice_Int (select H_parser_recoveryStack!34 new_parser!14)))) (<= 0 q_k_7)) (< q_k_7 (cap_Slice_Int (select H_parser_vstack!24 new_parser!14)))) (not (= (elem_Slice_Int (select H_parser_recoveryStack!34 new_parser!14) q_j_6) (elem_Slice_Int (select H_parser_vstack!24 new_parser!14) q_k_7)))) :pattern ((elem_Slice_Int (select H_parser_recoveryStack!34 new_parser!14) q_j_6) (elem_Slice_Int (select H_parser_vstack!24 new_parser!14) q_k_7))))) (forall ((q_j_8 Int) (q_l_9 Str)) (! (=> (and (and (<= 0 q_j_8) (< q_j_8 (len_Slice_Int (select H_parser_recoveryStack!34 new_parser!14)))) (and (not (= (elem_Slice_Int (select H_parser_recoveryStack!34 new_parser!14) q_j_8) 0)) (select (select Mdom_map_string_any@pre (elem_Slice_Int (select H_parser_recoveryStack!34 new_parser!14) q_j_8)) q_l_9))) (IsNode (select (select Mval_map_string_any@pre (elem_Slice_Int (select H_parser_recoveryStack!34 new_parser!14) q_j_8)) q_l_9))) :pattern ((select (select Mdom_map_string_any@pre (elem_Slice_Int (select H_parser_recoveryStack!34 new_parser!14) q_j_8)) q_l_9)))))) (forall ((q_k_10 Int)) (! (=> (and (<= 0 q_k_10) (< q_k_10 (len_Slice_Any (select P_Slice_Any!6 (select H_parser_errs!20 new_parser!14))))) (and (= (typeOf (elem_Slice_Any (select P_Slice_Any!6 (select H_parser_errs!20 new_parser!14)) q_k_10)) 1) (not (= (unbox_Int (elem_Slice_Any (select P_Slice_Any!6 (select H_parser_errs!20 new_parser!14)) q_k_10)) 0)))) :pattern ((elem_Slice_Any (select P_Slice_Any!6 (select H_parser_errs!20 new_parser!14)) q_k_10))))) true))
(assert (= H_parser_maxExprCnt!36 (store H_parser_maxExprCnt!29 new_parser!14 hv!35)))
(assert (= H_parser_entrypoint!38 (store H_parser_entrypoint!30 new_parser!14 hv!37)))
(assert (= H_parser_allowInvalidUTF8!40 (store H_parser_allowInvalidUTF8!31 new_parser!14 hv!39)))
(assert (= H_parser_recover!42 (store H_parser_recover!22 new_parser!14 hv!41)))
(assert (not false))
(check-sat)
(get-value (in_filename in_b in_opts))
