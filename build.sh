#!/bin/sh
export GOFLAGS=-mod=mod GOPROXY=off GOSUMDB=off GOTOOLCHAIN=local CGO_ENABLED=0
cd /verif/govc && go1.26 build -o ../bin/govc .
