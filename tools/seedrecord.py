#!/usr/bin/env python3
"""usage: seedrecord.py <sweep-output-file> [...]
Records in /verif/seeded/<id>/meta.json what tools/seedsweep.sh observed for each seed (the property's
quick check run on /repo with the seed applied): exit status, number of VIOLATION lines, the first failing
obligations. Later files override earlier ones. Then rewrites the table between the SEED-TABLE markers of
/verif/DESIGN.md from all meta.json files."""
import json, os, re, sys, glob

base = '/verif/seeded'
for f in sys.argv[1:]:
    for line in open(f):
        m = re.match(r'(C\d\d-\d+) exit=(\d+) violations=(\d+) secs=(\d+) :: ?(.*)', line.strip())
        if not m:
            continue
        sid, rc, nv, secs, obl = m.group(1), int(m.group(2)), int(m.group(3)), int(m.group(4)), m.group(5).split()
        mp = os.path.join(base, sid, 'meta.json')
        if not os.path.exists(mp):
            continue
        meta = json.load(open(mp))
        meta['my_run'] = {
            'command': './check %s quick  (with the patch applied to /repo, undone afterwards)' % sid.split('-')[0],
            'exit': rc, 'violation_lines': nv, 'seconds': secs,
            'first_failing_obligations': obl,
            'detected': rc == 1 and nv > 0,
        }
        json.dump(meta, open(mp, 'w'), indent=1)

rows = []
for mp in sorted(glob.glob(base + '/C*/meta.json')):
    sid = mp.split('/')[-2]
    meta = json.load(open(mp))
    r = meta.get('my_run')
    summ = re.sub(r'\s+', ' ', meta.get('summary', ''))
    if len(summ) > 150:
        summ = summ[:147] + '...'
    files = ', '.join(os.path.basename(x) for x in meta.get('files', []))
    if not r:
        rows.append('| %s | %s | %s | not run | |' % (sid, files, summ))
        continue
    det = 'yes' if r['detected'] else '**no**'
    obl = '<br>'.join('`%s`' % o for o in r['first_failing_obligations'][:2])
    rows.append('| %s | %s | %s | %s (%d) | %s |' % (sid, files, summ.replace('|', '/'), det, r['violation_lines'], obl))

table = ['| seed | files | change (author\'s summary, shortened) | caught by `./check <prop> quick` (VIOLATION lines) | first failing obligations |',
         '|---|---|---|---|---|'] + rows
dp = '/verif/DESIGN.md'
s = open(dp).read()
a, b = '<!-- SEED-TABLE-BEGIN -->', '<!-- SEED-TABLE-END -->'
if a in s and b in s:
    s = s[:s.index(a) + len(a)] + '\n' + '\n'.join(table) + '\n' + s[s.index(b):]
    open(dp, 'w').write(s)
    print('table written: %d seeds' % len(rows))
else:
    print('\n'.join(table))
