#!/usr/bin/env python3
"""usage: installseed.py <Cxx-N> ...  Moves a confirmed seed from seeded/_incoming/<id> to seeded/<id> and records my
confirmation (the line tools/confirmseed.sh wrote to .work/confirm.txt) in its meta.json."""
import json, os, shutil, sys
conf = {}
for l in open('/verif/.work/confirm.txt'):
    p = l.split()
    if p and p[0].startswith('C'):
        conf[p[0]] = l.strip()
for sid in sys.argv[1:]:
    src, dst = '/verif/seeded/_incoming/' + sid, '/verif/seeded/' + sid
    line = conf.get(sid, '')
    ok = all(x in line for x in ('clean=pass', 'build=ok', 'tests=pass', 'patched=fails')) and 'apply=FAILED' not in line
    if not ok:
        print(sid, 'NOT CONFIRMED:', line); continue
    if os.path.exists(dst):
        print(sid, 'NOT INSTALLED: seeded/%s exists already (rename the incoming directory)' % sid); continue
    shutil.copytree(src, dst)
    rb = os.path.join(dst, 'patch.rebased.diff')
    if os.path.exists(rb):
        if 'apply=ok' not in line: shutil.copy(rb, os.path.join(dst, 'patch.diff'))
        os.remove(rb)
    meta = json.load(open(os.path.join(dst, 'meta.json')))
    meta['author'] = 'independent sub-agent given only the property text and a scratch worktree (round 4)'
    meta['confirmed_by_me'] = {'tree': '/repo HEAD at confirmation time (with the fix: commits)', 'how': 'tools/confirmseed.sh in a scratch git worktree under /tmp (removed afterwards)',
        'patch_applies': True, 'go_build': 'ok', 'existing_test_suite': 'all packages pass', 'demo_on_clean_tree': 'exit 0', 'demo_on_patched_tree': 'non-zero exit', 'line': line}
    json.dump(meta, open(os.path.join(dst, 'meta.json'), 'w'), indent=1)
    shutil.rmtree(src)
    print(sid, 'installed')
