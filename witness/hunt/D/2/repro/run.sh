#!/bin/bash
# usage: run.sh <pigeon source tree>
# exits 0 when the violation is observed: pigeon does not terminate within
# $LIMIT seconds on a 70-byte *valid* grammar (30 nested parenthesised groups)
# and the time doubles (at least) with every extra nesting level, while the same
# grammar is processed instantly with -cache. Exits 1 otherwise.
set -u
export GOFLAGS=-mod=mod GOPROXY=off GOSUMDB=off GOTOOLCHAIN=local
GO=${GO:-go1.26}
LIMIT=${LIMIT:-60}
src=$(cd "$1" && pwd)
here=$(cd "$(dirname "$0")" && pwd)
tmp=$(mktemp -d)
trap 'rm -rf "$tmp"' EXIT
(cd "$src" && $GO build -o "$tmp/pigeon" .) || { echo "cannot build pigeon"; exit 1; }

for n in 10 12 14 16; do
	python3 "$here/gen_grammar.py" $n > "$tmp/g$n.peg"
	s=$(date +%s.%N)
	timeout $LIMIT "$tmp/pigeon" -o /dev/null "$tmp/g$n.peg"; rc=$?
	e=$(date +%s.%N)
	echo "depth $n: exit $rc, $(echo "$e - $s" | bc) s"
done

python3 "$here/gen_grammar.py" 30 > "$tmp/g30.peg"
echo "grammar: $(cat "$tmp/g30.peg")"
timeout 20 "$tmp/pigeon" -cache -o /dev/null "$tmp/g30.peg"; rc_cache=$?
echo "depth 30 with -cache: exit $rc_cache (grammar is valid)"
timeout $LIMIT "$tmp/pigeon" -o /dev/null "$tmp/g30.peg"; rc=$?
echo "depth 30 without -cache: exit $rc after at most $LIMIT s (124 = killed by timeout)"
if [ $rc_cache -eq 0 ] && [ $rc -eq 124 ]; then
	echo "VIOLATION: pigeon hangs (exponential time) on a valid grammar"
	exit 0
fi
exit 1
