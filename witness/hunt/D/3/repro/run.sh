#!/bin/bash
# usage: run.sh <pigeon source tree>
# exits 0 when the violation is observed: pigeon dies with the Go runtime's
# "fatal error: stack overflow" and a goroutine trace (exit status 2) instead of
# printing a diagnostic, on a 600 KB grammar. Exits 1 otherwise.
set -u
export GOFLAGS=-mod=mod GOPROXY=off GOSUMDB=off GOTOOLCHAIN=local
GO=${GO:-go1.26}
N=${N:-300000}
src=$(cd "$1" && pwd)
here=$(cd "$(dirname "$0")" && pwd)
tmp=$(mktemp -d)
trap 'rm -rf "$tmp"' EXIT
(cd "$src" && $GO build -o "$tmp/pigeon" .) || { echo "cannot build pigeon"; exit 1; }

python3 "$here/gen_grammar.py" $N > "$tmp/g.peg"
echo "grammar size: $(stat -c %s "$tmp/g.peg") bytes"
timeout 600 "$tmp/pigeon" -o "$tmp/out.go" "$tmp/g.peg" > "$tmp/stdout.txt" 2> "$tmp/stderr.txt"; rc=$?
echo "exit status: $rc"
head -4 "$tmp/stderr.txt"
grep -m1 -A4 '^goroutine 1 ' "$tmp/stderr.txt"
observed=1
if grep -q 'fatal error: stack overflow' "$tmp/stderr.txt" && grep -q '^goroutine 1 ' "$tmp/stderr.txt"; then
	echo "VIOLATION: Go runtime crash with goroutine trace (nested braces)"
	observed=0
fi

# variant 2: a *valid* grammar, A <- ((((...("a")...)))) with 60000 levels, and
# -cache (without -cache the exponential parse time of finding 2 hits first)
python3 -c 'n=60000; print("A <- " + "("*n + "\"a\"" + ")"*n)' > "$tmp/g2.peg"
timeout 600 "$tmp/pigeon" -cache -o "$tmp/out.go" "$tmp/g2.peg" > /dev/null 2> "$tmp/stderr2.txt"; rc=$?
echo "variant 2 (60000 nested parentheses, -cache): exit status $rc"
head -3 "$tmp/stderr2.txt"
if grep -q 'fatal error: stack overflow' "$tmp/stderr2.txt"; then
	echo "VIOLATION: Go runtime crash with goroutine trace (nested parentheses)"
	observed=0
fi
exit $observed
