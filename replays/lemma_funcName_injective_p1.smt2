; lemma funcName-injective (C04): builder.funcName is proved (govc) to return
;   "on" + ruleName + itoa(ix);  two code blocks get distinct method names iff this map is injective
;   on (identifier, positive index). A model is a pair of (rule, index) with the same method name.
(set-option :produce-models true)
(set-logic ALL)
(declare-const r1 String)
(declare-const r2 String)
(declare-const i1 Int)
(declare-const i2 Int)
(define-fun ident ((s String)) Bool
  (str.in_re s (re.++ (re.union (re.range "a" "z") (re.range "A" "Z") (str.to_re "_"))
                      (re.* (re.union (re.range "a" "z") (re.range "A" "Z") (re.range "0" "9") (str.to_re "_"))))))
(assert (ident r1))
(assert (ident r2))
(assert (> i1 0))
(assert (> i2 0))
(assert (< (str.len r1) 4))
(assert (< (str.len r2) 4))
(assert (< i1 100))
(assert (< i2 100))
(assert (= (str.++ "on" r1 (str.from_int i1)) (str.++ "on" r2 (str.from_int i2))))
(assert (not (and (= r1 r2) (= i1 i2))))
(check-sat)
(get-value (r1 i1 r2 i2))
