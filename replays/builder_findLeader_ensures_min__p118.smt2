; obligation builder:findLeader:ensures[min]
; clause: err == nil ==> has(leaders, leader) && forall k string :: {has(leaders, k)} has(leaders, k) ==> leader <= k
; at return at left_recursion.go:76
; path: loop#1 exit / loop#2 exit / loop#6 body / then@left_recursion.go:71 / return at left_recursion.go:76
(set-option :produce-models true)
(set-logic ALL)
(declare-sort Str 0)
(declare-sort Any 0)
(declare-datatypes ((S_anon_struct__ 0)) (((mk_S_anon_struct__ (S_anon_struct____unit Int)))))
(declare-datatypes ((Slice_Str 0)) (((mk_Slice_Str (arr_Slice_Str (Array Int Str)) (off_Slice_Str Int) (len_Slice_Str Int) (cap_Slice_Str Int)))))
(declare-datatypes ((Slice_Slice_Str 0)) (((mk_Slice_Slice_Str (arr_Slice_Slice_Str (Array Int Slice_Str)) (off_Slice_Slice_Str Int) (len_Slice_Slice_Str Int) (cap_Slice_Slice_Str Int)))))
(declare-datatypes ((S_Pos 0)) (((mk_S_Pos (S_Pos_Filename Str) (S_Pos_Line Int) (S_Pos_Col Int) (S_Pos_Off Int)))))
(declare-datatypes ((S_posValue 0)) (((mk_S_posValue (S_posValue_p S_Pos) (S_posValue_Val Str)))))
(declare-datatypes ((Slice_Int 0)) (((mk_Slice_Int (arr_Slice_Int (Array Int Int)) (off_Slice_Int Int) (len_Slice_Int Int) (cap_Slice_Int Int)))))
(declare-datatypes ((Slice_Any 0)) (((mk_Slice_Any (arr_Slice_Any (Array Int Any)) (off_Slice_Any Int) (len_Slice_Any Int) (cap_Slice_Any Int)))))
(declare-fun typeOf (Any) Int)
(declare-const nilAny Any)
(declare-fun slen (Str) Int)
(declare-const emptyStr Str)
(declare-fun scat (Str Str) Str)
(declare-fun runeCount (Str) Int)
(declare-fun runeOf (Str Int) Int)
(declare-fun sle (Str Str) Bool)
(declare-fun card_Str ((Array Str Bool)) Int)
(declare-fun wit_Str ((Array Str Bool)) Str)
(declare-fun sprintf_1 (Str Any) Str)
(declare-fun errorOfStr (Str) Any)
(declare-fun elem_Slice_Slice_Str (Slice_Slice_Str Int) Slice_Str)
(declare-fun elem_Slice_Str (Slice_Str Int) Str)
(declare-fun box_Int (Int Int) Any)
(declare-fun unbox_Int (Any) Int)
(declare-fun NF (Any) Bool)
(declare-fun InFirst (Any Str) Bool)
(declare-fun elem_Slice_Any (Slice_Any Int) Any)
(declare-fun KeptR (Slice_Int Int (Array Int Int) Int) Bool)
(declare-fun elem_Slice_Int (Slice_Int Int) Int)
(declare-fun decR (Slice_Int) Int)
(declare-fun decW (Slice_Int) Int)
(declare-fun sprintf_3 (Str Any Any Any) Str)
(declare-const str!0 Str) ; "error find cycles: %w"
(assert (= (slen str!0) 21))
(assert (= (runeCount str!0) 21))
(declare-const str!1 Str) ; "%d:%d (%d)"
(assert (= (slen str!1) 10))
(assert (= (runeCount str!1) 10))
(assert (distinct str!0 str!1))
(declare-const in_graph Int)
(declare-const Alloc@pre (Array Int Bool))
(declare-const in_scc Int)
(declare-const Mdom_map_string_struct__@pre (Array Int (Array Str Bool)))
(declare-const map!1 Int)
(declare-const Alloc!2 (Array Int Bool))
(declare-const Mdom_map_string_struct__!3 (Array Int (Array Str Bool)))
(declare-const dom0!4 (Array Str Bool))
(declare-const Mdom_map_string_struct__!5 (Array Int (Array Str Bool)))
(declare-const Mval_map_string_struct__@pre (Array Int (Array Str S_anon_struct__)))
(declare-const Mval_map_string_struct__!6 (Array Int (Array Str S_anon_struct__)))
(declare-const visited1!7 (Array Str Bool))
(declare-const key!8 Str)
(declare-const Mdom_map_string_struct__!9 (Array Int (Array Str Bool)))
(declare-const Mval_map_string_struct__!10 (Array Int (Array Str S_anon_struct__)))
(declare-const visited1!11 (Array Str Bool))
(declare-const dom0!12 (Array Str Bool))
(declare-const Mdom_map_string_struct__!13 (Array Int (Array Str Bool)))
(declare-const Mval_map_string_struct__!14 (Array Int (Array Str S_anon_struct__)))
(declare-const Alloc!15 (Array Int Bool))
(declare-const visited2!16 (Array Str Bool))
(declare-const key!17 Str)
(declare-const Alloc!18 (Array Int Bool))
(declare-const ret_FindCyclesInSCC!19 Slice_Slice_Str)
(declare-const ret_FindCyclesInSCC!20 Any)
(declare-const err!21 Any)
(declare-const Mdom_map_string_struct__!22 (Array Int (Array Str Bool)))
(declare-const Mval_map_string_struct__!23 (Array Int (Array Str S_anon_struct__)))
(declare-const Alloc!24 (Array Int Bool))
(declare-const idx3!25 Int)
(declare-const cycle!26 Slice_Str)
(declare-const map!27 Int)
(declare-const Alloc!28 (Array Int Bool))
(declare-const Mdom_map_string_struct__!29 (Array Int (Array Str Bool)))
(declare-const Mdom_map_string_struct__!30 (Array Int (Array Str Bool)))
(declare-const Mval_map_string_struct__!31 (Array Int (Array Str S_anon_struct__)))
(declare-const idx4!32 Int)
(declare-const Mdom_map_string_struct__!33 (Array Int (Array Str Bool)))
(declare-const Mval_map_string_struct__!34 (Array Int (Array Str S_anon_struct__)))
(declare-const dom0!35 (Array Str Bool))
(declare-const Alloc!36 (Array Int Bool))
(declare-const visited5!37 (Array Str Bool))
(declare-const key!38 Str)
(declare-const okCycle!39 Bool)
(declare-const Mdom_map_string_struct__!40 (Array Int (Array Str Bool)))
(declare-const visited5!41 (Array Str Bool))
(declare-const visited5!42 (Array Str Bool))
(declare-const G_ErrNoLeader@pre Any)
(declare-const visited2!43 (Array Str Bool))
(declare-const dom0!44 (Array Str Bool))
(declare-const leader!45 Str)
(declare-const visited6!46 (Array Str Bool))
(declare-const key!47 Str)
(declare-const visited6!48 (Array Str Bool))
(declare-const H_LitMatcher_posValue@pre (Array Int S_posValue))
(declare-const H_CharClassMatcher_Chars@pre (Array Int Slice_Int))
(declare-const H_CharClassMatcher_Ranges@pre (Array Int Slice_Int))
(declare-const H_CharClassMatcher_UnicodeClasses@pre (Array Int Slice_Str))
(declare-const H_ChoiceExpr_Alternatives@pre (Array Int Slice_Any))
(declare-const H_SeqExpr_Exprs@pre (Array Int Slice_Any))
(declare-const H_ActionExpr_Expr@pre (Array Int Any))
(declare-const H_LabeledExpr_Expr@pre (Array Int Any))
(declare-const H_ZeroOrOneExpr_Expr@pre (Array Int Any))
(declare-const H_ZeroOrMoreExpr_Expr@pre (Array Int Any))
(declare-const H_OneOrMoreExpr_Expr@pre (Array Int Any))
(declare-const H_AndExpr_Expr@pre (Array Int Any))
(declare-const H_NotExpr_Expr@pre (Array Int Any))
(declare-const H_RecoveryExpr_Expr@pre (Array Int Any))
(declare-const H_RecoveryExpr_RecoverExpr@pre (Array Int Any))
(declare-const H_RuleRefExpr_Name@pre (Array Int Int))
(declare-const H_Identifier_posValue@pre (Array Int S_posValue))
(declare-const H_Rule_Expr@pre (Array Int Any))
(declare-const G_ErrHaveLeftRecursion@pre Any)
(declare-const G_ErrInvalidParameters@pre Any)
(declare-const H_ChoiceExpr_Nullable@pre (Array Int Bool))
(declare-const H_SeqExpr_Nullable@pre (Array Int Bool))
(declare-const H_ActionExpr_Nullable@pre (Array Int Bool))
(declare-const H_RecoveryExpr_Nullable@pre (Array Int Bool))
(declare-const H_RuleRefExpr_Nullable@pre (Array Int Bool))
(declare-const H_Rule_Nullable@pre (Array Int Bool))
(assert (= (typeOf nilAny) 0))
(assert (forall ((x Any)) (! (=> (= (typeOf x) 0) (= x nilAny)) :pattern ((typeOf x)))))
(assert (forall ((s Str)) (! (>= (slen s) 0) :pattern ((slen s)))))
(assert (= (slen emptyStr) 0))
(assert (forall ((s Str)) (! (=> (= (slen s) 0) (= s emptyStr)) :pattern ((slen s)))))
(assert (forall ((a Str) (b Str)) (! (= (slen (scat a b)) (+ (slen a) (slen b))) :pattern ((scat a b)))))
(assert (forall ((a Str) (b Str) (c Str)) (! (=> (= (scat a b) (scat a c)) (= b c)) :pattern ((scat a b) (scat a c)))))
(assert (forall ((a Str) (b Str) (c Str)) (! (= (scat (scat a b) c) (scat a (scat b c))) :pattern ((scat (scat a b) c)))))
(assert (forall ((a Str)) (! (= (scat a emptyStr) a) :pattern ((scat a emptyStr)))))
(assert (forall ((a Str)) (! (= (scat emptyStr a) a) :pattern ((scat emptyStr a)))))
(assert (forall ((s Str)) (! (>= (runeCount s) 0) :pattern ((runeCount s)))))
(assert (forall ((a Str)) (! (sle a a) :pattern ((sle a a)))))
(assert (forall ((a Str) (b Str)) (! (or (sle a b) (sle b a)) :pattern ((sle a b)))))
(assert (forall ((a Str) (b Str)) (! (=> (and (sle a b) (sle b a)) (= a b)) :pattern ((sle a b) (sle b a)))))
(assert (forall ((a Str) (b Str) (c Str)) (! (=> (and (sle a b) (sle b c)) (sle a c)) :pattern ((sle a b) (sle b c)))))
(assert (forall ((d (Array Str Bool))) (! (>= (card_Str d) 0) :pattern ((card_Str d)))))
(assert (= (card_Str ((as const (Array Str Bool)) false)) 0))
(assert (forall ((d (Array Str Bool)) (k Str)) (! (=> (= (card_Str d) 0) (not (select d k))) :pattern ((card_Str d) (select d k)))))
(assert (forall ((d (Array Str Bool))) (! (=> (= (card_Str d) 0) (= d ((as const (Array Str Bool)) false))) :pattern ((card_Str d)))))
(assert (forall ((d (Array Str Bool))) (! (=> (> (card_Str d) 0) (select d (wit_Str d))) :pattern ((card_Str d)))))
(assert (forall ((d (Array Str Bool)) (a Str) (b Str)) (! (=> (and (= (card_Str d) 1) (select d a) (select d b)) (= a b)) :pattern ((card_Str d) (select d a) (select d b)))))
(assert (forall ((d (Array Str Bool)) (k Str)) (! (= (card_Str (store d k true)) (ite (select d k) (card_Str d) (+ (card_Str d) 1))) :pattern ((card_Str (store d k true))))))
(assert (forall ((d (Array Str Bool)) (k Str)) (! (= (card_Str (store d k false)) (ite (select d k) (- (card_Str d) 1) (card_Str d))) :pattern ((card_Str (store d k false))))))
(assert (forall ((s Str)) (! (not (= (errorOfStr s) nilAny)) :pattern ((errorOfStr s)))))
(assert (forall ((s Slice_Slice_Str) (i Int)) (! (= (elem_Slice_Slice_Str s i) (select (arr_Slice_Slice_Str s) (+ (off_Slice_Slice_Str s) i))) :pattern ((elem_Slice_Slice_Str s i)))))
(assert (forall ((s Slice_Str) (i Int)) (! (= (elem_Slice_Str s i) (select (arr_Slice_Str s) (+ (off_Slice_Str s) i))) :pattern ((elem_Slice_Str s i)))))
(assert (forall ((t Int) (v Int)) (! (=> (> t 0) (= (typeOf (box_Int t v)) t)) :pattern ((box_Int t v)))))
(assert (forall ((t Int) (v Int)) (! (=> (> t 0) (= (unbox_Int (box_Int t v)) v)) :pattern ((box_Int t v)))))
(assert (forall ((s Slice_Any) (i Int)) (! (= (elem_Slice_Any s i) (select (arr_Slice_Any s) (+ (off_Slice_Any s) i))) :pattern ((elem_Slice_Any s i)))))
(assert (forall ((s Slice_Int) (i Int)) (! (= (elem_Slice_Int s i) (select (arr_Slice_Int s) (+ (off_Slice_Int s) i))) :pattern ((elem_Slice_Int s i)))))
(assert (forall ((q_c_33 Int)) (! (= (NF (box_Int 1 q_c_33)) (= (slen (S_posValue_Val (select H_LitMatcher_posValue@pre q_c_33))) 0)) :pattern ((NF (box_Int 1 q_c_33)))))) ; axiom nf-lit
(assert (forall ((q_c_34 Int)) (! (= (NF (box_Int 2 q_c_34)) (and (and (= (len_Slice_Int (select H_CharClassMatcher_Chars@pre q_c_34)) 0) (= (len_Slice_Int (select H_CharClassMatcher_Ranges@pre q_c_34)) 0)) (= (len_Slice_Str (select H_CharClassMatcher_UnicodeClasses@pre q_c_34)) 0))) :pattern ((NF (box_Int 2 q_c_34)))))) ; axiom nf-class
(assert (forall ((q_c_35 Int)) (! (not (NF (box_Int 3 q_c_35))) :pattern ((NF (box_Int 3 q_c_35)))))) ; axiom nf-any
(assert (forall ((q_c_36 Int) (q_n_37 Str)) (! (= (InFirst (box_Int 4 q_c_36) q_n_37) (exists ((q_k_38 Int)) (and (and (<= 0 q_k_38) (< q_k_38 (len_Slice_Any (select H_ChoiceExpr_Alternatives@pre q_c_36)))) (InFirst (elem_Slice_Any (select H_ChoiceExpr_Alternatives@pre q_c_36) q_k_38) q_n_37)))) :pattern ((InFirst (box_Int 4 q_c_36) q_n_37))))) ; axiom first-choice
(assert (forall ((q_c_39 Int) (q_n_40 Str)) (! (= (InFirst (box_Int 5 q_c_39) q_n_40) (exists ((q_k_41 Int)) (and (and (and (<= 0 q_k_41) (< q_k_41 (len_Slice_Any (select H_SeqExpr_Exprs@pre q_c_39)))) (InFirst (elem_Slice_Any (select H_SeqExpr_Exprs@pre q_c_39) q_k_41) q_n_40)) (forall ((q_j_42 Int)) (=> (and (<= 0 q_j_42) (< q_j_42 q_k_41)) (NF (elem_Slice_Any (select H_SeqExpr_Exprs@pre q_c_39) q_j_42))))))) :pattern ((InFirst (box_Int 5 q_c_39) q_n_40))))) ; axiom first-seq
(assert (forall ((q_c_43 Int) (q_n_44 Str)) (! (= (InFirst (box_Int 6 q_c_43) q_n_44) (InFirst (select H_ActionExpr_Expr@pre q_c_43) q_n_44)) :pattern ((InFirst (box_Int 6 q_c_43) q_n_44))))) ; axiom first-action
(assert (forall ((q_c_45 Int) (q_n_46 Str)) (! (= (InFirst (box_Int 7 q_c_45) q_n_46) (InFirst (select H_LabeledExpr_Expr@pre q_c_45) q_n_46)) :pattern ((InFirst (box_Int 7 q_c_45) q_n_46))))) ; axiom first-labeled
(assert (forall ((q_c_47 Int) (q_n_48 Str)) (! (= (InFirst (box_Int 8 q_c_47) q_n_48) (InFirst (select H_ZeroOrOneExpr_Expr@pre q_c_47) q_n_48)) :pattern ((InFirst (box_Int 8 q_c_47) q_n_48))))) ; axiom first-opt
(assert (forall ((q_c_49 Int) (q_n_50 Str)) (! (= (InFirst (box_Int 9 q_c_49) q_n_50) (InFirst (select H_ZeroOrMoreExpr_Expr@pre q_c_49) q_n_50)) :pattern ((InFirst (box_Int 9 q_c_49) q_n_50))))) ; axiom first-star
(assert (forall ((q_c_51 Int) (q_n_52 Str)) (! (= (InFirst (box_Int 10 q_c_51) q_n_52) (InFirst (select H_OneOrMoreExpr_Expr@pre q_c_51) q_n_52)) :pattern ((InFirst (box_Int 10 q_c_51) q_n_52))))) ; axiom first-plus
(assert (forall ((q_c_53 Int) (q_n_54 Str)) (! (= (InFirst (box_Int 11 q_c_53) q_n_54) (InFirst (select H_AndExpr_Expr@pre q_c_53) q_n_54)) :pattern ((InFirst (box_Int 11 q_c_53) q_n_54))))) ; axiom first-and
(assert (forall ((q_c_55 Int) (q_n_56 Str)) (! (= (InFirst (box_Int 12 q_c_55) q_n_56) (InFirst (select H_NotExpr_Expr@pre q_c_55) q_n_56)) :pattern ((InFirst (box_Int 12 q_c_55) q_n_56))))) ; axiom first-not
(assert (forall ((q_c_57 Int) (q_n_58 Str)) (! (= (InFirst (box_Int 13 q_c_57) q_n_58) (or (InFirst (select H_RecoveryExpr_Expr@pre q_c_57) q_n_58) (InFirst (select H_RecoveryExpr_RecoverExpr@pre q_c_57) q_n_58))) :pattern ((InFirst (box_Int 13 q_c_57) q_n_58))))) ; axiom first-recovery
(assert (forall ((q_c_59 Int) (q_n_60 Str)) (! (= (InFirst (box_Int 14 q_c_59) q_n_60) (and (not (= (select H_RuleRefExpr_Name@pre q_c_59) 0)) (= q_n_60 (S_posValue_Val (select H_Identifier_posValue@pre (select H_RuleRefExpr_Name@pre q_c_59)))))) :pattern ((InFirst (box_Int 14 q_c_59) q_n_60))))) ; axiom first-ruleref
(assert (forall ((q_c_61 Int) (q_n_62 Str)) (! (= (InFirst (box_Int 15 q_c_61) q_n_62) (InFirst (select H_Rule_Expr@pre q_c_61) q_n_62)) :pattern ((InFirst (box_Int 15 q_c_61) q_n_62))))) ; axiom first-rule
(assert (forall ((q_c_63 Int) (q_n_64 Str)) (! (not (InFirst (box_Int 16 q_c_63) q_n_64)) :pattern ((InFirst (box_Int 16 q_c_63) q_n_64))))) ; axiom first-throw
(assert (forall ((q_c_65 Int) (q_n_66 Str)) (! (not (InFirst (box_Int 17 q_c_65) q_n_66)) :pattern ((InFirst (box_Int 17 q_c_65) q_n_66))))) ; axiom first-state
(assert (forall ((q_c_67 Int) (q_n_68 Str)) (! (not (InFirst (box_Int 18 q_c_67) q_n_68)) :pattern ((InFirst (box_Int 18 q_c_67) q_n_68))))) ; axiom first-andcode
(assert (forall ((q_c_69 Int) (q_n_70 Str)) (! (not (InFirst (box_Int 19 q_c_69) q_n_70)) :pattern ((InFirst (box_Int 19 q_c_69) q_n_70))))) ; axiom first-notcode
(assert (forall ((q_c_71 Int) (q_n_72 Str)) (! (not (InFirst (box_Int 1 q_c_71) q_n_72)) :pattern ((InFirst (box_Int 1 q_c_71) q_n_72))))) ; axiom first-lit
(assert (forall ((q_c_73 Int) (q_n_74 Str)) (! (not (InFirst (box_Int 2 q_c_73) q_n_74)) :pattern ((InFirst (box_Int 2 q_c_73) q_n_74))))) ; axiom first-class
(assert (forall ((q_c_75 Int) (q_n_76 Str)) (! (not (InFirst (box_Int 3 q_c_75) q_n_76)) :pattern ((InFirst (box_Int 3 q_c_75) q_n_76))))) ; axiom first-any
(assert (forall ((q_o_77 Slice_Int) (q_j_78 Int) (q_a_79 (Array Int Int)) (q_n_80 Int)) (! (=> (and (and (and (KeptR q_o_77 q_j_78 q_a_79 q_n_80) (<= 0 q_j_78)) (< q_j_78 (len_Slice_Int q_o_77))) (forall ((q_i_81 Int)) (=> (and (<= 0 q_i_81) (< q_i_81 q_j_78)) (not (= (elem_Slice_Int q_o_77 q_i_81) (elem_Slice_Int q_o_77 q_j_78)))))) (KeptR q_o_77 (+ q_j_78 1) (store q_a_79 q_n_80 (elem_Slice_Int q_o_77 q_j_78)) (+ q_n_80 1))) :pattern ((KeptR q_o_77 q_j_78 q_a_79 q_n_80))))) ; axiom keptr-take
(assert (forall ((q_o_82 Slice_Int) (q_j_83 Int) (q_a_84 (Array Int Int)) (q_n_85 Int)) (! (=> (and (and (and (KeptR q_o_82 q_j_83 q_a_84 q_n_85) (<= 0 q_j_83)) (< q_j_83 (len_Slice_Int q_o_82))) (not (forall ((q_i_86 Int)) (=> (and (<= 0 q_i_86) (< q_i_86 q_j_83)) (not (= (elem_Slice_Int q_o_82 q_i_86) (elem_Slice_Int q_o_82 q_j_83))))))) (KeptR q_o_82 (+ q_j_83 1) q_a_84 q_n_85)) :pattern ((KeptR q_o_82 q_j_83 q_a_84 q_n_85))))) ; axiom keptr-skip
(assert (and (and (not (= G_ErrNoLeader@pre nilAny)) (not (= G_ErrHaveLeftRecursion@pre nilAny))) (not (= G_ErrInvalidParameters@pre nilAny)))) ; axiom errs-nonnil
(assert (forall ((q_b_87 Slice_Int)) (! (and (=> (= (len_Slice_Int q_b_87) 0) (and (= (decR q_b_87) 65533) (= (decW q_b_87) 0))) (=> (> (len_Slice_Int q_b_87) 0) (and (and (<= 1 (decW q_b_87)) (<= (decW q_b_87) 4)) (<= (decW q_b_87) (len_Slice_Int q_b_87))))) :pattern ((decW q_b_87))))) ; axiom dec-eof
(assert (forall ((q_a_88 Any) (q_b_89 Any) (q_c_90 Any)) (! (> (slen (sprintf_3 str!1 q_a_88 q_b_89 q_c_90)) 0) :pattern ((sprintf_3 str!1 q_a_88 q_b_89 q_c_90))))) ; axiom sprintf-pos-nonempty
(assert (forall ((q_b_91 Slice_Int)) (! (and (<= 0 (decR q_b_91)) (<= (decR q_b_91) 1114111)) :pattern ((decR q_b_91))))) ; axiom dec-range
(assert (forall ((q_c_92 Int)) (! (= (NF (box_Int 4 q_c_92)) (select H_ChoiceExpr_Nullable@pre q_c_92)) :pattern ((NF (box_Int 4 q_c_92)))))) ; axiom nf-choice
(assert (forall ((q_c_93 Int)) (! (= (NF (box_Int 5 q_c_93)) (select H_SeqExpr_Nullable@pre q_c_93)) :pattern ((NF (box_Int 5 q_c_93)))))) ; axiom nf-seq
(assert (forall ((q_c_94 Int)) (! (= (NF (box_Int 6 q_c_94)) (select H_ActionExpr_Nullable@pre q_c_94)) :pattern ((NF (box_Int 6 q_c_94)))))) ; axiom nf-action
(assert (forall ((q_c_95 Int)) (! (= (NF (box_Int 13 q_c_95)) (select H_RecoveryExpr_Nullable@pre q_c_95)) :pattern ((NF (box_Int 13 q_c_95)))))) ; axiom nf-recovery
(assert (forall ((q_c_96 Int)) (! (= (NF (box_Int 14 q_c_96)) (select H_RuleRefExpr_Nullable@pre q_c_96)) :pattern ((NF (box_Int 14 q_c_96)))))) ; axiom nf-ruleref
(assert (forall ((q_c_97 Int)) (! (= (NF (box_Int 15 q_c_97)) (select H_Rule_Nullable@pre q_c_97)) :pattern ((NF (box_Int 15 q_c_97)))))) ; axiom nf-rule
(assert (forall ((q_c_98 Int)) (! (= (NF (box_Int 7 q_c_98)) (NF (select H_LabeledExpr_Expr@pre q_c_98))) :pattern ((NF (box_Int 7 q_c_98)))))) ; axiom nf-labeled
(assert (forall ((q_c_99 Int)) (! (= (NF (box_Int 10 q_c_99)) (NF (select H_OneOrMoreExpr_Expr@pre q_c_99))) :pattern ((NF (box_Int 10 q_c_99)))))) ; axiom nf-plus
(assert (forall ((q_c_100 Int)) (! (NF (box_Int 11 q_c_100)) :pattern ((NF (box_Int 11 q_c_100)))))) ; axiom nf-and
(assert (forall ((q_c_101 Int)) (! (NF (box_Int 12 q_c_101)) :pattern ((NF (box_Int 12 q_c_101)))))) ; axiom nf-not
(assert (forall ((q_c_102 Int)) (! (NF (box_Int 8 q_c_102)) :pattern ((NF (box_Int 8 q_c_102)))))) ; axiom nf-opt
(assert (forall ((q_c_103 Int)) (! (NF (box_Int 9 q_c_103)) :pattern ((NF (box_Int 9 q_c_103)))))) ; axiom nf-star
(assert (forall ((q_c_104 Int)) (! (NF (box_Int 16 q_c_104)) :pattern ((NF (box_Int 16 q_c_104)))))) ; axiom nf-throw
(assert (forall ((q_c_105 Int)) (! (NF (box_Int 17 q_c_105)) :pattern ((NF (box_Int 17 q_c_105)))))) ; axiom nf-state
(assert (forall ((q_c_106 Int)) (! (NF (box_Int 18 q_c_106)) :pattern ((NF (box_Int 18 q_c_106)))))) ; axiom nf-andcode
(assert (forall ((q_c_107 Int)) (! (NF (box_Int 19 q_c_107)) :pattern ((NF (box_Int 19 q_c_107)))))) ; axiom nf-notcode
(assert (forall ((q_o_108 Slice_Int) (q_a_109 (Array Int Int))) (! (KeptR q_o_108 0 q_a_109 0) :pattern ((KeptR q_o_108 0 q_a_109 0))))) ; axiom keptr-base
(assert (forall ((r Int)) (! (and (<= 0 (len_Slice_Int (select H_CharClassMatcher_Chars@pre r))) (<= (len_Slice_Int (select H_CharClassMatcher_Chars@pre r)) (cap_Slice_Int (select H_CharClassMatcher_Chars@pre r))) (<= 0 (off_Slice_Int (select H_CharClassMatcher_Chars@pre r)))) :pattern ((select H_CharClassMatcher_Chars@pre r)))))
(assert (forall ((r Int)) (! (and (<= 0 (len_Slice_Int (select H_CharClassMatcher_Ranges@pre r))) (<= (len_Slice_Int (select H_CharClassMatcher_Ranges@pre r)) (cap_Slice_Int (select H_CharClassMatcher_Ranges@pre r))) (<= 0 (off_Slice_Int (select H_CharClassMatcher_Ranges@pre r)))) :pattern ((select H_CharClassMatcher_Ranges@pre r)))))
(assert (forall ((r Int)) (! (and (<= 0 (len_Slice_Str (select H_CharClassMatcher_UnicodeClasses@pre r))) (<= (len_Slice_Str (select H_CharClassMatcher_UnicodeClasses@pre r)) (cap_Slice_Str (select H_CharClassMatcher_UnicodeClasses@pre r))) (<= 0 (off_Slice_Str (select H_CharClassMatcher_UnicodeClasses@pre r)))) :pattern ((select H_CharClassMatcher_UnicodeClasses@pre r)))))
(assert (forall ((r Int)) (! (and (<= 0 (len_Slice_Any (select H_ChoiceExpr_Alternatives@pre r))) (<= (len_Slice_Any (select H_ChoiceExpr_Alternatives@pre r)) (cap_Slice_Any (select H_ChoiceExpr_Alternatives@pre r))) (<= 0 (off_Slice_Any (select H_ChoiceExpr_Alternatives@pre r)))) :pattern ((select H_ChoiceExpr_Alternatives@pre r)))))
(assert (forall ((r Int)) (! (and (<= 0 (len_Slice_Any (select H_SeqExpr_Exprs@pre r))) (<= (len_Slice_Any (select H_SeqExpr_Exprs@pre r)) (cap_Slice_Any (select H_SeqExpr_Exprs@pre r))) (<= 0 (off_Slice_Any (select H_SeqExpr_Exprs@pre r)))) :pattern ((select H_SeqExpr_Exprs@pre r)))))
(assert (or (= in_graph 0) (select Alloc@pre in_graph)))
(assert (or (= in_scc 0) (select Alloc@pre in_scc)))
(assert (and (and (not (= in_scc 0)) (not (and (not (= in_scc 0)) (select (select Mdom_map_string_struct__@pre in_scc) emptyStr)))) (>= (ite (= in_scc 0) 0 (card_Str (select Mdom_map_string_struct__@pre in_scc))) 1)))
(assert (not (= map!1 0)))
(assert (not (select Alloc@pre map!1)))
(assert (= Alloc!2 (store Alloc@pre map!1 true)))
(assert (= Mdom_map_string_struct__!3 (store Mdom_map_string_struct__@pre map!1 ((as const (Array Str Bool)) false))))
(assert (= dom0!4 (select Mdom_map_string_struct__!3 in_scc)))
(assert (forall ((k Str)) (! (=> (select visited1!7 k) (select dom0!4 k)) :pattern ((select visited1!7 k)))))
(assert (and (forall ((q_k_4 Str)) (! (=> (select visited1!7 q_k_4) (and (not (= map!1 0)) (select (select Mdom_map_string_struct__!5 map!1) q_k_4))) :pattern ((select visited1!7 q_k_4)))) (forall ((q_k_5 Str)) (! (= (select dom0!4 q_k_5) (and (not (= in_scc 0)) (select (select Mdom_map_string_struct__!5 in_scc) q_k_5))) :pattern ((select dom0!4 q_k_5))))))
(assert (and (and (and (= (select Mdom_map_string_struct__!5 in_scc) (select Mdom_map_string_struct__@pre in_scc)) (not (= map!1 0))) (and (not (= map!1 0)) (select Alloc!2 map!1) (not (select Alloc@pre map!1)))) (forall ((q_k_6 Str)) (! (=> (and (not (= map!1 0)) (select (select Mdom_map_string_struct__!5 map!1) q_k_6)) (and (not (= in_scc 0)) (select (select Mdom_map_string_struct__!5 in_scc) q_k_6))) :pattern ((select (select Mdom_map_string_struct__!5 map!1) q_k_6))))))
(assert (= visited1!7 dom0!4))
(assert (= dom0!12 (select Mdom_map_string_struct__!5 in_scc)))
(assert (forall ((r Int)) (! (=> (select Alloc!2 r) (select Alloc!15 r)) :pattern ((select Alloc!15 r)))))
(assert (forall ((k Str)) (! (=> (select visited2!16 k) (select dom0!12 k)) :pattern ((select visited2!16 k)))))
(assert (>= (ite (= map!1 0) 0 (card_Str (select Mdom_map_string_struct__!13 map!1))) 1))
(assert (and (and (and (= (select Mdom_map_string_struct__!13 in_scc) (select Mdom_map_string_struct__@pre in_scc)) (not (= map!1 0))) (and (not (= map!1 0)) (select Alloc!15 map!1) (not (select Alloc@pre map!1)))) (forall ((q_k_11 Str)) (! (=> (and (not (= map!1 0)) (select (select Mdom_map_string_struct__!13 map!1) q_k_11)) (and (not (= in_scc 0)) (select (select Mdom_map_string_struct__!13 in_scc) q_k_11))) :pattern ((select (select Mdom_map_string_struct__!13 map!1) q_k_11))))))
(assert (= visited2!16 dom0!12))
(assert (= dom0!44 (select Mdom_map_string_struct__!13 map!1)))
(assert (forall ((k Str)) (! (=> (select visited6!46 k) (select dom0!44 k)) :pattern ((select visited6!46 k)))))
(assert (and (and (and (or (= leader!45 emptyStr) (select visited6!46 leader!45)) (forall ((q_k_25 Str)) (! (=> (select visited6!46 q_k_25) (and (not (= leader!45 emptyStr)) (sle leader!45 q_k_25))) :pattern ((select visited6!46 q_k_25))))) (not (and (not (= map!1 0)) (select (select Mdom_map_string_struct__!13 map!1) emptyStr)))) (forall ((q_k_26 Str)) (! (= (select dom0!44 q_k_26) (and (not (= map!1 0)) (select (select Mdom_map_string_struct__!13 map!1) q_k_26))) :pattern ((select dom0!44 q_k_26))))))
(assert (and (select dom0!44 key!47) (not (select visited6!46 key!47))))
(assert (select (select Mdom_map_string_struct__!13 map!1) key!47))
(assert (and (not (= leader!45 emptyStr)) (sle leader!45 key!47)))
(assert (not (=> (= nilAny nilAny) (forall ((q_k_30 Str)) (! (=> (and (not (= map!1 0)) (select (select Mdom_map_string_struct__!13 map!1) q_k_30)) (sle leader!45 q_k_30)) :pattern ((select (select Mdom_map_string_struct__!13 map!1) q_k_30)))))))
(check-sat)
(get-value (in_graph in_scc))
