#!/bin/sh
# usage: run.sh <pigeon source tree>
# exit 0: violation observed, exit 1: not observed
set -u
SRC=${1:?usage: run.sh <pigeon source tree>}
HERE=$(cd "$(dirname "$0")" && pwd)
export GOFLAGS=-mod=mod GOPROXY=off GOSUMDB=off GOTOOLCHAIN=local
GO=go1.26
command -v "$GO" >/dev/null 2>&1 || GO=go
TMP=$(mktemp -d)
trap 'rm -rf "$TMP"' EXIT

(cd "$SRC" && $GO build -o "$TMP/pigeon" .) || { echo "cannot build pigeon"; exit 1; }
mkdir "$TMP/demo"
cp "$HERE/main.go" "$TMP/demo/main.go"
printf 'module demo\n\ngo 1.25\n' > "$TMP/demo/go.mod"
"$TMP/pigeon" -o "$TMP/demo/p.go" "$HERE/state.peg" || { echo "generation failed"; exit 1; }
(cd "$TMP/demo" && $GO build -o demo .) || { echo "cannot build generated parser"; exit 1; }

# supplementary evidence: the race detector (when available) flags the same thing
if (cd "$TMP/demo" && $GO build -race -o demo_race . 2>/dev/null); then
	(cd "$TMP/demo" && timeout 120 ./demo_race 2>&1 | grep -m1 -A12 "DATA RACE" | head -20)
fi

(cd "$TMP/demo" && timeout 120 ./demo)
rc=$?
[ $rc -eq 0 ] && exit 0
exit 1
