package main

import (
	"fmt"
	"os"
	"runtime"
	"sync"
	"sync/atomic"
	"time"
)

// Exit status: 0 = violation observed, 1 = not observed.
func main() {
	violations := 0

	// ---- Part 1: a finished call's result is changed by a call in progress.
	// One P makes the interleaving below deterministic; the two Parse calls
	// still overlap in time (B is in the middle of Parse while A looks).
	runtime.GOMAXPROCS(1)

	alone, _ := Parse("A", []byte("abc"))
	aloneStr := fmt.Sprint(alone)
	fmt.Printf("part 1: Parse(\"abc\") run alone returns            %s\n", aloneStr)

	resA, _ := Parse("A", []byte("abc")) // goroutine A's call, finished
	before := fmt.Sprint(resA)
	ch := make(chan struct{})
	doneB := make(chan any)
	go func() { // goroutine B: other input, other options
		v, _ := Parse("B", []byte("xyz"), InitState("owner", "B"), GlobalStore("pause", ch))
		doneB <- v
	}()
	<-ch // B is now inside Parse
	during := fmt.Sprint(resA)
	ch <- struct{}{}
	<-doneB
	fmt.Printf("        A's result when its Parse returned:          %s\n", before)
	fmt.Printf("        A's result while B's Parse is in progress:   %s\n", during)
	if during != aloneStr {
		fmt.Println("        => VIOLATION: B's state shows up in the value returned to A")
		violations++
	}

	// ---- Part 2: a call in progress returns a different value because another
	// caller touched the value that was returned to it.
	aloneB, _ := Parse("B", []byte("xyz"), Entrypoint("Pick"))
	fmt.Printf("part 2: Parse(\"xyz\", Entrypoint(\"Pick\")) alone returns %q\n", aloneB)

	resA, _ = Parse("A", []byte("abc")) // A's call, finished; A owns resA
	go func() {
		v, _ := Parse("B", []byte("xyz"), Entrypoint("Pick"), GlobalStore("pause", ch))
		doneB <- v
	}()
	<-ch                                   // B is inside Parse
	resA.(storeDict)["n"] = "written by A" // A annotates its own result
	ch <- struct{}{}
	concB := <-doneB
	fmt.Printf("        the same call overlapping with A returns          %q\n", concB)
	if concB != aloneB {
		fmt.Println("        => VIOLATION: B's Parse returned a value it never returns alone")
		violations++
	}

	// ---- Part 3 (informational): real parallelism, 8 goroutines, same call.
	// Each goroutine keeps its last results and looks at them (len only, so the
	// unsynchronised access cannot trip the runtime's concurrent-map check).
	runtime.GOMAXPROCS(runtime.NumCPU())
	input := []byte("abcdefghijklmnopqrstuvwxyz")
	var (
		wg       sync.WaitGroup
		changed  atomic.Int64
		stop     atomic.Bool
		deadline = time.Now().Add(10 * time.Second)
	)
	for g := 0; g < 8; g++ {
		wg.Add(1)
		go func() {
			defer wg.Done()
			var kept []storeDict
			for !stop.Load() && time.Now().Before(deadline) {
				v, _ := Parse("", input)
				kept = append(kept, v.(storeDict))
				if len(kept) > 32 {
					kept = kept[1:]
				}
				for _, m := range kept {
					if len(m) != 0 {
						changed.Add(1)
						stop.Store(true)
					}
				}
			}
		}()
	}
	wg.Wait()
	fmt.Printf("part 3: parallel run: %d returned (empty) maps were seen non-empty later\n", changed.Load())

	if violations > 0 {
		os.Exit(0)
	}
	fmt.Println("no violation observed")
	os.Exit(1)
}
