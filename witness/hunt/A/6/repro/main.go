package main

import "fmt"

func main() {
	violated := false
	check := func(rule, in string, want bool) {
		v, err := Parse("", []byte(in), Entrypoint(rule), AllowInvalidUTF8(true))
		got := err == nil
		status := "ok"
		if got != want {
			status = "WRONG"
			violated = true
		}
		fmt.Printf("%-5s input %-14q matched=%-5v expected=%-5v value=%q %s\n", rule, in, got, want, v, status)
	}
	for _, r := range []string{"Hex", "Octal"} {
		check(r, "\xe9b", true)          // the byte the literal denotes
		check(r, "\xffb", false)         // another invalid byte
		check(r, "\xc0b", false)         // another invalid byte
		check(r, "\xef\xbf\xbdb", false) // a well-formed U+FFFD (3 bytes)
	}
	if violated {
		fmt.Println("VIOLATION: the literal \"\\xe9\" matches input that is not the byte 0xe9")
	} else {
		fmt.Println("OK")
	}
}
