package main

// Replay of failed obligations on the real code.
//
// * Exhaustively decided obligations (template instantiations type-checked through the real builder,
//   Unicode class names looked up in the real tables) fail WITH their concrete input: the flag
//   combination or the class name; that is the reproduced failure.
// * The string lemma returns a z3 model (two (rule, index) pairs with the same method name).
// * Deductive obligations over function bodies: the solvers answer unknown/timeout under the quantified
//   preludes, so there is no model to replay; the violation is reported with no-failing-input-found and
//   the replay file carries the failed paths, solver output and .smt2 files.
func replayModel(d *Driver, q *Query) (bool, string) {
	if q.Solver == "exhaustive" {
		return true, "failing input (decided on the real code): " + q.Obligation + ": " + q.Model
	}
	if q.Kind == "bounded" && q.Result == "sat" {
		return true, "failing input (the real functions were run on it): " + q.Model
	}
	if q.Kind == "bounded" {
		return false, q.Model
	}
	if q.Kind == "lemma" && q.Result == "sat" {
		return false, "solver model: " + q.Model
	}
	return false, ""
}
