package main

import (
	"fmt"
	"os"
)

func main() {
	observed := false
	for _, tc := range []struct{ in, wantRef, gotLR string }{
		// expected set differs
		{"1z", `1:2 (1): no match found, expected: "+" or "y"`, `1:2 (1): no match found, expected: "y"`},
		// farthest position differs: outside the predicate the second "1" of
		// the growth attempt starts at offset 3 and fails there
		{"1+1z", `1:4 (3): no match found, expected: "1"`, `1:3 (2): no match found, expected: !"1"`},
	} {
		_, err := Parse("", []byte(tc.in))
		_, ref := Parse("", []byte(tc.in), Entrypoint("Ref"))
		fmt.Printf("input %q\n  left-recursive grammar: %v\n  iterative grammar:      %v\n", tc.in, err, ref)
		if ref != nil && ref.Error() == tc.wantRef && err != nil && err.Error() == tc.gotLR {
			fmt.Println("  -> VIOLATION (no Memoize option used): the second evaluation of E is served from the left-recursion memo and its terminal failures are not recorded")
			observed = true
		}
	}
	if observed {
		os.Exit(0)
	}
	os.Exit(1)
}
