package main

import (
	"fmt"
	"strings"
)

// describe renders the dynamic shape of a value.
func describe(v any) string {
	switch v := v.(type) {
	case nil:
		return "nil"
	case []byte:
		return fmt.Sprintf("[]byte(%q)", v)
	case string:
		return "string(" + v + ")"
	case []any:
		parts := make([]string, len(v))
		for i, e := range v {
			parts[i] = describe(e)
		}
		return "[]any{" + strings.Join(parts, ", ") + "}"
	}
	return fmt.Sprintf("%T", v)
}

func main() {
	for _, in := range []string{"ab", "zyb", "kcd"} {
		v, err := Parse("", []byte(in))
		fmt.Printf("%s -> %s err=%v\n", in, describe(v), err)
	}
}
