package main

import (
	"fmt"
	"os"
)

func main() {
	in := []byte("aaaaaaaaaa")

	ref, referr := Parse("", in) // unbounded reference parse
	fmt.Printf("unbounded:                      ok=%v err=%v\n", ref != nil, referr)

	st := &Stats{}
	v1, err1 := Parse("", in, MaxExpressions(20), Statistics(st, "no match"))
	fmt.Printf("1st parse, budget 20:           ok=%v err=%v   (ExprCnt now %d)\n", v1 != nil, err1, st.ExprCnt)
	before := st.ExprCnt

	// same input, same budget, same (re-used) statistics collector
	v2, err2 := Parse("", in, MaxExpressions(20), Statistics(st, "no match"))
	fmt.Printf("2nd parse, budget 20, same Stats: ok=%v err=%v   (ExprCnt now %d, i.e. %d evaluated)\n",
		v2 != nil, err2, st.ExprCnt, st.ExprCnt-before)

	if referr == nil && err1 == nil && err2 != nil {
		fmt.Println("VIOLATION: a parse that needs 15 expressions fails under MaxExpressions(20) because the budget is compared to the collector's running total")
		os.Exit(0)
	}
	fmt.Println("no violation observed")
	os.Exit(1)
}
