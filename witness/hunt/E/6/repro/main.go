package main

import (
	"fmt"
	"os"
)

func main() {
	observed := false
	v, err := Parse("", []byte("ab"))
	fmt.Printf("Parse(\"ab\"): v=%v err=%v\n", v, err)
	if err == nil && v == "b" {
		fmt.Println("  -> VIOLATION: T's action sees x == \"b\": the label x of the recovery expression (rule Start) overwrote T's own x (\"a\"); the recovery should only supply a value in place of the throw")
		observed = true
	}
	v, err = Parse("", []byte("ku"), Entrypoint("Start2"))
	fmt.Printf("Parse(\"ku\", Entrypoint(Start2)): v=%s err=%v\n", v, err)
	if err == nil && fmt.Sprintf("%s", v) == "[u k=u]" {
		fmt.Println("  -> VIOLATION: the recovery expression's code block was compiled against Start2's label k (\"k\", expected [u k=k]) but received U's k (\"u\")")
		observed = true
	}
	if observed {
		os.Exit(0)
	}
	os.Exit(1)
}
