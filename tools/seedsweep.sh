#!/bin/sh
# usage: seedsweep.sh <out-file> <seed-id> [...]   seed-id = Cxx-N (directory under /verif/seeded)
# For each seed: apply patch.diff to /repo, run the property's quick check, restore /repo.
# Never leaves /repo modified. Evidence of these runs on MODIFIED trees goes to .work/sweep-evidence, never to evidence/.
out="$1"; shift
: > "$out"
for s in "$@"; do
  prop=${s%%-*}
  dir=/verif/seeded/$s
  cd /repo || exit 3
  git diff --quiet || { echo "$s repo-dirty" >> "$out"; exit 3; }
  if ! git apply "$dir/patch.diff" 2>/dev/null; then echo "$s PATCH-DOES-NOT-APPLY" >> "$out"; continue; fi
  cd /verif
  start=$(date +%s)
  VERIF_EVIDENCE_DIR=/verif/.work/sweep-evidence ./check "$prop" quick > /verif/.work/sweep.log 2>&1
  rc=$?
  end=$(date +%s)
  v=$(grep -c "^VIOLATION" /verif/.work/sweep.log)
  first=$(grep "^VIOLATION" /verif/.work/sweep.log | sed 's/.*obligation=\([^ ]*\).*/\1/' | sed 's/^rt\[[^]]*\]/rt/' | sort -u | head -4 | tr '\n' ' ')
  echo "$s exit=$rc violations=$v secs=$((end-start)) :: $first" >> "$out"
  git -C /repo checkout -- . ; git -C /repo clean -fdq
done
echo done >> "$out"
