; obligation rt[o0b0l0s0]:parser.restoreState:frame[Mval_storeDict]
; clause: callee may modify mapof(sd); must be inside modifies
; at rt.go:742
; path: else@rt.go:734 / loop#1 exit
(set-option :produce-models true)
(set-logic ALL)
(declare-sort Str 0)
(declare-sort Any 0)
(declare-datatypes ((S_position 0)) (((mk_S_position (S_position_line Int) (S_position_col Int) (S_position_offset Int)))))
(declare-datatypes ((Slice_Int 0)) (((mk_Slice_Int (arr_Slice_Int (Array Int Int)) (off_Slice_Int Int) (len_Slice_Int Int) (cap_Slice_Int Int)))))
(declare-datatypes ((S_current 0)) (((mk_S_current (S_current_pos S_position) (S_current_text Slice_Int) (S_current_state Int) (S_current_globalStore Int)))))
(declare-datatypes ((Slice_Any 0)) (((mk_Slice_Any (arr_Slice_Any (Array Int Any)) (off_Slice_Any Int) (len_Slice_Any Int) (cap_Slice_Any Int)))))
(declare-fun typeOf (Any) Int)
(declare-const nilAny Any)
(declare-fun slen (Str) Int)
(declare-const emptyStr Str)
(declare-fun scat (Str Str) Str)
(declare-fun runeCount (Str) Int)
(declare-fun runeOf (Str Int) Int)
(declare-fun sle (Str Str) Bool)
(declare-fun card_Str ((Array Str Bool)) Int)
(declare-fun wit_Str ((Array Str Bool)) Str)
(declare-fun ThrowPre (Slice_Int Int Str Slice_Int Int) Bool)
(declare-fun elem_Slice_Int (Slice_Int Int) Int)
(declare-fun D (Any Slice_Int Int Bool Int Any) Bool)
(declare-fun TH (Slice_Int Str Slice_Int Int Bool Int Any) Bool)
(declare-fun DR (Int Slice_Int Int Bool Int Any) Bool)
(declare-fun box_Int (Int Int) Any)
(declare-fun unbox_Int (Any) Int)
(declare-fun defined (Str) Bool)
(declare-fun elem_Slice_Any (Slice_Any Int) Any)
(declare-fun IsNode (Any) Bool)
(declare-fun KeptE (Slice_Any Int (Array Int Any) Int) Bool)
(declare-fun errMsg (Any) Str)
(declare-fun decR (Slice_Int) Int)
(declare-fun decW (Slice_Int) Int)
(declare-fun bnd (Slice_Int Int) Bool)
(declare-fun lineAt (Slice_Int Int) Int)
(declare-fun colAt (Slice_Int Int) Int)
(declare-fun LitPre (Int Slice_Int Int Int Int) Bool)
(declare-fun toLower (Int) Int)
(declare-fun box_Slice_Int (Int Slice_Int) Any)
(declare-fun unbox_Slice_Int (Any) Slice_Int)
(declare-fun uniIs (Int Int) Bool)
(declare-fun SeqPre (Int Slice_Int Int Int Int (Array Int Any)) Bool)
(declare-fun box_Slice_Any (Int Slice_Any) Any)
(declare-fun unbox_Slice_Any (Any) Slice_Any)
(declare-fun ChoicePre (Int Slice_Int Int Int) Bool)
(declare-fun RepPre (Any Slice_Int Int Int Int (Array Int Any)) Bool)
(declare-const str!0 Str) ; "restoreState"
(assert (= (slen str!0) 12))
(assert (= (runeCount str!0) 12))
(declare-const in_p Int)
(declare-const Alloc@pre (Array Int Bool))
(declare-const in_state Int)
(declare-const H_parser_cur@pre (Array Int S_current))
(declare-const H_parser_debug@pre (Array Int Bool))
(declare-const H_parser_depth@pre (Array Int Int))
(declare-const hv!1 Int)
(declare-const H_parser_depth!2 (Array Int Int))
(declare-const Alloc!3 (Array Int Bool))
(declare-const ret_parser_in!4 Str)
(declare-const dom0!5 (Array Str Bool))
(declare-const Mdom_storeDict@pre (Array Int (Array Str Bool)))
(declare-const Mval_storeDict@pre (Array Int (Array Str Any)))
(declare-const Mval_storeDict!6 (Array Int (Array Str Any)))
(declare-const Mdom_storeDict!7 (Array Int (Array Str Bool)))
(declare-const visited1!8 (Array Str Bool))
(declare-const key!9 Str)
(declare-const v!10 Any)
(declare-const Mdom_storeDict!11 (Array Int (Array Str Bool)))
(declare-const Mval_storeDict!12 (Array Int (Array Str Any)))
(declare-const visited1!13 (Array Str Bool))
(declare-const dom0!14 (Array Str Bool))
(declare-const Mdom_storeDict!15 (Array Int (Array Str Bool)))
(declare-const Mval_storeDict!16 (Array Int (Array Str Any)))
(declare-const visited1!17 (Array Str Bool))
(declare-const key!18 Str)
(declare-const v!19 Any)
(declare-const Mdom_storeDict!20 (Array Int (Array Str Bool)))
(declare-const Mval_storeDict!21 (Array Int (Array Str Any)))
(declare-const visited1!22 (Array Str Bool))
(declare-const hv!23 (Array Str Bool))
(declare-const Mdom_storeDict!24 (Array Int (Array Str Bool)))
(declare-const hv!25 (Array Str Any))
(declare-const Mval_storeDict!26 (Array Int (Array Str Any)))
(declare-const Alloc!27 (Array Int Bool))
(declare-const hv!28 (Array Str Bool))
(declare-const Mdom_storeDict!29 (Array Int (Array Str Bool)))
(declare-const hv!30 (Array Str Any))
(declare-const Mval_storeDict!31 (Array Int (Array Str Any)))
(declare-const Alloc!32 (Array Int Bool))
(declare-const hv!33 Int)
(declare-const H_parser_depth!34 (Array Int Int))
(declare-const Alloc!35 (Array Int Bool))
(declare-const ret_parser_out!36 Str)
(declare-const Mdom_map_string_any@pre (Array Int (Array Str Bool)))
(declare-const Mval_map_string_any@pre (Array Int (Array Str Any)))
(declare-const H_rule_expr@pre (Array Int Any))
(declare-const H_rule_name@pre (Array Int Str))
(declare-const H_ruleRefExpr_name@pre (Array Int Str))
(declare-const H_seqExpr_exprs@pre (Array Int Slice_Any))
(declare-const H_choiceExpr_alternatives@pre (Array Int Slice_Any))
(declare-const H_andCodeExpr_run@pre (Array Int Int))
(declare-const H_notCodeExpr_run@pre (Array Int Int))
(declare-const H_stateCodeExpr_run@pre (Array Int Int))
(declare-const H_charClassMatcher_ranges@pre (Array Int Slice_Int))
(declare-const G_g@pre Int)
(declare-const H_grammar_rules@pre (Array Int Slice_Int))
(declare-const H_litMatcher_val@pre (Array Int Str))
(declare-const H_litMatcher_ignoreCase@pre (Array Int Bool))
(declare-const H_charClassMatcher_ignoreCase@pre (Array Int Bool))
(declare-const H_charClassMatcher_chars@pre (Array Int Slice_Int))
(declare-const H_charClassMatcher_classes@pre (Array Int Slice_Int))
(declare-const H_charClassMatcher_inverted@pre (Array Int Bool))
(declare-const H_andExpr_expr@pre (Array Int Any))
(declare-const H_notExpr_expr@pre (Array Int Any))
(declare-const H_zeroOrMoreExpr_expr@pre (Array Int Any))
(declare-const H_oneOrMoreExpr_expr@pre (Array Int Any))
(declare-const H_zeroOrOneExpr_expr@pre (Array Int Any))
(declare-const H_labeledExpr_expr@pre (Array Int Any))
(declare-const H_actionExpr_expr@pre (Array Int Any))
(declare-const H_actionExpr_run@pre (Array Int Int))
(declare-const H_recoveryExpr_expr@pre (Array Int Any))
(declare-const H_recoveryExpr_recoverExpr@pre (Array Int Any))
(assert (= (typeOf nilAny) 0))
(assert (forall ((x Any)) (! (=> (= (typeOf x) 0) (= x nilAny)) :pattern ((typeOf x)))))
(assert (forall ((s Str)) (! (>= (slen s) 0) :pattern ((slen s)))))
(assert (= (slen emptyStr) 0))
(assert (forall ((s Str)) (! (=> (= (slen s) 0) (= s emptyStr)) :pattern ((slen s)))))
(assert (forall ((a Str) (b Str)) (! (= (slen (scat a b)) (+ (slen a) (slen b))) :pattern ((scat a b)))))
(assert (forall ((a Str) (b Str) (c Str)) (! (=> (= (scat a b) (scat a c)) (= b c)) :pattern ((scat a b) (scat a c)))))
(assert (forall ((a Str) (b Str) (c Str)) (! (= (scat (scat a b) c) (scat a (scat b c))) :pattern ((scat (scat a b) c)))))
(assert (forall ((a Str)) (! (= (scat a emptyStr) a) :pattern ((scat a emptyStr)))))
(assert (forall ((a Str)) (! (= (scat emptyStr a) a) :pattern ((scat emptyStr a)))))
(assert (forall ((s Str)) (! (>= (runeCount s) 0) :pattern ((runeCount s)))))
(assert (forall ((a Str)) (! (sle a a) :pattern ((sle a a)))))
(assert (forall ((a Str) (b Str)) (! (or (sle a b) (sle b a)) :pattern ((sle a b)))))
(assert (forall ((a Str) (b Str)) (! (=> (and (sle a b) (sle b a)) (= a b)) :pattern ((sle a b) (sle b a)))))
(assert (forall ((a Str) (b Str) (c Str)) (! (=> (and (sle a b) (sle b c)) (sle a c)) :pattern ((sle a b) (sle b c)))))
(assert (forall ((d (Array Str Bool))) (! (>= (card_Str d) 0) :pattern ((card_Str d)))))
(assert (= (card_Str ((as const (Array Str Bool)) false)) 0))
(assert (forall ((d (Array Str Bool)) (k Str)) (! (=> (= (card_Str d) 0) (not (select d k))) :pattern ((card_Str d) (select d k)))))
(assert (forall ((d (Array Str Bool))) (! (=> (= (card_Str d) 0) (= d ((as const (Array Str Bool)) false))) :pattern ((card_Str d)))))
(assert (forall ((d (Array Str Bool))) (! (=> (> (card_Str d) 0) (select d (wit_Str d))) :pattern ((card_Str d)))))
(assert (forall ((d (Array Str Bool)) (a Str) (b Str)) (! (=> (and (= (card_Str d) 1) (select d a) (select d b)) (= a b)) :pattern ((card_Str d) (select d a) (select d b)))))
(assert (forall ((d (Array Str Bool)) (k Str)) (! (= (card_Str (store d k true)) (ite (select d k) (card_Str d) (+ (card_Str d) 1))) :pattern ((card_Str (store d k true))))))
(assert (forall ((d (Array Str Bool)) (k Str)) (! (= (card_Str (store d k false)) (ite (select d k) (- (card_Str d) 1) (card_Str d))) :pattern ((card_Str (store d k false))))))
(assert (forall ((s Slice_Int) (i Int)) (! (= (elem_Slice_Int s i) (select (arr_Slice_Int s) (+ (off_Slice_Int s) i))) :pattern ((elem_Slice_Int s i)))))
(assert (forall ((t Int) (v Int)) (! (=> (> t 0) (= (typeOf (box_Int t v)) t)) :pattern ((box_Int t v)))))
(assert (forall ((t Int) (v Int)) (! (=> (> t 0) (= (unbox_Int (box_Int t v)) v)) :pattern ((box_Int t v)))))
(assert (forall ((s Slice_Any) (i Int)) (! (= (elem_Slice_Any s i) (select (arr_Slice_Any s) (+ (off_Slice_Any s) i))) :pattern ((elem_Slice_Any s i)))))
(assert (forall ((t Int) (v Slice_Int)) (! (=> (> t 0) (= (typeOf (box_Slice_Int t v)) t)) :pattern ((box_Slice_Int t v)))))
(assert (forall ((t Int) (v Slice_Int)) (! (=> (> t 0) (= (unbox_Slice_Int (box_Slice_Int t v)) v)) :pattern ((box_Slice_Int t v)))))
(assert (forall ((t Int) (v Slice_Any)) (! (=> (> t 0) (= (typeOf (box_Slice_Any t v)) t)) :pattern ((box_Slice_Any t v)))))
(assert (forall ((t Int) (v Slice_Any)) (! (=> (> t 0) (= (unbox_Slice_Any (box_Slice_Any t v)) v)) :pattern ((box_Slice_Any t v)))))
(assert (forall ((q_rs_3 Slice_Int) (q_n_4 Int) (q_l_5 Str) (q_d_6 Slice_Int) (q_i_7 Int)) (! (=> (and (and (and (ThrowPre q_rs_3 q_n_4 q_l_5 q_d_6 q_i_7) (<= 0 q_n_4)) (< q_n_4 (len_Slice_Int q_rs_3))) (not (and (not (= (elem_Slice_Int q_rs_3 q_n_4) 0)) (select (select Mdom_map_string_any@pre (elem_Slice_Int q_rs_3 q_n_4)) q_l_5)))) (ThrowPre q_rs_3 (- q_n_4 1) q_l_5 q_d_6 q_i_7)) :pattern ((ThrowPre q_rs_3 q_n_4 q_l_5 q_d_6 q_i_7))))) ; axiom throw-skip
(assert (forall ((q_rs_8 Slice_Int) (q_n_9 Int) (q_l_10 Str) (q_d_11 Slice_Int) (q_i_12 Int) (q_v_13 Any)) (! (=> (and (and (and (and (ThrowPre q_rs_8 q_n_9 q_l_10 q_d_11 q_i_12) (<= 0 q_n_9)) (< q_n_9 (len_Slice_Int q_rs_8))) (and (not (= (elem_Slice_Int q_rs_8 q_n_9) 0)) (select (select Mdom_map_string_any@pre (elem_Slice_Int q_rs_8 q_n_9)) q_l_10))) (D (select (select Mval_map_string_any@pre (elem_Slice_Int q_rs_8 q_n_9)) q_l_10) q_d_11 q_i_12 false q_i_12 q_v_13)) (ThrowPre q_rs_8 (- q_n_9 1) q_l_10 q_d_11 q_i_12)) :pattern ((ThrowPre q_rs_8 q_n_9 q_l_10 q_d_11 q_i_12) (D (select (select Mval_map_string_any@pre (elem_Slice_Int q_rs_8 q_n_9)) q_l_10) q_d_11 q_i_12 false q_i_12 q_v_13))))) ; axiom throw-next
(assert (forall ((q_rs_14 Slice_Int) (q_n_15 Int) (q_l_16 Str) (q_d_17 Slice_Int) (q_i_18 Int) (q_j_19 Int) (q_v_20 Any)) (! (=> (and (and (and (and (ThrowPre q_rs_14 q_n_15 q_l_16 q_d_17 q_i_18) (<= 0 q_n_15)) (< q_n_15 (len_Slice_Int q_rs_14))) (and (not (= (elem_Slice_Int q_rs_14 q_n_15) 0)) (select (select Mdom_map_string_any@pre (elem_Slice_Int q_rs_14 q_n_15)) q_l_16))) (D (select (select Mval_map_string_any@pre (elem_Slice_Int q_rs_14 q_n_15)) q_l_16) q_d_17 q_i_18 true q_j_19 q_v_20)) (TH q_rs_14 q_l_16 q_d_17 q_i_18 true q_j_19 q_v_20)) :pattern ((ThrowPre q_rs_14 q_n_15 q_l_16 q_d_17 q_i_18) (D (select (select Mval_map_string_any@pre (elem_Slice_Int q_rs_14 q_n_15)) q_l_16) q_d_17 q_i_18 true q_j_19 q_v_20))))) ; axiom throw-ok
(assert (forall ((q_rs_21 Slice_Int) (q_l_22 Str) (q_d_23 Slice_Int) (q_i_24 Int)) (! (=> (ThrowPre q_rs_21 (- 0 1) q_l_22 q_d_23 q_i_24) (TH q_rs_21 q_l_22 q_d_23 q_i_24 false q_i_24 nilAny)) :pattern ((ThrowPre q_rs_21 (- 0 1) q_l_22 q_d_23 q_i_24))))) ; axiom throw-fail
(assert (forall ((q_r_25 Int) (q_d_26 Slice_Int) (q_i_27 Int) (q_ok_28 Bool) (q_j_29 Int) (q_v_30 Any)) (! (=> (D (select H_rule_expr@pre q_r_25) q_d_26 q_i_27 q_ok_28 q_j_29 q_v_30) (DR q_r_25 q_d_26 q_i_27 q_ok_28 q_j_29 q_v_30)) :pattern ((D (select H_rule_expr@pre q_r_25) q_d_26 q_i_27 q_ok_28 q_j_29 q_v_30))))) ; axiom rule-intro
(assert (forall ((q_f_31 Int) (q_r_32 Int) (q_d_33 Slice_Int) (q_i_34 Int) (q_ok_35 Bool) (q_j_36 Int) (q_v_37 Any)) (! (=> (and (and (DR q_r_32 q_d_33 q_i_34 q_ok_35 q_j_36 q_v_37) (not (= q_r_32 0))) (= (select H_rule_name@pre q_r_32) (select H_ruleRefExpr_name@pre q_f_31))) (D (box_Int 1 q_f_31) q_d_33 q_i_34 q_ok_35 q_j_36 q_v_37)) :pattern ((DR q_r_32 q_d_33 q_i_34 q_ok_35 q_j_36 q_v_37) (D (box_Int 1 q_f_31) q_d_33 q_i_34 q_ok_35 q_j_36 q_v_37))))) ; axiom ref-intro
(assert (forall ((q_f_38 Int) (q_d_39 Slice_Int) (q_i_40 Int)) (! (=> (not (defined (select H_ruleRefExpr_name@pre q_f_38))) (D (box_Int 1 q_f_38) q_d_39 q_i_40 false q_i_40 nilAny)) :pattern ((D (box_Int 1 q_f_38) q_d_39 q_i_40 false q_i_40 nilAny))))) ; axiom ref-undef
(assert (forall ((q_s_41 Int) (q_k_42 Int)) (! (=> (and (and (not (= q_s_41 0)) (<= 0 q_k_42)) (< q_k_42 (len_Slice_Any (select H_seqExpr_exprs@pre q_s_41)))) (IsNode (elem_Slice_Any (select H_seqExpr_exprs@pre q_s_41) q_k_42))) :pattern ((elem_Slice_Any (select H_seqExpr_exprs@pre q_s_41) q_k_42))))) ; axiom wf-seq
(assert (forall ((q_c_43 Int) (q_k_44 Int)) (! (=> (and (and (not (= q_c_43 0)) (<= 0 q_k_44)) (< q_k_44 (len_Slice_Any (select H_choiceExpr_alternatives@pre q_c_43)))) (IsNode (elem_Slice_Any (select H_choiceExpr_alternatives@pre q_c_43) q_k_44))) :pattern ((elem_Slice_Any (select H_choiceExpr_alternatives@pre q_c_43) q_k_44))))) ; axiom wf-choice
(assert (forall ((q_a_45 Int)) (! (=> (not (= q_a_45 0)) (not (= (select H_andCodeExpr_run@pre q_a_45) 0))) :pattern ((select H_andCodeExpr_run@pre q_a_45))))) ; axiom wf-andcode
(assert (forall ((q_a_46 Int)) (! (=> (not (= q_a_46 0)) (not (= (select H_notCodeExpr_run@pre q_a_46) 0))) :pattern ((select H_notCodeExpr_run@pre q_a_46))))) ; axiom wf-notcode
(assert (forall ((q_a_47 Int)) (! (=> (not (= q_a_47 0)) (not (= (select H_stateCodeExpr_run@pre q_a_47) 0))) :pattern ((select H_stateCodeExpr_run@pre q_a_47))))) ; axiom wf-statecode
(assert (forall ((q_c_48 Int)) (! (=> (not (= q_c_48 0)) (= (mod (len_Slice_Int (select H_charClassMatcher_ranges@pre q_c_48)) 2) 0)) :pattern ((select H_charClassMatcher_ranges@pre q_c_48))))) ; axiom wf-class
(assert (forall ((q_r_49 Int)) (! (=> (not (= q_r_49 0)) (IsNode (select H_rule_expr@pre q_r_49))) :pattern ((select H_rule_expr@pre q_r_49))))) ; axiom wf-rule
(assert (forall ((q_o_50 Slice_Any) (q_j_51 Int) (q_a_52 (Array Int Any)) (q_n_53 Int)) (! (=> (and (and (and (KeptE q_o_50 q_j_51 q_a_52 q_n_53) (<= 0 q_j_51)) (< q_j_51 (len_Slice_Any q_o_50))) (forall ((q_i_54 Int)) (=> (and (<= 0 q_i_54) (< q_i_54 q_j_51)) (not (= (errMsg (elem_Slice_Any q_o_50 q_i_54)) (errMsg (elem_Slice_Any q_o_50 q_j_51))))))) (KeptE q_o_50 (+ q_j_51 1) (store q_a_52 q_n_53 (elem_Slice_Any q_o_50 q_j_51)) (+ q_n_53 1))) :pattern ((KeptE q_o_50 q_j_51 q_a_52 q_n_53))))) ; axiom kepte-take
(assert (forall ((q_o_55 Slice_Any) (q_j_56 Int) (q_a_57 (Array Int Any)) (q_n_58 Int)) (! (=> (and (and (and (KeptE q_o_55 q_j_56 q_a_57 q_n_58) (<= 0 q_j_56)) (< q_j_56 (len_Slice_Any q_o_55))) (not (forall ((q_i_59 Int)) (=> (and (<= 0 q_i_59) (< q_i_59 q_j_56)) (not (= (errMsg (elem_Slice_Any q_o_55 q_i_59)) (errMsg (elem_Slice_Any q_o_55 q_j_56)))))))) (KeptE q_o_55 (+ q_j_56 1) q_a_57 q_n_58)) :pattern ((KeptE q_o_55 q_j_56 q_a_57 q_n_58))))) ; axiom kepte-skip
(assert (forall ((q_b_60 Slice_Int)) (! (and (=> (= (len_Slice_Int q_b_60) 0) (and (= (decR q_b_60) 65533) (= (decW q_b_60) 0))) (=> (> (len_Slice_Int q_b_60) 0) (and (and (<= 1 (decW q_b_60)) (<= (decW q_b_60) 4)) (<= (decW q_b_60) (len_Slice_Int q_b_60))))) :pattern ((decW q_b_60))))) ; axiom dec-eof
(assert (forall ((q_b_61 Slice_Int)) (! (and (<= 0 (decR q_b_61)) (<= (decR q_b_61) 1114111)) :pattern ((decR q_b_61))))) ; axiom dec-range
(assert (forall ((q_d_62 Slice_Int) (q_o_63 Int)) (! (=> (and (and (bnd q_d_62 q_o_63) (<= 0 q_o_63)) (< q_o_63 (len_Slice_Int q_d_62))) (and (and (bnd q_d_62 (+ q_o_63 (decW (mk_Slice_Int (arr_Slice_Int q_d_62) (+ (off_Slice_Int q_d_62) q_o_63) (- (len_Slice_Int q_d_62) q_o_63) (- (cap_Slice_Int q_d_62) q_o_63))))) (= (lineAt q_d_62 (+ q_o_63 (decW (mk_Slice_Int (arr_Slice_Int q_d_62) (+ (off_Slice_Int q_d_62) q_o_63) (- (len_Slice_Int q_d_62) q_o_63) (- (cap_Slice_Int q_d_62) q_o_63))))) (+ (lineAt q_d_62 q_o_63) (ite (= (decR (mk_Slice_Int (arr_Slice_Int q_d_62) (+ (off_Slice_Int q_d_62) (+ q_o_63 (decW (mk_Slice_Int (arr_Slice_Int q_d_62) (+ (off_Slice_Int q_d_62) q_o_63) (- (len_Slice_Int q_d_62) q_o_63) (- (cap_Slice_Int q_d_62) q_o_63))))) (- (len_Slice_Int q_d_62) (+ q_o_63 (decW (mk_Slice_Int (arr_Slice_Int q_d_62) (+ (off_Slice_Int q_d_62) q_o_63) (- (len_Slice_Int q_d_62) q_o_63) (- (cap_Slice_Int q_d_62) q_o_63))))) (- (cap_Slice_Int q_d_62) (+ q_o_63 (decW (mk_Slice_Int (arr_Slice_Int q_d_62) (+ (off_Slice_Int q_d_62) q_o_63) (- (len_Slice_Int q_d_62) q_o_63) (- (cap_Slice_Int q_d_62) q_o_63))))))) 10) 1 0)))) (= (colAt q_d_62 (+ q_o_63 (decW (mk_Slice_Int (arr_Slice_Int q_d_62) (+ (off_Slice_Int q_d_62) q_o_63) (- (len_Slice_Int q_d_62) q_o_63) (- (cap_Slice_Int q_d_62) q_o_63))))) (ite (= (decR (mk_Slice_Int (arr_Slice_Int q_d_62) (+ (off_Slice_Int q_d_62) (+ q_o_63 (decW (mk_Slice_Int (arr_Slice_Int q_d_62) (+ (off_Slice_Int q_d_62) q_o_63) (- (len_Slice_Int q_d_62) q_o_63) (- (cap_Slice_Int q_d_62) q_o_63))))) (- (len_Slice_Int q_d_62) (+ q_o_63 (decW (mk_Slice_Int (arr_Slice_Int q_d_62) (+ (off_Slice_Int q_d_62) q_o_63) (- (len_Slice_Int q_d_62) q_o_63) (- (cap_Slice_Int q_d_62) q_o_63))))) (- (cap_Slice_Int q_d_62) (+ q_o_63 (decW (mk_Slice_Int (arr_Slice_Int q_d_62) (+ (off_Slice_Int q_d_62) q_o_63) (- (len_Slice_Int q_d_62) q_o_63) (- (cap_Slice_Int q_d_62) q_o_63))))))) 10) 0 (+ (colAt q_d_62 q_o_63) 1))))) :pattern ((bnd q_d_62 q_o_63))))) ; axiom pos-step
(assert (and (and (not (= G_g@pre 0)) (>= (len_Slice_Int (select H_grammar_rules@pre G_g@pre)) 1)) (forall ((q_k_64 Int)) (! (=> (and (<= 0 q_k_64) (< q_k_64 (len_Slice_Int (select H_grammar_rules@pre G_g@pre)))) (not (= (elem_Slice_Int (select H_grammar_rules@pre G_g@pre) q_k_64) 0))) :pattern ((elem_Slice_Int (select H_grammar_rules@pre G_g@pre) q_k_64)))))) ; axiom wf-grammar
(assert (forall ((q_k_65 Int)) (! (=> (and (<= 0 q_k_65) (< q_k_65 (len_Slice_Int (select H_grammar_rules@pre G_g@pre)))) (defined (select H_rule_name@pre (elem_Slice_Int (select H_grammar_rules@pre G_g@pre) q_k_65)))) :pattern ((elem_Slice_Int (select H_grammar_rules@pre G_g@pre) q_k_65))))) ; axiom defined-intro
(assert (forall ((q_n_66 Str)) (! (=> (defined q_n_66) (exists ((q_k_67 Int)) (and (and (<= 0 q_k_67) (< q_k_67 (len_Slice_Int (select H_grammar_rules@pre G_g@pre)))) (= (select H_rule_name@pre (elem_Slice_Int (select H_grammar_rules@pre G_g@pre) q_k_67)) q_n_66)))) :pattern ((defined q_n_66))))) ; axiom defined-elim
(assert (forall ((q_l_68 Int) (q_d_69 Slice_Int) (q_k_70 Int) (q_i_71 Int) (q_j_72 Int)) (! (=> (and (and (and (and (LitPre q_l_68 q_d_69 q_k_70 q_i_71 q_j_72) (<= 0 q_k_70)) (< q_k_70 (runeCount (select H_litMatcher_val@pre q_l_68)))) (> (decW (mk_Slice_Int (arr_Slice_Int q_d_69) (+ (off_Slice_Int q_d_69) q_j_72) (- (len_Slice_Int q_d_69) q_j_72) (- (cap_Slice_Int q_d_69) q_j_72))) 0)) (= (ite (select H_litMatcher_ignoreCase@pre q_l_68) (toLower (decR (mk_Slice_Int (arr_Slice_Int q_d_69) (+ (off_Slice_Int q_d_69) q_j_72) (- (len_Slice_Int q_d_69) q_j_72) (- (cap_Slice_Int q_d_69) q_j_72)))) (decR (mk_Slice_Int (arr_Slice_Int q_d_69) (+ (off_Slice_Int q_d_69) q_j_72) (- (len_Slice_Int q_d_69) q_j_72) (- (cap_Slice_Int q_d_69) q_j_72)))) (runeOf (select H_litMatcher_val@pre q_l_68) q_k_70))) (LitPre q_l_68 q_d_69 (+ q_k_70 1) q_i_71 (+ q_j_72 (decW (mk_Slice_Int (arr_Slice_Int q_d_69) (+ (off_Slice_Int q_d_69) q_j_72) (- (len_Slice_Int q_d_69) q_j_72) (- (cap_Slice_Int q_d_69) q_j_72)))))) :pattern ((LitPre q_l_68 q_d_69 q_k_70 q_i_71 q_j_72))))) ; axiom lit-step
(assert (forall ((q_l_73 Int) (q_d_74 Slice_Int) (q_i_75 Int) (q_j_76 Int) (q_v_77 Any)) (! (=> (and (LitPre q_l_73 q_d_74 (runeCount (select H_litMatcher_val@pre q_l_73)) q_i_75 q_j_76) (= q_v_77 (box_Slice_Int 2 (mk_Slice_Int (arr_Slice_Int q_d_74) (+ (off_Slice_Int q_d_74) q_i_75) (- q_j_76 q_i_75) (- (cap_Slice_Int q_d_74) q_i_75))))) (D (box_Int 3 q_l_73) q_d_74 q_i_75 true q_j_76 q_v_77)) :pattern ((D (box_Int 3 q_l_73) q_d_74 q_i_75 true q_j_76 q_v_77))))) ; axiom lit-ok
(assert (forall ((q_l_78 Int) (q_d_79 Slice_Int) (q_k_80 Int) (q_i_81 Int) (q_j_82 Int)) (! (=> (and (and (and (LitPre q_l_78 q_d_79 q_k_80 q_i_81 q_j_82) (<= 0 q_k_80)) (< q_k_80 (runeCount (select H_litMatcher_val@pre q_l_78)))) (or (= (decW (mk_Slice_Int (arr_Slice_Int q_d_79) (+ (off_Slice_Int q_d_79) q_j_82) (- (len_Slice_Int q_d_79) q_j_82) (- (cap_Slice_Int q_d_79) q_j_82))) 0) (not (= (ite (select H_litMatcher_ignoreCase@pre q_l_78) (toLower (decR (mk_Slice_Int (arr_Slice_Int q_d_79) (+ (off_Slice_Int q_d_79) q_j_82) (- (len_Slice_Int q_d_79) q_j_82) (- (cap_Slice_Int q_d_79) q_j_82)))) (decR (mk_Slice_Int (arr_Slice_Int q_d_79) (+ (off_Slice_Int q_d_79) q_j_82) (- (len_Slice_Int q_d_79) q_j_82) (- (cap_Slice_Int q_d_79) q_j_82)))) (runeOf (select H_litMatcher_val@pre q_l_78) q_k_80))))) (D (box_Int 3 q_l_78) q_d_79 q_i_81 false q_i_81 nilAny)) :pattern ((LitPre q_l_78 q_d_79 q_k_80 q_i_81 q_j_82))))) ; axiom lit-fail
(assert (forall ((q_c_83 Int) (q_d_84 Slice_Int) (q_i_85 Int) (q_j_86 Int) (q_v_87 Any)) (! (=> (and (and (and (> (decW (mk_Slice_Int (arr_Slice_Int q_d_84) (+ (off_Slice_Int q_d_84) q_i_85) (- (len_Slice_Int q_d_84) q_i_85) (- (cap_Slice_Int q_d_84) q_i_85))) 0) (not (= (or (or (exists ((q_k_88 Int)) (and (and (<= 0 q_k_88) (< q_k_88 (len_Slice_Int (select H_charClassMatcher_chars@pre q_c_83)))) (= (elem_Slice_Int (select H_charClassMatcher_chars@pre q_c_83) q_k_88) (ite (select H_charClassMatcher_ignoreCase@pre q_c_83) (toLower (decR (mk_Slice_Int (arr_Slice_Int q_d_84) (+ (off_Slice_Int q_d_84) q_i_85) (- (len_Slice_Int q_d_84) q_i_85) (- (cap_Slice_Int q_d_84) q_i_85)))) (decR (mk_Slice_Int (arr_Slice_Int q_d_84) (+ (off_Slice_Int q_d_84) q_i_85) (- (len_Slice_Int q_d_84) q_i_85) (- (cap_Slice_Int q_d_84) q_i_85))))))) (exists ((q_k_89 Int)) (and (and (and (<= 0 q_k_89) (< (+ (* 2 q_k_89) 1) (len_Slice_Int (select H_charClassMatcher_ranges@pre q_c_83)))) (<= (elem_Slice_Int (select H_charClassMatcher_ranges@pre q_c_83) (* 2 q_k_89)) (ite (select H_charClassMatcher_ignoreCase@pre q_c_83) (toLower (decR (mk_Slice_Int (arr_Slice_Int q_d_84) (+ (off_Slice_Int q_d_84) q_i_85) (- (len_Slice_Int q_d_84) q_i_85) (- (cap_Slice_Int q_d_84) q_i_85)))) (decR (mk_Slice_Int (arr_Slice_Int q_d_84) (+ (off_Slice_Int q_d_84) q_i_85) (- (len_Slice_Int q_d_84) q_i_85) (- (cap_Slice_Int q_d_84) q_i_85)))))) (<= (ite (select H_charClassMatcher_ignoreCase@pre q_c_83) (toLower (decR (mk_Slice_Int (arr_Slice_Int q_d_84) (+ (off_Slice_Int q_d_84) q_i_85) (- (len_Slice_Int q_d_84) q_i_85) (- (cap_Slice_Int q_d_84) q_i_85)))) (decR (mk_Slice_Int (arr_Slice_Int q_d_84) (+ (off_Slice_Int q_d_84) q_i_85) (- (len_Slice_Int q_d_84) q_i_85) (- (cap_Slice_Int q_d_84) q_i_85)))) (elem_Slice_Int (select H_charClassMatcher_ranges@pre q_c_83) (+ (* 2 q_k_89) 1)))))) (exists ((q_k_90 Int)) (and (and (<= 0 q_k_90) (< q_k_90 (len_Slice_Int (select H_charClassMatcher_classes@pre q_c_83)))) (uniIs (elem_Slice_Int (select H_charClassMatcher_classes@pre q_c_83) q_k_90) (ite (select H_charClassMatcher_ignoreCase@pre q_c_83) (toLower (decR (mk_Slice_Int (arr_Slice_Int q_d_84) (+ (off_Slice_Int q_d_84) q_i_85) (- (len_Slice_Int q_d_84) q_i_85) (- (cap_Slice_Int q_d_84) q_i_85)))) (decR (mk_Slice_Int (arr_Slice_Int q_d_84) (+ (off_Slice_Int q_d_84) q_i_85) (- (len_Slice_Int q_d_84) q_i_85) (- (cap_Slice_Int q_d_84) q_i_85)))))))) (select H_charClassMatcher_inverted@pre q_c_83)))) (= q_j_86 (+ q_i_85 (decW (mk_Slice_Int (arr_Slice_Int q_d_84) (+ (off_Slice_Int q_d_84) q_i_85) (- (len_Slice_Int q_d_84) q_i_85) (- (cap_Slice_Int q_d_84) q_i_85)))))) (= q_v_87 (box_Slice_Int 2 (mk_Slice_Int (arr_Slice_Int q_d_84) (+ (off_Slice_Int q_d_84) q_i_85) (- q_j_86 q_i_85) (- (cap_Slice_Int q_d_84) q_i_85))))) (D (box_Int 4 q_c_83) q_d_84 q_i_85 true q_j_86 q_v_87)) :pattern ((D (box_Int 4 q_c_83) q_d_84 q_i_85 true q_j_86 q_v_87))))) ; axiom class-ok
(assert (forall ((q_c_91 Int) (q_d_92 Slice_Int) (q_i_93 Int)) (! (=> (not (and (> (decW (mk_Slice_Int (arr_Slice_Int q_d_92) (+ (off_Slice_Int q_d_92) q_i_93) (- (len_Slice_Int q_d_92) q_i_93) (- (cap_Slice_Int q_d_92) q_i_93))) 0) (not (= (or (or (exists ((q_k_94 Int)) (and (and (<= 0 q_k_94) (< q_k_94 (len_Slice_Int (select H_charClassMatcher_chars@pre q_c_91)))) (= (elem_Slice_Int (select H_charClassMatcher_chars@pre q_c_91) q_k_94) (ite (select H_charClassMatcher_ignoreCase@pre q_c_91) (toLower (decR (mk_Slice_Int (arr_Slice_Int q_d_92) (+ (off_Slice_Int q_d_92) q_i_93) (- (len_Slice_Int q_d_92) q_i_93) (- (cap_Slice_Int q_d_92) q_i_93)))) (decR (mk_Slice_Int (arr_Slice_Int q_d_92) (+ (off_Slice_Int q_d_92) q_i_93) (- (len_Slice_Int q_d_92) q_i_93) (- (cap_Slice_Int q_d_92) q_i_93))))))) (exists ((q_k_95 Int)) (and (and (and (<= 0 q_k_95) (< (+ (* 2 q_k_95) 1) (len_Slice_Int (select H_charClassMatcher_ranges@pre q_c_91)))) (<= (elem_Slice_Int (select H_charClassMatcher_ranges@pre q_c_91) (* 2 q_k_95)) (ite (select H_charClassMatcher_ignoreCase@pre q_c_91) (toLower (decR (mk_Slice_Int (arr_Slice_Int q_d_92) (+ (off_Slice_Int q_d_92) q_i_93) (- (len_Slice_Int q_d_92) q_i_93) (- (cap_Slice_Int q_d_92) q_i_93)))) (decR (mk_Slice_Int (arr_Slice_Int q_d_92) (+ (off_Slice_Int q_d_92) q_i_93) (- (len_Slice_Int q_d_92) q_i_93) (- (cap_Slice_Int q_d_92) q_i_93)))))) (<= (ite (select H_charClassMatcher_ignoreCase@pre q_c_91) (toLower (decR (mk_Slice_Int (arr_Slice_Int q_d_92) (+ (off_Slice_Int q_d_92) q_i_93) (- (len_Slice_Int q_d_92) q_i_93) (- (cap_Slice_Int q_d_92) q_i_93)))) (decR (mk_Slice_Int (arr_Slice_Int q_d_92) (+ (off_Slice_Int q_d_92) q_i_93) (- (len_Slice_Int q_d_92) q_i_93) (- (cap_Slice_Int q_d_92) q_i_93)))) (elem_Slice_Int (select H_charClassMatcher_ranges@pre q_c_91) (+ (* 2 q_k_95) 1)))))) (exists ((q_k_96 Int)) (and (and (<= 0 q_k_96) (< q_k_96 (len_Slice_Int (select H_charClassMatcher_classes@pre q_c_91)))) (uniIs (elem_Slice_Int (select H_charClassMatcher_classes@pre q_c_91) q_k_96) (ite (select H_charClassMatcher_ignoreCase@pre q_c_91) (toLower (decR (mk_Slice_Int (arr_Slice_Int q_d_92) (+ (off_Slice_Int q_d_92) q_i_93) (- (len_Slice_Int q_d_92) q_i_93) (- (cap_Slice_Int q_d_92) q_i_93)))) (decR (mk_Slice_Int (arr_Slice_Int q_d_92) (+ (off_Slice_Int q_d_92) q_i_93) (- (len_Slice_Int q_d_92) q_i_93) (- (cap_Slice_Int q_d_92) q_i_93)))))))) (select H_charClassMatcher_inverted@pre q_c_91))))) (D (box_Int 4 q_c_91) q_d_92 q_i_93 false q_i_93 nilAny)) :pattern ((D (box_Int 4 q_c_91) q_d_92 q_i_93 false q_i_93 nilAny))))) ; axiom class-no
(assert (forall ((q_a_97 Int) (q_d_98 Slice_Int) (q_i_99 Int) (q_j_100 Int) (q_v_101 Any)) (! (=> (and (and (> (decW (mk_Slice_Int (arr_Slice_Int q_d_98) (+ (off_Slice_Int q_d_98) q_i_99) (- (len_Slice_Int q_d_98) q_i_99) (- (cap_Slice_Int q_d_98) q_i_99))) 0) (= q_j_100 (+ q_i_99 (decW (mk_Slice_Int (arr_Slice_Int q_d_98) (+ (off_Slice_Int q_d_98) q_i_99) (- (len_Slice_Int q_d_98) q_i_99) (- (cap_Slice_Int q_d_98) q_i_99)))))) (= q_v_101 (box_Slice_Int 2 (mk_Slice_Int (arr_Slice_Int q_d_98) (+ (off_Slice_Int q_d_98) q_i_99) (- q_j_100 q_i_99) (- (cap_Slice_Int q_d_98) q_i_99))))) (D (box_Int 5 q_a_97) q_d_98 q_i_99 true q_j_100 q_v_101)) :pattern ((D (box_Int 5 q_a_97) q_d_98 q_i_99 true q_j_100 q_v_101))))) ; axiom any-ok
(assert (forall ((q_a_102 Int) (q_d_103 Slice_Int) (q_i_104 Int)) (! (=> (= (decW (mk_Slice_Int (arr_Slice_Int q_d_103) (+ (off_Slice_Int q_d_103) q_i_104) (- (len_Slice_Int q_d_103) q_i_104) (- (cap_Slice_Int q_d_103) q_i_104))) 0) (D (box_Int 5 q_a_102) q_d_103 q_i_104 false q_i_104 nilAny)) :pattern ((D (box_Int 5 q_a_102) q_d_103 q_i_104 false q_i_104 nilAny))))) ; axiom any-no
(assert (forall ((q_s_105 Int) (q_d_106 Slice_Int) (q_k_107 Int) (q_i_108 Int) (q_j_109 Int) (q_a_110 (Array Int Any)) (q_j2_111 Int) (q_v_112 Any)) (! (=> (and (and (and (SeqPre q_s_105 q_d_106 q_k_107 q_i_108 q_j_109 q_a_110) (<= 0 q_k_107)) (< q_k_107 (len_Slice_Any (select H_seqExpr_exprs@pre q_s_105)))) (D (elem_Slice_Any (select H_seqExpr_exprs@pre q_s_105) q_k_107) q_d_106 q_j_109 true q_j2_111 q_v_112)) (SeqPre q_s_105 q_d_106 (+ q_k_107 1) q_i_108 q_j2_111 (store q_a_110 q_k_107 q_v_112))) :pattern ((SeqPre q_s_105 q_d_106 q_k_107 q_i_108 q_j_109 q_a_110) (D (elem_Slice_Any (select H_seqExpr_exprs@pre q_s_105) q_k_107) q_d_106 q_j_109 true q_j2_111 q_v_112))))) ; axiom seq-step
(assert (forall ((q_s_113 Int) (q_d_114 Slice_Int) (q_i_115 Int) (q_j_116 Int) (q_vs_117 Slice_Any)) (! (=> (and (and (SeqPre q_s_113 q_d_114 (len_Slice_Any (select H_seqExpr_exprs@pre q_s_113)) q_i_115 q_j_116 (arr_Slice_Any q_vs_117)) (= (off_Slice_Any q_vs_117) 0)) (= (len_Slice_Any q_vs_117) (len_Slice_Any (select H_seqExpr_exprs@pre q_s_113)))) (D (box_Int 6 q_s_113) q_d_114 q_i_115 true q_j_116 (box_Slice_Any 7 q_vs_117))) :pattern ((SeqPre q_s_113 q_d_114 (len_Slice_Any (select H_seqExpr_exprs@pre q_s_113)) q_i_115 q_j_116 (arr_Slice_Any q_vs_117)))))) ; axiom seq-ok
(assert (forall ((q_s_118 Int) (q_d_119 Slice_Int) (q_k_120 Int) (q_i_121 Int) (q_j_122 Int) (q_a_123 (Array Int Any)) (q_v_124 Any)) (! (=> (and (and (and (SeqPre q_s_118 q_d_119 q_k_120 q_i_121 q_j_122 q_a_123) (<= 0 q_k_120)) (< q_k_120 (len_Slice_Any (select H_seqExpr_exprs@pre q_s_118)))) (D (elem_Slice_Any (select H_seqExpr_exprs@pre q_s_118) q_k_120) q_d_119 q_j_122 false q_j_122 q_v_124)) (D (box_Int 6 q_s_118) q_d_119 q_i_121 false q_i_121 nilAny)) :pattern ((SeqPre q_s_118 q_d_119 q_k_120 q_i_121 q_j_122 q_a_123) (D (elem_Slice_Any (select H_seqExpr_exprs@pre q_s_118) q_k_120) q_d_119 q_j_122 false q_j_122 q_v_124))))) ; axiom seq-fail
(assert (forall ((q_c_125 Int) (q_d_126 Slice_Int) (q_k_127 Int) (q_i_128 Int) (q_v_129 Any)) (! (=> (and (and (and (ChoicePre q_c_125 q_d_126 q_k_127 q_i_128) (<= 0 q_k_127)) (< q_k_127 (len_Slice_Any (select H_choiceExpr_alternatives@pre q_c_125)))) (D (elem_Slice_Any (select H_choiceExpr_alternatives@pre q_c_125) q_k_127) q_d_126 q_i_128 false q_i_128 q_v_129)) (ChoicePre q_c_125 q_d_126 (+ q_k_127 1) q_i_128)) :pattern ((ChoicePre q_c_125 q_d_126 q_k_127 q_i_128) (D (elem_Slice_Any (select H_choiceExpr_alternatives@pre q_c_125) q_k_127) q_d_126 q_i_128 false q_i_128 q_v_129))))) ; axiom choice-step
(assert (forall ((q_c_130 Int) (q_d_131 Slice_Int) (q_k_132 Int) (q_i_133 Int) (q_j_134 Int) (q_v_135 Any)) (! (=> (and (and (and (ChoicePre q_c_130 q_d_131 q_k_132 q_i_133) (<= 0 q_k_132)) (< q_k_132 (len_Slice_Any (select H_choiceExpr_alternatives@pre q_c_130)))) (D (elem_Slice_Any (select H_choiceExpr_alternatives@pre q_c_130) q_k_132) q_d_131 q_i_133 true q_j_134 q_v_135)) (D (box_Int 8 q_c_130) q_d_131 q_i_133 true q_j_134 q_v_135)) :pattern ((ChoicePre q_c_130 q_d_131 q_k_132 q_i_133) (D (elem_Slice_Any (select H_choiceExpr_alternatives@pre q_c_130) q_k_132) q_d_131 q_i_133 true q_j_134 q_v_135))))) ; axiom choice-ok
(assert (forall ((q_c_136 Int) (q_d_137 Slice_Int) (q_i_138 Int)) (! (=> (ChoicePre q_c_136 q_d_137 (len_Slice_Any (select H_choiceExpr_alternatives@pre q_c_136)) q_i_138) (D (box_Int 8 q_c_136) q_d_137 q_i_138 false q_i_138 nilAny)) :pattern ((ChoicePre q_c_136 q_d_137 (len_Slice_Any (select H_choiceExpr_alternatives@pre q_c_136)) q_i_138))))) ; axiom choice-fail
(assert (forall ((q_a_139 Int) (q_d_140 Slice_Int) (q_i_141 Int) (q_ok_142 Bool) (q_j_143 Int) (q_v_144 Any)) (! (=> (D (select H_andExpr_expr@pre q_a_139) q_d_140 q_i_141 q_ok_142 q_j_143 q_v_144) (D (box_Int 9 q_a_139) q_d_140 q_i_141 q_ok_142 q_i_141 nilAny)) :pattern ((D (select H_andExpr_expr@pre q_a_139) q_d_140 q_i_141 q_ok_142 q_j_143 q_v_144) (D (box_Int 9 q_a_139) q_d_140 q_i_141 q_ok_142 q_i_141 nilAny))))) ; axiom and-intro
(assert (forall ((q_n_145 Int) (q_d_146 Slice_Int) (q_i_147 Int) (q_j_148 Int) (q_v_149 Any)) (! (=> (D (select H_notExpr_expr@pre q_n_145) q_d_146 q_i_147 true q_j_148 q_v_149) (D (box_Int 10 q_n_145) q_d_146 q_i_147 false q_i_147 nilAny)) :pattern ((D (select H_notExpr_expr@pre q_n_145) q_d_146 q_i_147 true q_j_148 q_v_149))))) ; axiom not-true
(assert (forall ((q_n_150 Int) (q_d_151 Slice_Int) (q_i_152 Int) (q_j_153 Int) (q_v_154 Any)) (! (=> (D (select H_notExpr_expr@pre q_n_150) q_d_151 q_i_152 false q_j_153 q_v_154) (D (box_Int 10 q_n_150) q_d_151 q_i_152 true q_i_152 nilAny)) :pattern ((D (select H_notExpr_expr@pre q_n_150) q_d_151 q_i_152 false q_j_153 q_v_154))))) ; axiom not-false
(assert (forall ((q_e_155 Any) (q_d_156 Slice_Int) (q_k_157 Int) (q_i_158 Int) (q_j_159 Int) (q_a_160 (Array Int Any)) (q_j2_161 Int) (q_v_162 Any)) (! (=> (and (and (RepPre q_e_155 q_d_156 q_k_157 q_i_158 q_j_159 q_a_160) (<= 0 q_k_157)) (D q_e_155 q_d_156 q_j_159 true q_j2_161 q_v_162)) (RepPre q_e_155 q_d_156 (+ q_k_157 1) q_i_158 q_j2_161 (store q_a_160 q_k_157 q_v_162))) :pattern ((RepPre q_e_155 q_d_156 q_k_157 q_i_158 q_j_159 q_a_160) (D q_e_155 q_d_156 q_j_159 true q_j2_161 q_v_162))))) ; axiom rep-step
(assert (forall ((q_z_163 Int) (q_d_164 Slice_Int) (q_k_165 Int) (q_i_166 Int) (q_j_167 Int) (q_vs_168 Slice_Any) (q_v_169 Any)) (! (=> (and (and (and (RepPre (select H_zeroOrMoreExpr_expr@pre q_z_163) q_d_164 q_k_165 q_i_166 q_j_167 (arr_Slice_Any q_vs_168)) (= (off_Slice_Any q_vs_168) 0)) (= (len_Slice_Any q_vs_168) q_k_165)) (D (select H_zeroOrMoreExpr_expr@pre q_z_163) q_d_164 q_j_167 false q_j_167 q_v_169)) (D (box_Int 11 q_z_163) q_d_164 q_i_166 true q_j_167 (box_Slice_Any 7 q_vs_168))) :pattern ((RepPre (select H_zeroOrMoreExpr_expr@pre q_z_163) q_d_164 q_k_165 q_i_166 q_j_167 (arr_Slice_Any q_vs_168)) (D (select H_zeroOrMoreExpr_expr@pre q_z_163) q_d_164 q_j_167 false q_j_167 q_v_169))))) ; axiom star-ok
(assert (forall ((q_o_170 Int) (q_d_171 Slice_Int) (q_k_172 Int) (q_i_173 Int) (q_j_174 Int) (q_vs_175 Slice_Any) (q_v_176 Any)) (! (=> (and (and (and (and (RepPre (select H_oneOrMoreExpr_expr@pre q_o_170) q_d_171 q_k_172 q_i_173 q_j_174 (arr_Slice_Any q_vs_175)) (>= q_k_172 1)) (= (off_Slice_Any q_vs_175) 0)) (= (len_Slice_Any q_vs_175) q_k_172)) (D (select H_oneOrMoreExpr_expr@pre q_o_170) q_d_171 q_j_174 false q_j_174 q_v_176)) (D (box_Int 12 q_o_170) q_d_171 q_i_173 true q_j_174 (box_Slice_Any 7 q_vs_175))) :pattern ((RepPre (select H_oneOrMoreExpr_expr@pre q_o_170) q_d_171 q_k_172 q_i_173 q_j_174 (arr_Slice_Any q_vs_175)) (D (select H_oneOrMoreExpr_expr@pre q_o_170) q_d_171 q_j_174 false q_j_174 q_v_176))))) ; axiom plus-ok
(assert (forall ((q_o_177 Int) (q_d_178 Slice_Int) (q_i_179 Int) (q_v_180 Any)) (! (=> (D (select H_oneOrMoreExpr_expr@pre q_o_177) q_d_178 q_i_179 false q_i_179 q_v_180) (D (box_Int 12 q_o_177) q_d_178 q_i_179 false q_i_179 nilAny)) :pattern ((D (select H_oneOrMoreExpr_expr@pre q_o_177) q_d_178 q_i_179 false q_i_179 q_v_180) (D (box_Int 12 q_o_177) q_d_178 q_i_179 false q_i_179 nilAny))))) ; axiom plus-fail
(assert (forall ((q_z_181 Int) (q_d_182 Slice_Int) (q_i_183 Int) (q_j_184 Int) (q_v_185 Any)) (! (=> (D (select H_zeroOrOneExpr_expr@pre q_z_181) q_d_182 q_i_183 true q_j_184 q_v_185) (D (box_Int 13 q_z_181) q_d_182 q_i_183 true q_j_184 q_v_185)) :pattern ((D (select H_zeroOrOneExpr_expr@pre q_z_181) q_d_182 q_i_183 true q_j_184 q_v_185))))) ; axiom opt-some
(assert (forall ((q_z_186 Int) (q_d_187 Slice_Int) (q_i_188 Int) (q_v_189 Any)) (! (=> (D (select H_zeroOrOneExpr_expr@pre q_z_186) q_d_187 q_i_188 false q_i_188 q_v_189) (D (box_Int 13 q_z_186) q_d_187 q_i_188 true q_i_188 nilAny)) :pattern ((D (select H_zeroOrOneExpr_expr@pre q_z_186) q_d_187 q_i_188 false q_i_188 q_v_189))))) ; axiom opt-none
(assert (forall ((q_l_190 Int) (q_d_191 Slice_Int) (q_i_192 Int) (q_ok_193 Bool) (q_j_194 Int) (q_v_195 Any)) (! (=> (D (select H_labeledExpr_expr@pre q_l_190) q_d_191 q_i_192 q_ok_193 q_j_194 q_v_195) (D (box_Int 14 q_l_190) q_d_191 q_i_192 q_ok_193 q_j_194 q_v_195)) :pattern ((D (select H_labeledExpr_expr@pre q_l_190) q_d_191 q_i_192 q_ok_193 q_j_194 q_v_195))))) ; axiom label-intro
(assert (forall ((q_a_196 Int) (q_d_197 Slice_Int) (q_i_198 Int) (q_j_199 Int) (q_v_200 Any) (q_w_201 Any)) (! (=> (D (select H_actionExpr_expr@pre q_a_196) q_d_197 q_i_198 true q_j_199 q_v_200) (D (box_Int 15 q_a_196) q_d_197 q_i_198 true q_j_199 q_w_201)) :pattern ((D (select H_actionExpr_expr@pre q_a_196) q_d_197 q_i_198 true q_j_199 q_v_200) (D (box_Int 15 q_a_196) q_d_197 q_i_198 true q_j_199 q_w_201))))) ; axiom action-ok
(assert (forall ((q_a_202 Int) (q_d_203 Slice_Int) (q_i_204 Int) (q_v_205 Any)) (! (=> (D (select H_actionExpr_expr@pre q_a_202) q_d_203 q_i_204 false q_i_204 q_v_205) (D (box_Int 15 q_a_202) q_d_203 q_i_204 false q_i_204 nilAny)) :pattern ((D (select H_actionExpr_expr@pre q_a_202) q_d_203 q_i_204 false q_i_204 q_v_205))))) ; axiom action-fail
(assert (forall ((q_a_206 Int) (q_d_207 Slice_Int) (q_i_208 Int) (q_ok_209 Bool)) (! (D (box_Int 16 q_a_206) q_d_207 q_i_208 q_ok_209 q_i_208 nilAny) :pattern ((D (box_Int 16 q_a_206) q_d_207 q_i_208 q_ok_209 q_i_208 nilAny))))) ; axiom andcode
(assert (forall ((q_a_210 Int) (q_d_211 Slice_Int) (q_i_212 Int) (q_ok_213 Bool)) (! (D (box_Int 17 q_a_210) q_d_211 q_i_212 q_ok_213 q_i_212 nilAny) :pattern ((D (box_Int 17 q_a_210) q_d_211 q_i_212 q_ok_213 q_i_212 nilAny))))) ; axiom notcode
(assert (forall ((q_a_214 Int) (q_d_215 Slice_Int) (q_i_216 Int)) (! (D (box_Int 18 q_a_214) q_d_215 q_i_216 true q_i_216 nilAny) :pattern ((D (box_Int 18 q_a_214) q_d_215 q_i_216 true q_i_216 nilAny))))) ; axiom statecode
(assert (forall ((q_t_217 Int) (q_d_218 Slice_Int) (q_i_219 Int) (q_ok_220 Bool) (q_j_221 Int) (q_v_222 Any)) (! (D (box_Int 19 q_t_217) q_d_218 q_i_219 q_ok_220 q_j_221 q_v_222) :pattern ((D (box_Int 19 q_t_217) q_d_218 q_i_219 q_ok_220 q_j_221 q_v_222))))) ; axiom throw-any
(assert (forall ((q_r_223 Int) (q_d_224 Slice_Int) (q_i_225 Int) (q_ok_226 Bool) (q_j_227 Int) (q_v_228 Any)) (! (D (box_Int 20 q_r_223) q_d_224 q_i_225 q_ok_226 q_j_227 q_v_228) :pattern ((D (box_Int 20 q_r_223) q_d_224 q_i_225 q_ok_226 q_j_227 q_v_228))))) ; axiom recovery-any
(assert (forall ((q_rs_229 Slice_Int) (q_l_230 Str) (q_d_231 Slice_Int) (q_i_232 Int)) (! (ThrowPre q_rs_229 (- (len_Slice_Int q_rs_229) 1) q_l_230 q_d_231 q_i_232) :pattern ((ThrowPre q_rs_229 (- (len_Slice_Int q_rs_229) 1) q_l_230 q_d_231 q_i_232))))) ; axiom throw-base
(assert (forall ((q_e_233 Any)) (! (= (IsNode q_e_233) (or (or (or (or (or (or (or (or (or (or (or (or (or (or (or (or (or (and (= (typeOf q_e_233) 15) (not (= (unbox_Int q_e_233) 0))) (and (= (typeOf q_e_233) 16) (not (= (unbox_Int q_e_233) 0)))) (and (= (typeOf q_e_233) 9) (not (= (unbox_Int q_e_233) 0)))) (and (= (typeOf q_e_233) 5) (not (= (unbox_Int q_e_233) 0)))) (and (= (typeOf q_e_233) 4) (not (= (unbox_Int q_e_233) 0)))) (and (= (typeOf q_e_233) 8) (not (= (unbox_Int q_e_233) 0)))) (and (= (typeOf q_e_233) 14) (not (= (unbox_Int q_e_233) 0)))) (and (= (typeOf q_e_233) 3) (not (= (unbox_Int q_e_233) 0)))) (and (= (typeOf q_e_233) 17) (not (= (unbox_Int q_e_233) 0)))) (and (= (typeOf q_e_233) 10) (not (= (unbox_Int q_e_233) 0)))) (and (= (typeOf q_e_233) 12) (not (= (unbox_Int q_e_233) 0)))) (and (= (typeOf q_e_233) 20) (not (= (unbox_Int q_e_233) 0)))) (and (= (typeOf q_e_233) 1) (not (= (unbox_Int q_e_233) 0)))) (and (= (typeOf q_e_233) 6) (not (= (unbox_Int q_e_233) 0)))) (and (= (typeOf q_e_233) 18) (not (= (unbox_Int q_e_233) 0)))) (and (= (typeOf q_e_233) 19) (not (= (unbox_Int q_e_233) 0)))) (and (= (typeOf q_e_233) 11) (not (= (unbox_Int q_e_233) 0)))) (and (= (typeOf q_e_233) 13) (not (= (unbox_Int q_e_233) 0))))) :pattern ((IsNode q_e_233))))) ; axiom node-def
(assert (forall ((q_a_234 Int)) (! (=> (not (= q_a_234 0)) (and (IsNode (select H_actionExpr_expr@pre q_a_234)) (not (= (select H_actionExpr_run@pre q_a_234) 0)))) :pattern ((select H_actionExpr_expr@pre q_a_234))))) ; axiom wf-action
(assert (forall ((q_a_235 Int)) (! (=> (not (= q_a_235 0)) (IsNode (select H_andExpr_expr@pre q_a_235))) :pattern ((select H_andExpr_expr@pre q_a_235))))) ; axiom wf-and
(assert (forall ((q_a_236 Int)) (! (=> (not (= q_a_236 0)) (IsNode (select H_notExpr_expr@pre q_a_236))) :pattern ((select H_notExpr_expr@pre q_a_236))))) ; axiom wf-not
(assert (forall ((q_a_237 Int)) (! (=> (not (= q_a_237 0)) (IsNode (select H_zeroOrOneExpr_expr@pre q_a_237))) :pattern ((select H_zeroOrOneExpr_expr@pre q_a_237))))) ; axiom wf-opt
(assert (forall ((q_a_238 Int)) (! (=> (not (= q_a_238 0)) (IsNode (select H_zeroOrMoreExpr_expr@pre q_a_238))) :pattern ((select H_zeroOrMoreExpr_expr@pre q_a_238))))) ; axiom wf-star
(assert (forall ((q_a_239 Int)) (! (=> (not (= q_a_239 0)) (IsNode (select H_oneOrMoreExpr_expr@pre q_a_239))) :pattern ((select H_oneOrMoreExpr_expr@pre q_a_239))))) ; axiom wf-plus
(assert (forall ((q_a_240 Int)) (! (=> (not (= q_a_240 0)) (IsNode (select H_labeledExpr_expr@pre q_a_240))) :pattern ((select H_labeledExpr_expr@pre q_a_240))))) ; axiom wf-label
(assert (forall ((q_a_241 Int)) (! (=> (not (= q_a_241 0)) (IsNode (select H_recoveryExpr_expr@pre q_a_241))) :pattern ((select H_recoveryExpr_expr@pre q_a_241))))) ; axiom wf-recovery
(assert (forall ((q_a_242 Int)) (! (=> (not (= q_a_242 0)) (IsNode (select H_recoveryExpr_recoverExpr@pre q_a_242))) :pattern ((select H_recoveryExpr_recoverExpr@pre q_a_242))))) ; axiom wf-recovery2
(assert (forall ((q_o_243 Slice_Any) (q_a_244 (Array Int Any))) (! (KeptE q_o_243 0 q_a_244 0) :pattern ((KeptE q_o_243 0 q_a_244 0))))) ; axiom kepte-base
(assert (= (toLower 65533) 65533)) ; axiom tolower-fffd
(assert (forall ((q_d_245 Slice_Int)) (! (and (and (bnd q_d_245 0) (= (lineAt q_d_245 0) (ite (= (decR (mk_Slice_Int (arr_Slice_Int q_d_245) (+ (off_Slice_Int q_d_245) 0) (- (len_Slice_Int q_d_245) 0) (- (cap_Slice_Int q_d_245) 0))) 10) 2 1))) (= (colAt q_d_245 0) (ite (= (decR (mk_Slice_Int (arr_Slice_Int q_d_245) (+ (off_Slice_Int q_d_245) 0) (- (len_Slice_Int q_d_245) 0) (- (cap_Slice_Int q_d_245) 0))) 10) 0 1))) :pattern ((bnd q_d_245 0))))) ; axiom pos-base
(assert (forall ((q_l_246 Int) (q_d_247 Slice_Int) (q_i_248 Int)) (! (LitPre q_l_246 q_d_247 0 q_i_248 q_i_248) :pattern ((LitPre q_l_246 q_d_247 0 q_i_248 q_i_248))))) ; axiom lit-base
(assert (forall ((q_s_249 Int) (q_d_250 Slice_Int) (q_i_251 Int) (q_a_252 (Array Int Any))) (! (SeqPre q_s_249 q_d_250 0 q_i_251 q_i_251 q_a_252) :pattern ((SeqPre q_s_249 q_d_250 0 q_i_251 q_i_251 q_a_252))))) ; axiom seq-base
(assert (forall ((q_c_253 Int) (q_d_254 Slice_Int) (q_i_255 Int)) (! (ChoicePre q_c_253 q_d_254 0 q_i_255) :pattern ((ChoicePre q_c_253 q_d_254 0 q_i_255))))) ; axiom choice-base
(assert (forall ((q_e_256 Any) (q_d_257 Slice_Int) (q_i_258 Int) (q_a_259 (Array Int Any))) (! (RepPre q_e_256 q_d_257 0 q_i_258 q_i_258 q_a_259) :pattern ((RepPre q_e_256 q_d_257 0 q_i_258 q_i_258 q_a_259))))) ; axiom rep-base
(assert (forall ((r Int)) (! (and (<= 0 (len_Slice_Any (select H_seqExpr_exprs@pre r))) (<= (len_Slice_Any (select H_seqExpr_exprs@pre r)) (cap_Slice_Any (select H_seqExpr_exprs@pre r))) (<= 0 (off_Slice_Any (select H_seqExpr_exprs@pre r)))) :pattern ((select H_seqExpr_exprs@pre r)))))
(assert (forall ((r Int)) (! (and (<= 0 (len_Slice_Any (select H_choiceExpr_alternatives@pre r))) (<= (len_Slice_Any (select H_choiceExpr_alternatives@pre r)) (cap_Slice_Any (select H_choiceExpr_alternatives@pre r))) (<= 0 (off_Slice_Any (select H_choiceExpr_alternatives@pre r)))) :pattern ((select H_choiceExpr_alternatives@pre r)))))
(assert (forall ((r Int)) (! (and (<= 0 (len_Slice_Int (select H_charClassMatcher_ranges@pre r))) (<= (len_Slice_Int (select H_charClassMatcher_ranges@pre r)) (cap_Slice_Int (select H_charClassMatcher_ranges@pre r))) (<= 0 (off_Slice_Int (select H_charClassMatcher_ranges@pre r)))) :pattern ((select H_charClassMatcher_ranges@pre r)))))
(assert (forall ((r Int)) (! (and (<= 0 (len_Slice_Int (select H_grammar_rules@pre r))) (<= (len_Slice_Int (select H_grammar_rules@pre r)) (cap_Slice_Int (select H_grammar_rules@pre r))) (<= 0 (off_Slice_Int (select H_grammar_rules@pre r)))) :pattern ((select H_grammar_rules@pre r)))))
(assert (forall ((r Int)) (! (and (<= 0 (len_Slice_Int (select H_charClassMatcher_chars@pre r))) (<= (len_Slice_Int (select H_charClassMatcher_chars@pre r)) (cap_Slice_Int (select H_charClassMatcher_chars@pre r))) (<= 0 (off_Slice_Int (select H_charClassMatcher_chars@pre r)))) :pattern ((select H_charClassMatcher_chars@pre r)))))
(assert (forall ((r Int)) (! (and (<= 0 (len_Slice_Int (select H_charClassMatcher_classes@pre r))) (<= (len_Slice_Int (select H_charClassMatcher_classes@pre r)) (cap_Slice_Int (select H_charClassMatcher_classes@pre r))) (<= 0 (off_Slice_Int (select H_charClassMatcher_classes@pre r)))) :pattern ((select H_charClassMatcher_classes@pre r)))))
(assert (or (= in_p 0) (select Alloc@pre in_p)))
(assert (or (= in_state 0) (select Alloc@pre in_state)))
(assert (and (not (= in_p 0)) (and (and (and (and (not (= (S_current_state (select H_parser_cur@pre in_p)) 0)) (select Alloc@pre (S_current_state (select H_parser_cur@pre in_p)))) (not (= (S_current_globalStore (select H_parser_cur@pre in_p)) 0))) (select Alloc@pre (S_current_globalStore (select H_parser_cur@pre in_p)))) (not (= (S_current_state (select H_parser_cur@pre in_p)) (S_current_globalStore (select H_parser_cur@pre in_p)))))))
(assert (and (and (and (not (= in_state 0)) (select Alloc@pre in_state)) (not (= in_state (S_current_state (select H_parser_cur@pre in_p))))) (not (= in_state (S_current_globalStore (select H_parser_cur@pre in_p))))))
(assert (not (select H_parser_debug@pre in_p)))
(assert (= dom0!14 (select Mdom_storeDict@pre in_state)))
(assert (forall ((k Str)) (! (=> (select visited1!17 k) (select dom0!14 k)) :pattern ((select visited1!17 k)))))
(assert (= visited1!17 dom0!14))
(assert (not (= in_state 0)))
(assert (= Mdom_storeDict!29 (store Mdom_storeDict!15 in_state hv!28)))
(assert (not (or (= in_state (S_current_state (select H_parser_cur@pre in_p))) (not (select Alloc@pre in_state)) false)))
(check-sat)
(get-value (in_p in_state))
