#!/usr/bin/env python3
"""Diagnostic: split the negated goal of a .smt2 query into its conjuncts and test each one."""
import sys, subprocess, tempfile, os

def parse(s, i):
    # returns (node, next index); node = str atom or list
    while s[i].isspace(): i += 1
    if s[i] == '(':
        i += 1
        out = []
        while True:
            while s[i].isspace(): i += 1
            if s[i] == ')':
                return out, i + 1
            n, i = parse(s, i)
            out.append(n)
    j = i
    while not s[j].isspace() and s[j] not in '()': j += 1
    return s[i:j], j

def show(n):
    if isinstance(n, str): return n
    return '(' + ' '.join(show(x) for x in n) + ')'

def conj(n):
    if isinstance(n, list) and n and n[0] == 'and':
        r = []
        for x in n[1:]: r += conj(x)
        return r
    if isinstance(n, list) and len(n) == 3 and n[0] == '=>':
        return [['=>', n[1], c] for c in conj(n[2])]
    return [n]

f = sys.argv[1]
lines = open(f).read().split('\n')
idx = max(i for i, l in enumerate(lines) if l.startswith('(assert (not '))
goal, _ = parse(lines[idx], 0)
g = goal[1][1]
cs = conj(g)
pre = lines[:idx]
solver = sys.argv[2] if len(sys.argv) > 2 else 'z3-new'
for k, c in enumerate(cs):
    if c == 'true': continue
    with tempfile.NamedTemporaryFile('w', suffix='.smt2', delete=False) as t:
        t.write('\n'.join(pre) + '\n(assert (not ' + show(c) + '))\n(check-sat)\n')
    r = subprocess.run(([solver, '--tlimit=15000', t.name] if solver=='cvc5' else [solver, '-T:10', t.name]), capture_output=True, text=True).stdout
    res = [l for l in r.split('\n') if l in ('sat', 'unsat', 'unknown', 'timeout')]
    os.unlink(t.name)
    print(k, res[:1], show(c)[:300])
