package main

// Obligations of C04 that are not Hoare triples over one function body but finite, exhaustively
// decided facts about the real code, plus one lemma in the theory of strings:
//   inst[<variant>]:typecheck       every one of the 32 template instantiations (5 booleans) type-checks
//   inst[<variant>n1]:same-code     -nolint changes comments only
//   classes:resolve[<name>]         every Unicode class name the front-end accepts resolves in the tables
//                                   of the toolchain that builds the generated parser here
//   lemma:funcName-injective        the method-name scheme "on"+rule+itoa(index) is injective
//                                   (z3 string theory; fails: known finding F3)

import (
	"encoding/json"
	"fmt"
	"go/ast"
	"go/parser"
	"go/scanner"
	"go/token"
	"os"
	"os/exec"
	"path/filepath"
	"sort"
	"strconv"
	"strings"
	"unicode"
)

// extraInst: what the instantiation harness observed when it ran the REAL builder on its probe grammars (finite,
// exhaustive over the 48 probe builds; a failure names the probe variant = a concrete failing input):
//   inst[<variant>]:builds              BuildParser + imports.Process return code, no error, no panic   (C04, C13)
//   inst[<variant>]:rebuild-identical   a second build of the same grammar and options in the same process gives the
//                                       same bytes                                                      (C19)
func (d *Driver) extraInst(rtDir string) {
	read := func(name string) map[string]string {
		m := map[string]string{}
		b, err := os.ReadFile(filepath.Join(rtDir, name))
		if err != nil {
			return m
		}
		for _, l := range strings.Split(string(b), "\n") {
			if i := strings.Index(l, "\t"); i > 0 {
				m[l[:i]] = l[i+1:]
			}
		}
		return m
	}
	vb, err := os.ReadFile(filepath.Join(rtDir, "VARIANTS.txt"))
	if err != nil {
		return
	}
	fails, rebuilt := read("FAILURES.txt"), read("REBUILD.txt")
	for _, v := range strings.Fields(string(vb)) {
		for _, ob := range []struct {
			name, clause string
			tags         []string
			bad          map[string]string
		}{
			{"builds", "the real builder produces a parser for the probe grammar under these flags (no error, no panic)", []string{"C04", "C13"}, fails},
			{"rebuild-identical", "a second build of the same grammar and options in the same process yields the same bytes", []string{"C19"}, rebuilt},
		} {
			if ob.name == "rebuild-identical" && fails[v] != "" {
				continue
			}
			q := &Query{Obligation: "inst[" + v + "]:" + ob.name, Func: "(instantiation)", Kind: "exhaustive", Tags: ob.tags, Path: 1, Clause: ob.clause, Where: "probe variant " + v}
			if msg, bad := ob.bad[v]; bad {
				q.Result, q.Solver, q.Model = "sat", "exhaustive", "probe grammar of variant "+v+" (o=optimize-parser b=optimize-basic-latin l=left-recursive grammar with -support-left-recursion s=state blocks x1=-support-left-recursion without left recursion n1=-nolint): "+msg
			} else {
				q.Result, q.Solver = "unsat", "exhaustive"
			}
			d.queries = append(d.queries, q)
		}
	}
}

func (d *Driver) extraC04(loader *Loader, rtDir string) {
	add := func(name, kind, clause string, ok bool, detail string) {
		q := &Query{Obligation: name, Func: "(instantiation)", Kind: kind, Tags: []string{"C04"}, Path: 1, Clause: clause, Where: detail}
		if ok {
			q.Result, q.Solver = "unsat", "exhaustive"
		} else {
			q.Result, q.Solver, q.Model = "sat", "exhaustive", detail
		}
		d.queries = append(d.queries, q)
	}
	// 1. all 32 instantiations type-check; nolint ones have the same code
	for _, v := range rtVariantsAll {
		for _, suffix := range []string{"", "n1"} {
			name := v + suffix
			pkg, err := loader.LoadDir(filepath.Join(rtDir, name), "verif/rt4/"+name, "rt["+name+"]", nil)
			msg := ""
			if err != nil {
				msg = err.Error()
			}
			add("inst["+name+"]:typecheck", "typecheck", "the instantiated template type-checks", err == nil, msg)
			if suffix == "n1" && err == nil {
				plain, err2 := loader.LoadDir(filepath.Join(rtDir, v), "verif/rt4p/"+v, "rt["+v+"]", nil)
				same := err2 == nil && codeOnly(plain) == codeOnly(pkg)
				add("inst["+name+"]:same-code", "typecheck", "-nolint changes comments only", same, "token streams differ")
			}
		}
	}
	// 1b. -support-left-recursion given for a grammar without left recursion: compiles, and is the l0 code
	for _, v := range rtVariantsAll {
		if v[5] != '0' {
			continue
		}
		name := v + "x1"
		pkg, err := loader.LoadDir(filepath.Join(rtDir, name), "verif/rt4/"+name, "rt["+name+"]", nil)
		msg := ""
		if err != nil {
			msg = err.Error()
		}
		add("inst["+name+"]:typecheck", "typecheck", "the parser generated with -support-left-recursion from a grammar without left recursion type-checks", err == nil, msg)
		if err == nil {
			plain, err2 := loader.LoadDir(filepath.Join(rtDir, v), "verif/rt4q/"+v, "rt["+v+"]", nil)
			same := err2 == nil && codeOnly(plain) == codeOnly(pkg)
			add("inst["+name+"]:same-code", "typecheck", "-support-left-recursion changes nothing when the grammar has no left recursion", same, "token streams differ")
		}
	}
	// 2. accepted Unicode classes resolve
	classes, err := acceptedClasses(filepath.Join(d.Repo, "unicode_classes.go"))
	if err != nil {
		add("classes:resolve", "exhaustive", "class list readable", false, err.Error())
	}
	for _, c := range classes {
		_, a := unicode.Categories[c]
		_, b := unicode.Properties[c]
		_, s := unicode.Scripts[c]
		add("classes:resolve", "exhaustive", "every Unicode class the front-end accepts resolves (rangeTable cannot panic)", a || b || s, "class "+strconv.Quote(c)+" is accepted by the front-end but is in none of unicode.Categories/Properties/Scripts")
	}
	// 3. method-name lemma
	d.funcNameLemma()
}

func codeOnly(p *Pkg) string {
	// token stream of the source files without comments
	var b strings.Builder
	for _, f := range p.Files {
		name := p.Fset.Position(f.Pos()).Filename
		src, err := os.ReadFile(name)
		if err != nil {
			return "unreadable:" + name
		}
		var sc scanner.Scanner
		fs := token.NewFileSet()
		sc.Init(fs.AddFile(name, fs.Base(), len(src)), src, nil, 0) // comments are skipped
		for {
			_, tok, lit := sc.Scan()
			if tok == token.EOF {
				break
			}
			if tok == token.SEMICOLON && lit == "\n" {
				b.WriteString("; ")
				continue
			}
			if lit != "" {
				b.WriteString(lit)
			} else {
				b.WriteString(tok.String())
			}
			b.WriteByte(' ')
		}
	}
	return b.String()
}

// acceptedClasses: keys of the unicodeClasses map literal of the front-end plus the single-letter classes.
func acceptedClasses(file string) ([]string, error) {
	fset := token.NewFileSet()
	f, err := parser.ParseFile(fset, file, nil, 0)
	if err != nil {
		return nil, err
	}
	var out []string
	ast.Inspect(f, func(n ast.Node) bool {
		if kv, ok := n.(*ast.KeyValueExpr); ok {
			if bl, ok := kv.Key.(*ast.BasicLit); ok && bl.Kind == token.STRING {
				if s, err := strconv.Unquote(bl.Value); err == nil {
					out = append(out, s)
				}
			}
		}
		return true
	})
	if len(out) == 0 {
		return nil, fmt.Errorf("no class names found in %s", file)
	}
	out = append(out, "L", "M", "N", "C", "P", "Z", "S")
	sort.Strings(out)
	return out, nil
}

const funcNameLemmaSMT = `; lemma funcName-injective (C04): builder.funcName is proved (govc) to return
;   "on" + ruleName + itoa(ix);  two code blocks get distinct method names iff this map is injective
;   on (identifier, positive index). A model is a pair of (rule, index) with the same method name.
(set-option :produce-models true)
(set-logic ALL)
(declare-const r1 String)
(declare-const r2 String)
(declare-const i1 Int)
(declare-const i2 Int)
(define-fun ident ((s String)) Bool
  (str.in_re s (re.++ (re.union (re.range "a" "z") (re.range "A" "Z") (str.to_re "_"))
                      (re.* (re.union (re.range "a" "z") (re.range "A" "Z") (re.range "0" "9") (str.to_re "_"))))))
(assert (ident r1))
(assert (ident r2))
(assert (> i1 0))
(assert (> i2 0))
(assert (< (str.len r1) 4))
(assert (< (str.len r2) 4))
(assert (< i1 100))
(assert (< i2 100))
(assert (= (str.++ "on" r1 (str.from_int i1)) (str.++ "on" r2 (str.from_int i2))))
(assert (not (and (= r1 r2) (= i1 i2))))
(check-sat)
(get-value (r1 i1 r2 i2))
`

func (d *Driver) funcNameLemma() {
	file := filepath.Join(d.Work, "lemma_funcName.smt2")
	os.WriteFile(file, []byte(funcNameLemmaSMT), 0o644)
	q := &Query{Obligation: "lemma:funcName-injective", Func: "builder.funcName", Kind: "lemma", Tags: []string{"C04"}, Path: 1,
		Clause: `"on"+r1+itoa(i1) == "on"+r2+itoa(i2) ==> r1 == r2 && i1 == i2   (identifiers r, indices > 0)`, SMT: funcNameLemmaSMT}
	res, out := runSolver(solvers[0], file, 20)
	q.Result, q.Solver, q.Model = res, solvers[0].name, out
	// known finding F3 excuses exactly this lemma while its witness reproduces
	for _, k := range d.known {
		if k.Status == "known" && k.Obligation == q.Obligation && d.witnessStillFails(k) {
			q.KnownID = k.ID
			q.Model = "excused by known finding " + k.ID + " (solver said " + res + "): " + strings.TrimSpace(out)
			q.Result = "unsat"
			q.Solver = "known-finding"
			d.knownHit[k.ID] = true
		}
	}
	d.queries = append(d.queries, q)
}

// ---------------------------------------------------------------------------------------------
// BOUNDED stand-in for the graph functions of the left-recursion analysis (C07, C08, C19).
// StronglyConnectedComponents, FindCyclesInSCC (recursive closures: outside govc's subset) and, through
// them, findLeader's "on every cycle" property are checked on EVERY directed graph with at most 4
// vertices against a transitive-closure oracle, by an in-package test injected with `go test -overlay`
// (/verif/bounded/scc_bounded_test.go.txt; nothing is written to the repository). These obligations are
// labelled bounded, are never counted as proved, and fail with the concrete graph.

var boundedSCCTags = map[string][]string{
	"scc:partition": {"C07", "C19"},
	"scc:components-are-the-strongly-connected-classes": {"C07"},
	"scc:assumed-contract":                 {"C07", "C13"},
	"scc:deterministic":                    {"C19"},
	"cycles:no-error":                      {"C07", "C13"},
	"cycles:are-closed-walks-in-scc":       {"C07", "C08"},
	"cycles:cover-every-cycle-vertex-set":  {"C07", "C08"},
	"leader:on-every-cycle":                {"C07", "C08"},
	"leader:least-candidate":               {"C19", "C08"},
	"leader:error-iff-none":                {"C07", "C08"},
	"leader:deterministic":                 {"C19"},
}

const boundedSCCBound = "all directed graphs with <= 4 vertices (66066 graphs, 3 vertex orders, repeated calls)"

func (d *Driver) wantsBoundedSCC() bool {
	if d.OnlyFunc != "" || d.OnlyVariant != "" || !strings.Contains(","+d.Targets+",", ",builder,") {
		return false
	}
	if d.Prop == "" {
		return true
	}
	for _, tags := range boundedSCCTags {
		for _, t := range tags {
			if t == d.Prop {
				return true
			}
		}
	}
	return false
}

func (d *Driver) extraBoundedSCC() {
	src := filepath.Join(d.Verif, "bounded", "scc_bounded_test.go.txt")
	ov := filepath.Join(d.Work, "scc_overlay.json")
	b, _ := json.Marshal(map[string]any{"Replace": map[string]string{filepath.Join(d.Repo, "builder", "zz_verif_bounded_scc_test.go"): src}})
	os.WriteFile(ov, b, 0o644)
	cmd := exec.Command("go1.26", "test", "-overlay", ov, "-vet=off", "-count=1", "-timeout", "600s", "-v", "-run", "TestVerifBoundedSCC$", "./builder")
	cmd.Dir = d.Repo
	cmd.Env = append(os.Environ(), "GOFLAGS=-mod=mod", "GOPROXY=off", "GOSUMDB=off", "GOTOOLCHAIN=local")
	out, err := cmd.CombinedOutput()
	got := map[string]string{}
	done := false
	for _, l := range strings.Split(string(out), "\n") {
		if strings.HasPrefix(l, "BOUNDED-DONE") {
			done = true
		}
		f := strings.SplitN(l, " ", 4)
		if len(f) >= 3 && f[0] == "BOUNDED" {
			rest := ""
			if len(f) == 4 {
				rest = f[3]
			}
			got[f[1]] = f[2] + " " + rest
		}
	}
	var names []string
	for n := range boundedSCCTags {
		names = append(names, n)
	}
	sort.Strings(names)
	for _, n := range names {
		q := &Query{Obligation: "bounded:" + n, Func: "builder.StronglyConnectedComponents/FindCyclesInSCC/findLeader", Kind: "bounded", Tags: boundedSCCTags[n], Path: 1,
			Clause: "BOUNDED (" + boundedSCCBound + "): " + n, Solver: "bounded"}
		r, ok := got[n]
		switch {
		case ok && done && strings.HasPrefix(r, "ok "):
			q.Result = "unsat"
			q.Where = strings.TrimSpace(strings.TrimPrefix(r, "ok "))
		case ok && strings.HasPrefix(r, "FAIL "):
			q.Result = "sat"
			q.Model = strings.TrimPrefix(r, "FAIL ")
		default:
			q.Result = "unknown"
			q.Solver = "bounded-harness-error"
			tail := string(out)
			if len(tail) > 1500 {
				tail = tail[len(tail)-1500:]
			}
			q.Model = fmt.Sprintf("the bounded harness did not complete (%v): %s", err, tail)
		}
		if d.Prop == "" || containsStr(q.Tags, d.Prop) {
			d.queries = append(d.queries, q)
		}
	}
}

func containsStr(l []string, s string) bool {
	for _, x := range l {
		if x == s {
			return true
		}
	}
	return false
}
