package main

import (
	"fmt"
	"strings"
	"unicode"
)

// unicodeFacts returns ground axioms about unicode.ToLower/ToUpper/IsLower computed from the
// standard library of the toolchain govc is built with (the same one that builds pigeon here):
// exact values on Basic Latin, and the complete list of non-ASCII runes whose case mapping lands
// in Basic Latin. They cannot drift from the tables in use.
func unicodeFacts(used map[string]bool) []string {
	var out []string
	if used["toLower"] {
		for r := rune(0); r < 128; r++ {
			out = append(out, fmt.Sprintf("(assert (= (toLower %d) %d))", r, unicode.ToLower(r)))
		}
		var into []string
		for r := rune(128); r <= unicode.MaxRune; r++ {
			if l := unicode.ToLower(r); l < 128 {
				into = append(into, fmt.Sprintf("(= r %d)", r))
				out = append(out, fmt.Sprintf("(assert (= (toLower %d) %d))", r, l))
			}
		}
		out = append(out, "(assert (forall ((r Int)) (! (=> (and (>= r 128) (< (toLower r) 128) (>= (toLower r) 0)) (or "+strings.Join(into, " ")+" false)) :pattern ((toLower r)))))")
		out = append(out, "(assert (forall ((r Int)) (! (=> (and (>= r 0) (<= r 1114111)) (and (>= (toLower r) 0) (<= (toLower r) 1114111))) :pattern ((toLower r)))))")
	}
	if used["toUpper"] {
		for r := rune(0); r < 128; r++ {
			out = append(out, fmt.Sprintf("(assert (= (toUpper %d) %d))", r, unicode.ToUpper(r)))
		}
		out = append(out, "(assert (forall ((r Int)) (! (=> (and (>= r 0) (<= r 1114111)) (and (>= (toUpper r) 0) (<= (toUpper r) 1114111))) :pattern ((toUpper r)))))")
	}
	if used["isLower"] && used["toLower"] && used["toUpper"] {
		// derived Basic Latin facts, re-validated against the real tables before being emitted
		ok := true
		for r := rune(0); r < 128; r++ {
			if unicode.IsLower(r) && unicode.ToLower(r) != r {
				ok = false
			}
			if !unicode.IsLower(r) && unicode.ToUpper(r) != r {
				ok = false
			}
			if unicode.ToLower(r) >= 128 || unicode.ToUpper(r) >= 128 {
				ok = false
			}
		}
		if ok {
			out = append(out, "(assert (forall ((r Int)) (! (=> (and (>= r 0) (< r 128) (isLower r)) (= (toLower r) r)) :pattern ((isLower r)))))")
			out = append(out, "(assert (forall ((r Int)) (! (=> (and (>= r 0) (< r 128) (not (isLower r))) (= (toUpper r) r)) :pattern ((isLower r)))))")
			out = append(out, "(assert (forall ((r Int)) (! (=> (and (>= r 0) (< r 128)) (and (>= (toLower r) 0) (< (toLower r) 128))) :pattern ((toLower r)))))")
			out = append(out, "(assert (forall ((r Int)) (! (=> (and (>= r 0) (< r 128)) (and (>= (toUpper r) 0) (< (toUpper r) 128))) :pattern ((toUpper r)))))")
		}
	}
	if used["isLower"] {
		for r := rune(0); r < 128; r++ {
			out = append(out, fmt.Sprintf("(assert (= (isLower %d) %v))", r, unicode.IsLower(r)))
		}
	}
	return out
}
