package main

import (
	"fmt"
	"os"
	"strings"
)

// F15 (C09): -optimize-grammar removes a rule that is still referenced. The optimize visitor has no case for
// recovery expressions, so a rule reference that is a direct child of `e //{label} Ref` is never inlined; but
// when another reference to the same leaf rule IS inlined in the same rule, the bookkeeping releases the leaf
// and it is deleted:  S <- L "b" / ("q" %{e} //{e} L); L <- "z".  Without the flag "qz" is accepted; with it
// the parser reports "undefined rule: L". Defect present iff the optimized parser rejects "qz".
func main() {
	_, err := Parse("", []byte("qz"))
	if err != nil && strings.Contains(err.Error(), "undefined rule") {
		fmt.Println("defect present: optimized parser:", err)
		os.Exit(0)
	}
	if err == nil {
		fmt.Println("defect gone: \"qz\" accepted by the optimized parser")
		os.Exit(1)
	}
	fmt.Println("unexpected:", err)
	os.Exit(3)
}
