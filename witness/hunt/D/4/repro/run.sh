#!/bin/bash
# usage: run.sh <pigeon source tree>
# exits 0 when the violation is observed: with -optimize-grammar pigeon neither
# writes a parser nor prints a diagnostic for a 28-line valid grammar; it grows
# until it is killed by the time limit ($LIMIT s) or by the memory limit ($MEMKB,
# Go "fatal error: ... out of memory" with goroutine trace). Without the flag the
# same grammar is generated in a few ms. Exits 1 otherwise.
set -u
export GOFLAGS=-mod=mod GOPROXY=off GOSUMDB=off GOTOOLCHAIN=local
GO=${GO:-go1.26}
LIMIT=${LIMIT:-60}
MEMKB=${MEMKB:-4000000}
src=$(cd "$1" && pwd)
here=$(cd "$(dirname "$0")" && pwd)
tmp=$(mktemp -d)
trap 'rm -rf "$tmp"' EXIT
(cd "$src" && $GO build -o "$tmp/pigeon" .) || { echo "cannot build pigeon"; exit 1; }

for n in 8 10 12 14; do
	python3 "$here/gen_grammar.py" $n > "$tmp/g$n.peg"
	s=$(date +%s.%N)
	"$tmp/pigeon" -optimize-grammar -o "$tmp/out$n.go" "$tmp/g$n.peg"; rc=$?
	e=$(date +%s.%N)
	echo "N=$n: exit $rc, $(echo "$e - $s" | bc) s, generated parser $(stat -c %s "$tmp/out$n.go") bytes"
	rm -f "$tmp/out$n.go"
done

python3 "$here/gen_grammar.py" 26 > "$tmp/g.peg"
"$tmp/pigeon" -o "$tmp/plain.go" "$tmp/g.peg"; rc_plain=$?
echo "N=26 without -optimize-grammar: exit $rc_plain, parser $(stat -c %s "$tmp/plain.go") bytes"
( ulimit -v $MEMKB; timeout $LIMIT "$tmp/pigeon" -optimize-grammar -o "$tmp/opt.go" "$tmp/g.peg" > /dev/null 2> "$tmp/stderr.txt" ); rc=$?
echo "N=26 with -optimize-grammar (limits: $LIMIT s, $MEMKB KB): exit $rc"
head -3 "$tmp/stderr.txt" | cut -c1-160
if [ $rc_plain -eq 0 ] && { [ $rc -eq 124 ] || grep -q -E 'out of memory|cannot allocate' "$tmp/stderr.txt"; }; then
	echo "VIOLATION: -optimize-grammar hangs / dies of memory exhaustion on a valid grammar"
	exit 0
fi
exit 1
