package main

import (
	"fmt"
	"os"
	"os/exec"
	"runtime/debug"
	"strings"
)

// F13 (C07): a rule reaches itself at the same input position through a throw whose handler (a recovery
// expression in ANOTHER rule) leads back to it:  Body -> Thrower -> %{e} -> (Start's handler) Fix -> Body.
// ThrowExpr.InitialNames reports no names, so the left-recursion analysis sees no cycle and the grammar
// is accepted without -support-left-recursion; on input "b" the parser recurses without bound.
// Defect present iff the generated parser overflows the stack (run in a child process).
func main() {
	if len(os.Args) > 1 && os.Args[1] == "child" {
		debug.SetMaxStack(16 << 20)
		_, err := Parse("", []byte("b"))
		fmt.Println("returned:", err)
		return
	}
	out, _ := exec.Command(os.Args[0], "child").CombinedOutput()
	if strings.Contains(string(out), "stack overflow") || strings.Contains(string(out), "stack exceeds") {
		fmt.Println("defect present: grammar accepted without -support-left-recursion and input \"b\" recurses without bound (stack overflow)")
		os.Exit(0)
	}
	fmt.Println("defect gone:", strings.TrimSpace(string(out)))
	os.Exit(1)
}
