package main

// Per-function verification: set-up, body execution, postconditions, query assembly.

import (
	"fmt"
	"go/ast"
	"go/token"
	"go/types"
	"sort"
	"strings"
)

// extra FnCtx fields are declared here to keep state.go small.
type fnExtra struct{}

func (fx *FnCtx) emit(st *State, name, kind string, tags []string, goal, clause, where string) {
	if goal == "true" {
		return
	}
	// a conjunctive goal is split into one query per conjunct (smaller, more stable queries);
	// the obligation is discharged iff all of them are
	if parts := splitConj(goal); len(parts) > 1 {
		for _, g := range parts {
			fx.emit(st, name, kind, tags, g, clause, where)
		}
		return
	}
	fx.nPaths++
	q := &Query{Obligation: fx.oblPrefix() + ":" + name, Func: fx.key, Kind: kind, Tags: tags, Path: fx.nPaths, Clause: clause, Where: where}
	facts := append([]string(nil), st.facts...)
	if len(st.guards) > 0 {
		facts = append(facts, st.guards...)
	}
	q.pending = &pendingQuery{facts: facts, goal: goal, trace: append([]string(nil), st.trace...)}
	fx.queries = append(fx.queries, q)
}

type pendingQuery struct {
	facts []string
	goal  string
	trace []string
}

func (fx *FnCtx) oblPrefix() string {
	return fx.pkg.Name + ":" + fx.key
}

// numberLoops assigns ordinals to for/range statements in source order (function literals included).
func numberLoops(body ast.Node) map[ast.Stmt]int {
	m := map[ast.Stmt]int{}
	n := 0
	ast.Inspect(body, func(nd ast.Node) bool {
		switch x := nd.(type) {
		case *ast.ForStmt:
			n++
			m[x] = n
		case *ast.RangeStmt:
			n++
			m[x] = n
		}
		return true
	})
	return m
}

func hasRecoverCall(body ast.Node, info *types.Info) bool {
	found := false
	ast.Inspect(body, func(nd ast.Node) bool {
		if c, ok := nd.(*ast.CallExpr); ok {
			if id, ok := c.Fun.(*ast.Ident); ok && id.Name == "recover" {
				if _, ok := info.Uses[id].(*types.Builtin); ok {
					found = true
				}
			}
		}
		return true
	})
	return found
}

// VerifyFunc generates all queries for one function under contract.
func VerifyFunc(pkg *Pkg, cs *Contracts, key string) (fx *FnCtx, err error) {
	decl := pkg.Funcs[key]
	fc := cs.Funcs[key]
	// "<Func>$lit": the function literal returned by <Func> (an option constructor's closure). It is verified as
	// a function whose parameters are the captured parameters of <Func> followed by its own.
	var litSig *types.Signature
	var capParams []*types.Var
	var capIdents []*ast.Ident
	if strings.HasSuffix(key, "$lit") {
		if outer := pkg.Funcs[strings.TrimSuffix(key, "$lit")]; outer != nil && outer.Body != nil {
			var lit *ast.FuncLit
			ast.Inspect(outer.Body, func(n ast.Node) bool {
				if r, ok := n.(*ast.ReturnStmt); ok && lit == nil && len(r.Results) == 1 {
					if l, ok := r.Results[0].(*ast.FuncLit); ok {
						lit = l
					}
				}
				return lit == nil
			})
			if lit != nil {
				if sg, ok := pkg.Info.TypeOf(lit).(*types.Signature); ok {
					litSig = sg
					if decl == nil {
						decl = &ast.FuncDecl{Name: ast.NewIdent(key), Type: lit.Type, Body: lit.Body}
					}
					if of, ok := pkg.Info.Defs[outer.Name].(*types.Func); ok {
						osig := of.Type().(*types.Signature)
						for i := 0; i < osig.Params().Len(); i++ {
							capParams = append(capParams, osig.Params().At(i))
						}
					}
					for _, f := range outer.Type.Params.List {
						if len(f.Names) == 0 {
							capIdents = append(capIdents, nil)
						}
						capIdents = append(capIdents, f.Names...)
					}
				}
			}
		}
	}
	fx = &FnCtx{pkg: pkg, cs: cs, sc: NewSortCtx(), fc: fc, decl: decl, key: key, hiddenNames: map[string]bool{},
		heapSort: map[string]string{}, heapInit: map[string]string{}, usedAxioms: map[string]bool{}, usedSpecs: map[string]bool{}}
	defer func() {
		if r := recover(); r != nil {
			if u, ok := r.(unsupported); ok {
				err = fmt.Errorf("%s: %s", key, u.msg)
				return
			}
			panic(r)
		}
	}()
	// local closures (closures.go): "<Func>$<var>" is verified with the read-only captured locals as leading parameters
	if cl := pkg.Closures[key]; cl != nil {
		if sg, ok := pkg.Info.TypeOf(cl.Lit).(*types.Signature); ok {
			litSig = sg
			fx.setupClosures(cl.Outer, cl.OuterKey)
			for _, v := range fx.closureRO[key] {
				capParams = append(capParams, v)
				capIdents = append(capIdents, fx.defIdent(cl.Outer, v))
			}
		}
	} else if decl != nil {
		fx.setupClosures(decl, key)
	}
	fx.sc.mapName = map[*types.Map]string{}
	for _, n := range pkg.Types.Scope().Names() {
		if tn, ok := pkg.Types.Scope().Lookup(n).(*types.TypeName); ok {
			if m, ok := tn.Type().Underlying().(*types.Map); ok {
				if _, isNamed := tn.Type().(*types.Named); isNamed {
					fx.sc.mapName[m] = tn.Name()
				}
			}
		}
	}
	if decl == nil {
		return fx, fmt.Errorf("%s: function not found in %s", key, pkg.Name)
	}
	if decl.Body == nil {
		return fx, fmt.Errorf("%s: no body", key)
	}
	fx.stmtAssertHit = map[*Clause]bool{}
	fx.loopOrd = numberLoops(decl.Body)
	fx.localTypes = map[string]types.Type{}
	ast.Inspect(decl.Body, func(n ast.Node) bool {
		if id, ok := n.(*ast.Ident); ok {
			if o, ok := pkg.Info.Defs[id].(*types.Var); ok && o != nil {
				if _, dup := fx.localTypes[o.Name()]; !dup {
					fx.localTypes[o.Name()] = o.Type()
				}
			}
		}
		return true
	})
	fx.hasRecover = hasRecoverCall(decl.Body, pkg.Info)
	st := &State{vars: map[types.Object]Val{}, named: map[string]Val{}, heap: map[string]string{}}
	var sig *types.Signature
	if litSig != nil {
		sig = litSig
	} else {
		fn := pkg.Info.Defs[decl.Name].(*types.Func)
		sig = fn.Type().(*types.Signature)
	}
	// bind parameters: contract header names must match positions
	var params []*types.Var
	params = append(params, capParams...)
	if sig.Recv() != nil {
		params = append(params, sig.Recv())
	}
	for i := 0; i < sig.Params().Len(); i++ {
		params = append(params, sig.Params().At(i))
	}
	if len(fc.Params) != len(params) {
		return fx, fmt.Errorf("%s: contract header has %d params, function has %d", key, len(fc.Params), len(params))
	}
	// receiver/param objects as declared in the AST (names may be _ or absent)
	var declParams []*ast.Ident
	declParams = append(declParams, capIdents...)
	if decl.Recv != nil {
		for _, f := range decl.Recv.List {
			if len(f.Names) == 0 {
				declParams = append(declParams, nil)
			}
			declParams = append(declParams, f.Names...)
		}
	}
	for _, f := range decl.Type.Params.List {
		if len(f.Names) == 0 {
			declParams = append(declParams, nil)
		}
		declParams = append(declParams, f.Names...)
	}
	for i, p := range params {
		s := fx.sc.SortOf(p.Type())
		name := fc.Params[i].Name
		c := "in_" + sanitize(name)
		fx.sc.consts = append(fx.sc.consts, fmt.Sprintf("(declare-const %s %s)", c, s))
		v := Val{c, s, p.Type()}
		if r := fx.rangeFact(v); r != "" {
			st.facts = append(st.facts, r)
		}
		if strings.HasPrefix(s, "Slice_") {
			st.facts = append(st.facts, fx.sliceWF(v))
		}
		if i < len(declParams) && declParams[i] != nil {
			if o, ok := pkg.Info.Defs[declParams[i]].(*types.Var); ok {
				st.vars[o] = v
				if o.Name() == name {
					st.named[o.Name()] = v
				} else {
					// the contract renames this parameter: its Go name is not visible to specs
					// (so that a package-level object of that name can be referred to)
					fx.hiddenNames[o.Name()] = true
				}
			}
		}
		st.named[name] = v
		// reference-typed parameters denote objects that exist at entry (or nil)
		switch p.Type().Underlying().(type) {
		case *types.Pointer, *types.Map:
			st.facts = append(st.facts, "(or (= "+c+" 0) (select "+fx.heapInitConst(allocHeap, allocSort)+" "+c+"))")
		}
		fx.modelVars = append(fx.modelVars, c)
	}
	// results
	for i := 0; i < sig.Results().Len(); i++ {
		rv := sig.Results().At(i)
		name := rv.Name()
		if i < len(fc.Results) && fc.Results[i].Name != "" {
			name = fc.Results[i].Name
		}
		if name == "" || name == "_" {
			name = fmt.Sprintf("result%d", i)
		}
		fx.resultNames = append(fx.resultNames, name)
		var obj *types.Var
		if rv.Name() != "" && rv.Name() != "_" {
			obj = rv
		} else {
			obj = types.NewVar(token.NoPos, pkg.Types, name, rv.Type())
		}
		fx.results = append(fx.results, obj)
		z := Val{fx.sc.Zero(rv.Type()), fx.sc.SortOf(rv.Type()), rv.Type()}
		st.vars[obj] = z
		st.named[name] = z
	}
	// entry environment
	entryNamed := copyNamed(st.named)
	fx.entry = &Env{named: entryNamed, heap: map[string]string{}}
	fx.entry.old = fx.entry
	// requires
	env := fx.env(st)
	for _, r := range fc.Requires {
		st.assume(fx.specBool(env, r.Expr))
	}
	// own modifies evaluated at entry
	fx.modsEntry = fx.modTargets(fx.entry, fc.Modifies)
	// vacuity probe: requires must be satisfiable
	fx.emitCover(st, "requires-sat", "function precondition must be satisfiable")
	// "<Func>$lit": the closure an option constructor returns is a VALUE that callers may share between parses and
	// goroutines; it must not assign the variables it captured (the constructor's parameters): such a write is a store
	// to state shared by every application of the option (C18), whatever the closure's own frame says
	if strings.HasSuffix(key, "$lit") && len(capParams) > 0 {
		capSet := map[*types.Var]bool{}
		for _, v := range capParams {
			capSet[v] = true
		}
		mark := func(e ast.Expr, at ast.Node) {
			if id, ok := ast.Unparen(e).(*ast.Ident); ok {
				if v, ok := pkg.Info.Uses[id].(*types.Var); ok && capSet[v] {
					tags := append(append([]string(nil), fc.FrameTag...), "C18")
					fx.emit(st, "frame[captured "+v.Name()+"]", "frame", tags, "false", "the returned closure assigns the captured variable "+v.Name()+": state shared by every application of the option value", fx.pos(at))
				}
			}
		}
		ast.Inspect(decl.Body, func(n ast.Node) bool {
			switch x := n.(type) {
			case *ast.AssignStmt:
				for _, l := range x.Lhs {
					mark(l, x)
				}
			case *ast.IncDecStmt:
				mark(x.X, x)
			case *ast.UnaryExpr:
				if x.Op == token.AND {
					mark(x.X, x)
				}
			}
			return true
		})
	}

	outs := fx.execBlock(st, decl.Body.List)
	outs = append(outs, fx.drainPending()...)
	for len(outs) > 0 {
		o := outs[0]
		outs = outs[1:]
		switch o.fl {
		case flBreak, flContinue:
			fx.fail("break/continue escaped function body")
		case flExit:
			continue
		}
		if o.fl == flNormal && sig.Results().Len() > 0 {
			// falling off the end of a function with results is impossible in valid Go
			// unless the body ends in a terminating statement; treat as unreachable.
			continue
		}
		for _, fs := range fx.runDefers(o.st) {
			fx.finish(fs)
		}
		outs = append(outs, fx.drainPending()...)
	}
	for callee, cs := range fc.CallAsserts {
		for _, c := range cs {
			if !fx.stmtAssertHit[c] {
				return fx, fmt.Errorf("%s: 'before %s assert [%s]' matched no call (callee key or ordinal wrong?)", key, callee, c.Label)
			}
		}
	}
	for _, cs := range fc.StmtAsserts {
		for _, c := range cs {
			if !fx.stmtAssertHit[c] {
				return fx, fmt.Errorf("%s: statement assert [%s] matched no statement (anchor text changed?)", key, c.Label)
			}
		}
	}
	return fx, nil
}

func (fx *FnCtx) drainPending() []outcome {
	var outs []outcome
	for _, p := range fx.pendingPanics {
		outs = append(outs, outcome{st: p, fl: flPanic})
	}
	fx.pendingPanics = nil
	return outs
}

// finish checks postconditions on a terminated path.
func (fx *FnCtx) finish(st *State) {
	if st.panicking {
		if len(fx.fc.Panics) == 0 {
			fx.emit(st, "no-panic", "no-panic", fx.safetyTags(), "false", "function must not panic (no panics clause)", strings.Join(lastN(st.trace, 2), "; "))
			return
		}
		env := fx.env(st)
		env.named = copyNamed(env.named)
		env.named["panicval"] = Val{st.panicVal, "Any", tAny}
		for _, p := range fx.fc.Panics {
			goal := fx.specBool(env, p.Expr)
			fx.emit(st, "panics["+p.Label+"]", "panics", p.Tags, goal, p.Src, strings.Join(lastN(st.trace, 2), "; "))
		}
		return
	}
	env := fx.env(st)
	// in postconditions parameter names denote their values at entry (parameters are mutable in Go)
	env.named = copyNamed(env.named)
	for _, p := range fx.fc.Params {
		if v, ok := fx.entry.named[p.Name]; ok {
			env.named[p.Name] = v
		}
	}
	for _, ac := range fx.fc.AllCalls {
		var conj []string
		for _, rec := range st.calls {
			if rec.key != ac.Callee {
				continue
			}
			e2 := *env
			e2.callee = rec.named
			e2.callHeap = rec.heap
			conj = append(conj, fx.specBool(&e2, ac.Expr))
		}
		if len(conj) > 0 {
			fx.emit(st, "all-calls("+ac.Callee+")["+ac.Label+"]", "all-calls", ac.Tags, "(and "+strings.Join(conj, " ")+" true)", ac.Src, strings.Join(lastN(st.trace, 1), "; "))
		}
	}
	for _, mc := range fx.fc.MustCalls {
		var disj []string
		for _, rec := range st.calls {
			if rec.key != mc.Callee {
				continue
			}
			e2 := *env
			e2.callee = rec.named
			e2.callHeap = rec.heap
			disj = append(disj, fx.specBool(&e2, mc.Expr))
		}
		goal := "false"
		if len(disj) > 0 {
			goal = "(or " + strings.Join(disj, " ") + " false)"
		}
		if mc.Guard != nil {
			goal = "(=> " + fx.specBool(env, mc.Guard) + " " + goal + ")"
		}
		fx.emit(st, "must-call("+mc.Callee+")["+mc.Label+"]", "must-call", mc.Tags, goal, mc.Src, strings.Join(lastN(st.trace, 1), "; "))
	}
	for _, e := range fx.fc.Ensures {
		goal := fx.specBool(env, e.Expr)
		fx.emit(st, "ensures["+e.Label+"]", "ensures", e.Tags, goal, e.Src, strings.Join(lastN(st.trace, 1), "; "))
	}
}

func lastN(s []string, n int) []string {
	if len(s) <= n {
		return s
	}
	return s[len(s)-n:]
}

func (fx *FnCtx) emitCover(st *State, name, clause string) {
	fx.nPaths++
	q := &Query{Obligation: fx.oblPrefix() + ":cover[" + name + "]", Func: fx.key, Kind: "cover", Path: fx.nPaths, Clause: clause, IsCover: true}
	q.pending = &pendingQuery{facts: append([]string(nil), st.facts...), goal: "false"}
	fx.queries = append(fx.queries, q)
}

// Finalize renders the SMT text of all queries (after all declarations are known).
func (fx *FnCtx) Finalize() {
	// axioms: include those mentioning a used spec function; iterate to fixpoint
	var axTexts []string
	included := map[string]bool{}
	for changed := true; changed; {
		changed = false
		for _, ax := range fx.cs.Axioms {
			if included[ax.Name] {
				continue
			}
			calls := map[string]bool{}
			specCalls(ax.Expr, calls)
			for _, b := range []string{"len", "cap", "has", "mapdom", "mapval", "sel", "store", "is", "as", "ite", "fresh", "alloc", "bid", "arr", "off", "typeOf"} {
				delete(calls, b) // builtins of the contract language are not spec functions
			}
			use := len(calls) == 0 // pure heap-shape axioms (grammar well-formedness) are always in scope
			for c := range calls {
				if fx.usedSpecs[c] {
					use = true
				}
			}
			if !use {
				continue
			}
			included[ax.Name] = true
			changed = true
			env := &Env{named: map[string]Val{}, heap: map[string]string{}}
			env.old = env
			t := func() (s string) {
				defer func() {
					if r := recover(); r != nil {
						if u, ok := r.(unsupported); ok {
							panic(unsupported{"axiom " + ax.Name + ": " + u.msg})
						}
						panic(r)
					}
				}()
				return fx.specBool(env, ax.Expr)
			}()
			axTexts = append(axTexts, "(assert "+t+") ; axiom "+ax.Name)
		}
	}
	fx.axiomNames = sortedKeys(included)
	var pre strings.Builder
	pre.WriteString("(set-option :produce-models true)\n(set-logic ALL)\n")
	for _, d := range fx.sc.sortDecls {
		pre.WriteString(d + "\n")
	}
	for _, d := range fx.sc.funDecls {
		pre.WriteString(d + "\n")
	}
	for _, d := range fx.sc.strLitDecls() {
		pre.WriteString(d + "\n")
	}
	for _, d := range fx.sc.consts {
		pre.WriteString(d + "\n")
	}
	for _, d := range fx.sc.axioms {
		pre.WriteString(d + "\n")
	}
	for _, d := range axTexts {
		pre.WriteString(d + "\n")
	}
	if !fx.pkg.Flags["rt"] {
		// ground Unicode facts are only needed on the generator side (the runtime treats case folding abstractly)
		for _, d := range unicodeFacts(fx.usedSpecs) {
			pre.WriteString(d + "\n")
		}
	}
	prelude := pre.String()
	for _, q := range fx.queries {
		if q.pending == nil {
			continue
		}
		var b strings.Builder
		b.WriteString("; obligation " + q.Obligation + "\n; clause: " + strings.ReplaceAll(q.Clause, "\n", " ") + "\n; at " + q.Where + "\n")
		if len(q.pending.trace) > 0 {
			b.WriteString("; path: " + strings.Join(q.pending.trace, " / ") + "\n")
		}
		b.WriteString(prelude)
		for _, f := range fx.globalFacts {
			b.WriteString("(assert " + f + ")\n")
		}
		for _, f := range q.pending.facts {
			b.WriteString("(assert " + f + ")\n")
		}
		b.WriteString("(assert (not " + q.pending.goal + "))\n(check-sat)\n")
		if len(fx.modelVars) > 0 && !q.IsCover {
			b.WriteString("(get-value (" + strings.Join(fx.modelVars, " ") + "))\n")
		}
		q.SMT = b.String()
		q.ModelVars = fx.modelVars
		q.pending = nil
	}
}

func uniqueSorted(s []string) []string {
	m := map[string]bool{}
	for _, x := range s {
		m[x] = true
	}
	var out []string
	for x := range m {
		out = append(out, x)
	}
	sort.Strings(out)
	return out
}

// splitConj splits "(and A B ...)" (also under "(=> P (and ...))") into its conjuncts.
func splitConj(g string) []string {
	g = strings.TrimSpace(g)
	args, op := sexprArgs(g)
	switch op {
	case "and":
		var out []string
		for _, a := range args {
			if a == "true" {
				continue
			}
			out = append(out, splitConj(a)...)
		}
		if len(out) == 0 {
			return []string{"true"}
		}
		return out
	case "forall":
		// (forall (vars) (! (and A B) :pattern (..)))  ->  one quantified formula per conjunct
		if len(args) == 2 {
			body, pat := args[1], ""
			if bargs, bop := sexprArgs(body); bop == "!" && len(bargs) >= 1 {
				body = bargs[0]
				pat = " " + strings.Join(bargs[1:], " ")
			}
			parts := splitConj(body)
			if len(parts) > 1 {
				var out []string
				for _, pt := range parts {
					if pat != "" {
						out = append(out, "(forall "+args[0]+" (! "+pt+pat+"))")
					} else {
						out = append(out, "(forall "+args[0]+" "+pt+")")
					}
				}
				return out
			}
		}
	case "=>":
		if len(args) == 2 {
			rhs := splitConj(args[1])
			if len(rhs) > 1 {
				var out []string
				for _, r := range rhs {
					out = append(out, "(=> "+args[0]+" "+r+")")
				}
				return out
			}
		}
	}
	return []string{g}
}

// sexprArgs returns the operator and top-level arguments of "(op a b ...)".
func sexprArgs(g string) ([]string, string) {
	if len(g) < 2 || g[0] != '(' || g[len(g)-1] != ')' {
		return nil, ""
	}
	body := g[1 : len(g)-1]
	i := strings.IndexAny(body, " \t\n")
	if i < 0 {
		return nil, ""
	}
	op := body[:i]
	if strings.ContainsAny(op, "()") {
		return nil, ""
	}
	var args []string
	d, start := 0, -1
	for k := i; k < len(body); k++ {
		c := body[k]
		switch {
		case c == '(':
			if d == 0 && start < 0 {
				start = k
			}
			d++
		case c == ')':
			d--
			if d == 0 && start >= 0 && body[start] == '(' {
				args = append(args, body[start:k+1])
				start = -1
			}
		case c == ' ' || c == '\t' || c == '\n':
			if d == 0 && start >= 0 {
				args = append(args, body[start:k])
				start = -1
			}
		default:
			if d == 0 && start < 0 {
				start = k
			}
		}
	}
	if start >= 0 {
		args = append(args, body[start:])
	}
	return args, op
}
