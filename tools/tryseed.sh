#!/bin/sh
# usage: tryseed.sh <patch.diff> <govc args...>
# applies a seeded patch to /repo, runs govc, and always restores /repo afterwards.
patch="$1"; shift
cd /repo || exit 3
if ! git diff --quiet; then echo "repo dirty"; exit 3; fi
git apply "$patch" || { echo "patch does not apply"; exit 3; }
cd /verif
bin/govc "$@"
rc=$?
git -C /repo checkout -- .
git -C /repo clean -fdq
echo "exit=$rc"
exit $rc
