package main

import "fmt"

// seen collects what the recovery action observed for label x.
var seen []string

func show(v any) string {
	if v == nil {
		return "nil"
	}
	return fmt.Sprintf("%q", v)
}

func main() {
	violated := false
	for _, rule := range []string{"Direct", "Nested", "OtherRule"} {
		seen = nil
		v, err := Parse("", []byte("ac"), Entrypoint(rule))
		fmt.Printf("%-9s value=%q err=%v  x seen by the recovery action: %v\n", rule, v, err, seen)
		// In all three rules x:"a" has matched before the throw, the action is
		// generated with x as a parameter, so it must see x == "a".
		if len(seen) != 1 || seen[0] != `"a"` {
			violated = true
		}
	}
	if violated {
		fmt.Println("VIOLATION: label x is in scope of the action but is not bound to the value of x:\"a\"")
	} else {
		fmt.Println("OK")
	}
}
