package main

import (
	"fmt"
	"os"
)

func main() {
	// no runtime options at all
	x, err1 := Parse("", []byte("a+a+ax"))
	y, err2 := Parse("", []byte("a+a+ay"))
	fmt.Printf("a+a+ax: %v (err %v)\n", x, err1)
	fmt.Printf("a+a+ay: %v (err %v)\n", y, err2)
	if x == "alt1 e=a+a+a n=2" && y != "alt2 e=a+a+a n=2" {
		fmt.Println("VIOLATION: the state changes made by E on the successful path (second alternative) are missing")
		os.Exit(0)
	}
	fmt.Println("no violation observed")
	os.Exit(1)
}
