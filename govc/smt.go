package main

// SMT helpers: sorts for Go types, declarations, solver race.

import (
	"bytes"
	"regexp"
	"context"
	"fmt"
	"go/types"
	"os"
	"os/exec"
	"path/filepath"
	"sort"
	"strings"
	"time"
)

// Val is a symbolic value: SMT term + sort + (optional) Go type.
type Val struct {
	T  string
	S  string     // SMT sort
	Ty types.Type // may be nil for pure spec values
}

// SortCtx records every sort / function / constant that must be declared.
type SortCtx struct {
	sortDecls []string          // in dependency order
	seenSort  map[string]bool   //
	funDecls  []string          // declare-fun / define-fun lines
	seenFun   map[string]bool   //
	consts    []string          // declare-const lines (per function context)
	seenConst map[string]bool   //
	axioms    []string          // builtin axioms (asserts)
	seenAx    map[string]bool   //
	structs   map[string]*types.Struct
	typeTags  map[string]int    // go type string -> tag
	tagNames  []string
	strLits   map[string]string // literal -> const name
	strOrder  []string
	fresh     int
	sliceElem map[string]string
	mapName   map[*types.Map]string
}

var (
	reByte = regexp.MustCompile(`\bbyte\b`)
	reRune = regexp.MustCompile(`\brune\b`)
	reAny  = regexp.MustCompile(`\bany\b`)
)

func NewSortCtx() *SortCtx {
	sc := &SortCtx{seenSort: map[string]bool{}, seenFun: map[string]bool{}, seenConst: map[string]bool{}, seenAx: map[string]bool{},
		structs: map[string]*types.Struct{}, typeTags: map[string]int{}, strLits: map[string]string{}}
	sc.tagNames = append(sc.tagNames, "nil")
	sc.declSort("Str", "(declare-sort Str 0)")
	sc.declSort("Any", "(declare-sort Any 0)")
	sc.declFun("typeOf", "(declare-fun typeOf (Any) Int)")
	sc.declFun("nilAny", "(declare-const nilAny Any)")
	sc.axiom("typeOf-nil", "(assert (= (typeOf nilAny) 0))")
	sc.axiom("typeOf-nil2", "(assert (forall ((x Any)) (! (=> (= (typeOf x) 0) (= x nilAny)) :pattern ((typeOf x)))))")
	sc.declFun("slen", "(declare-fun slen (Str) Int)")
	sc.axiom("slen-nonneg", "(assert (forall ((s Str)) (! (>= (slen s) 0) :pattern ((slen s)))))")
	sc.declFun("emptyStr", "(declare-const emptyStr Str)")
	sc.axiom("slen-empty", "(assert (= (slen emptyStr) 0))")
	sc.axiom("slen-empty2", "(assert (forall ((s Str)) (! (=> (= (slen s) 0) (= s emptyStr)) :pattern ((slen s)))))")
	sc.declFun("scat", "(declare-fun scat (Str Str) Str)")
	sc.axiom("scat-len", "(assert (forall ((a Str) (b Str)) (! (= (slen (scat a b)) (+ (slen a) (slen b))) :pattern ((scat a b)))))")
	sc.axiom("scat-inj", "(assert (forall ((a Str) (b Str) (c Str)) (! (=> (= (scat a b) (scat a c)) (= b c)) :pattern ((scat a b) (scat a c)))))")
	sc.axiom("scat-assoc", "(assert (forall ((a Str) (b Str) (c Str)) (! (= (scat (scat a b) c) (scat a (scat b c))) :pattern ((scat (scat a b) c)))))")
	sc.axiom("scat-empty-r", "(assert (forall ((a Str)) (! (= (scat a emptyStr) a) :pattern ((scat a emptyStr)))))")
	sc.axiom("scat-empty-l", "(assert (forall ((a Str)) (! (= (scat emptyStr a) a) :pattern ((scat emptyStr a)))))")
	// rune view of strings (for range over string)
	sc.declFun("runeCount", "(declare-fun runeCount (Str) Int)")
	sc.declFun("runeOf", "(declare-fun runeOf (Str Int) Int)")
	sc.axiom("runeCount-nonneg", "(assert (forall ((s Str)) (! (>= (runeCount s) 0) :pattern ((runeCount s)))))")
	// string order (for sort / min)
	sc.declFun("sle", "(declare-fun sle (Str Str) Bool)")
	sc.axiom("sle-refl", "(assert (forall ((a Str)) (! (sle a a) :pattern ((sle a a)))))")
	sc.axiom("sle-total", "(assert (forall ((a Str) (b Str)) (! (or (sle a b) (sle b a)) :pattern ((sle a b)))))")
	sc.axiom("sle-antisym", "(assert (forall ((a Str) (b Str)) (! (=> (and (sle a b) (sle b a)) (= a b)) :pattern ((sle a b) (sle b a)))))")
	sc.axiom("sle-trans", "(assert (forall ((a Str) (b Str) (c Str)) (! (=> (and (sle a b) (sle b c)) (sle a c)) :pattern ((sle a b) (sle b c)))))")
	return sc
}

func (sc *SortCtx) declSort(name, decl string) {
	if sc.seenSort[name] {
		return
	}
	sc.seenSort[name] = true
	sc.sortDecls = append(sc.sortDecls, decl)
}
func (sc *SortCtx) declFun(name, decl string) {
	if sc.seenFun[name] {
		return
	}
	sc.seenFun[name] = true
	sc.funDecls = append(sc.funDecls, decl)
}
func (sc *SortCtx) axiom(name, decl string) {
	if sc.seenAx[name] {
		return
	}
	sc.seenAx[name] = true
	sc.axioms = append(sc.axioms, decl)
}

func (sc *SortCtx) Fresh(prefix, sort string) string {
	sc.fresh++
	n := fmt.Sprintf("%s!%d", sanitize(prefix), sc.fresh)
	sc.consts = append(sc.consts, fmt.Sprintf("(declare-const %s %s)", n, sort))
	return n
}

func sanitize(s string) string {
	var b strings.Builder
	for _, c := range s {
		switch {
		case c >= 'a' && c <= 'z', c >= 'A' && c <= 'Z', c >= '0' && c <= '9', c == '_', c == '.':
			b.WriteRune(c)
		default:
			b.WriteRune('_')
		}
	}
	return b.String()
}

// mangle turns a sort into an identifier fragment.
func mangle(sort string) string {
	r := strings.NewReplacer("(", "", ")", "", " ", "_")
	return r.Replace(sort)
}

// TypeTag returns the integer tag of a concrete Go type stored in an interface.
func (sc *SortCtx) TypeTag(t types.Type) int {
	k := types.TypeString(t, func(p *types.Package) string { return p.Name() })
	k = reByte.ReplaceAllString(k, "uint8")
	k = reRune.ReplaceAllString(k, "int32")
	k = reAny.ReplaceAllString(k, "interface{}")
	if n, ok := sc.typeTags[k]; ok {
		return n
	}
	n := len(sc.tagNames)
	sc.typeTags[k] = n
	sc.tagNames = append(sc.tagNames, k)
	return n
}

// StrLit returns the constant for a string literal.
func (sc *SortCtx) StrLit(s string) string {
	if s == "" {
		return "emptyStr"
	}
	if n, ok := sc.strLits[s]; ok {
		return n
	}
	n := fmt.Sprintf("str!%d", len(sc.strLits))
	sc.strLits[s] = n
	sc.strOrder = append(sc.strOrder, s)
	return n
}

func (sc *SortCtx) strLitDecls() []string {
	var out []string
	var names []string
	for _, s := range sc.strOrder {
		n := sc.strLits[s]
		names = append(names, n)
		out = append(out, fmt.Sprintf("(declare-const %s Str) ; %q", n, s))
		out = append(out, fmt.Sprintf("(assert (= (slen %s) %d))", n, len(s)))
		rs := []rune(s)
		out = append(out, fmt.Sprintf("(assert (= (runeCount %s) %d))", n, len(rs)))
		if len(rs) <= 8 {
			for i, r := range rs {
				out = append(out, fmt.Sprintf("(assert (= (runeOf %s %d) %d))", n, i, r))
			}
		}
	}
	if len(names) > 1 {
		out = append(out, "(assert (distinct "+strings.Join(names, " ")+"))")
	}
	return out
}

// SortOf maps a Go type to an SMT sort, declaring what is needed.
func (sc *SortCtx) SortOf(t types.Type) string {
	switch u := t.(type) {
	case *types.Named:
		if u.Obj().Pkg() != nil && u.Obj().Pkg().Path() == "bytes" && u.Obj().Name() == "Buffer" {
			return "Str" // bytes.Buffer is modelled as a string accumulator
		}
		if st, ok := u.Underlying().(*types.Struct); ok {
			return sc.structSort(u.Obj().Name(), st)
		}
		return sc.SortOf(u.Underlying())
	case *types.Alias:
		return sc.SortOf(types.Unalias(u))
	case *types.Basic:
		switch {
		case u.Info()&types.IsBoolean != 0:
			return "Bool"
		case u.Info()&types.IsInteger != 0:
			return "Int"
		case u.Info()&types.IsString != 0:
			return "Str"
		case u.Kind() == types.UntypedNil:
			return "Int"
		case u.Info()&types.IsFloat != 0:
			return "Real"
		case u.Kind() == types.UnsafePointer:
			return "Int"
		}
	case *types.Pointer:
		return "Int"
	case *types.Map:
		sc.mapSorts(u)
		return "Int"
	case *types.Signature:
		return "Int"
	case *types.Chan:
		return "Int"
	case *types.Interface:
		return "Any"
	case *types.Slice:
		return sc.sliceSort(sc.SortOf(u.Elem()))
	case *types.Array:
		return "(Array Int " + sc.SortOf(u.Elem()) + ")"
	case *types.Struct:
		return sc.structSort("anon_"+sanitize(types.TypeString(u, func(p *types.Package) string { return p.Name() })), u)
	case *types.Tuple:
		return "Int"
	}
	panic(fmt.Sprintf("SortOf: unsupported type %v (%T)", t, t))
}

func (sc *SortCtx) sliceSort(elem string) string {
	name := "Slice_" + mangle(elem)
	if sc.sliceElem == nil {
		sc.sliceElem = map[string]string{}
	}
	sc.sliceElem[name] = elem
	if !sc.seenSort[name] {
		sc.declSort(name, fmt.Sprintf("(declare-datatypes ((%s 0)) (((mk_%s (arr_%s (Array Int %s)) (off_%s Int) (len_%s Int) (cap_%s Int) (bid_%s Int)))))",
			name, name, name, elem, name, name, name, name))
	}
	return name
}

// elemFn: element accessor of a slice sort, linked to the array view by an axiom; quantified
// facts about slice elements use it as their trigger.
func (sc *SortCtx) elemFn(ss string) string {
	n := "elem_" + ss
	if !sc.seenFun[n] {
		es := sc.sliceElem[ss]
		sc.declFun(n, fmt.Sprintf("(declare-fun %s (%s Int) %s)", n, ss, es))
		sc.axiom(n, fmt.Sprintf("(assert (forall ((s %s) (i Int)) (! (= (%s s i) (select (arr_%s s) (+ (off_%s s) i))) :pattern ((%s s i)))))", ss, n, ss, ss, n))
	}
	return n
}

func (sc *SortCtx) structSort(name string, st *types.Struct) string {
	sname := "S_" + name
	if sc.seenSort[sname] {
		return sname
	}
	sc.seenSort[sname] = true // reserve (recursive value structs are impossible in Go)
	var fields []string
	for i := 0; i < st.NumFields(); i++ {
		f := st.Field(i)
		fields = append(fields, fmt.Sprintf("(%s_%s %s)", sname, f.Name(), sc.SortOf(f.Type())))
	}
	if len(fields) == 0 {
		fields = append(fields, fmt.Sprintf("(%s__unit Int)", sname))
	}
	sc.sortDecls = append(sc.sortDecls, fmt.Sprintf("(declare-datatypes ((%s 0)) (((mk_%s %s))))", sname, sname, strings.Join(fields, " ")))
	sc.structs[sname] = st
	return sname
}

// map heap arrays for a map type: returns (domArrayName, valArrayName, keySort, valSort)
func (sc *SortCtx) mapSorts(m *types.Map) (dom, val, ks, vs string) {
	ks = sc.SortOf(m.Key())
	vs = sc.SortOf(m.Elem())
	// one heap per Go map type: maps of different types never alias
	ts := types.TypeString(m, func(p *types.Package) string { return p.Name() })
	ts = strings.ReplaceAll(ts, "interface {}", "any")
	ts = strings.ReplaceAll(ts, "interface{}", "any")
	ts = reByte.ReplaceAllString(ts, "uint8")
	ts = reRune.ReplaceAllString(ts, "int32")
	id := sanitize(ts)
	if n, ok := sc.mapName[m]; ok {
		id = n // named map types have their own heap: Go's type system keeps them apart from other maps (conversions are rejected)
	}
	dom = "Mdom_" + id
	val = "Mval_" + id
	card := "card_" + mangle(ks)
	if !sc.seenFun[card] {
		sc.declFun(card, fmt.Sprintf("(declare-fun %s ((Array %s Bool)) Int)", card, ks))
		sc.axiom(card+"-nonneg", fmt.Sprintf("(assert (forall ((d (Array %s Bool))) (! (>= (%s d) 0) :pattern ((%s d)))))", ks, card, card))
		sc.axiom(card+"-empty", fmt.Sprintf("(assert (= (%s ((as const (Array %s Bool)) false)) 0))", card, ks))
		sc.axiom(card+"-zero", fmt.Sprintf("(assert (forall ((d (Array %s Bool)) (k %s)) (! (=> (= (%s d) 0) (not (select d k))) :pattern ((%s d) (select d k)))))", ks, ks, card, card))
		sc.axiom(card+"-zero2", fmt.Sprintf("(assert (forall ((d (Array %s Bool))) (! (=> (= (%s d) 0) (= d ((as const (Array %s Bool)) false))) :pattern ((%s d)))))", ks, card, ks, card))
		wit := "wit_" + mangle(ks)
		sc.declFun(wit, fmt.Sprintf("(declare-fun %s ((Array %s Bool)) %s)", wit, ks, ks))
		sc.axiom(card+"-pos", fmt.Sprintf("(assert (forall ((d (Array %s Bool))) (! (=> (> (%s d) 0) (select d (%s d))) :pattern ((%s d)))))", ks, card, wit, card))
		sc.axiom(card+"-one", fmt.Sprintf("(assert (forall ((d (Array %s Bool)) (a %s) (b %s)) (! (=> (and (= (%s d) 1) (select d a) (select d b)) (= a b)) :pattern ((%s d) (select d a) (select d b)))))", ks, ks, ks, card, card))
		sc.axiom(card+"-store", fmt.Sprintf("(assert (forall ((d (Array %s Bool)) (k %s)) (! (= (%s (store d k true)) (ite (select d k) (%s d) (+ (%s d) 1))) :pattern ((%s (store d k true))))))", ks, ks, card, card, card, card))
		sc.axiom(card+"-del", fmt.Sprintf("(assert (forall ((d (Array %s Bool)) (k %s)) (! (= (%s (store d k false)) (ite (select d k) (- (%s d) 1) (%s d))) :pattern ((%s (store d k false))))))", ks, ks, card, card, card, card))
	}
	return
}

// constArr: an array whose elements are all z, for element values that are not SMT literals
// (cvc5 only accepts values under "as const").
func (sc *SortCtx) constArr(arrSort, z string) string {
	n := "constarr_" + mangle(arrSort)
	if !sc.seenFun[n] {
		sc.declFun(n, fmt.Sprintf("(declare-const %s %s)", n, arrSort))
		sc.axiom(n, fmt.Sprintf("(assert (forall ((i Int)) (! (= (select %s i) %s) :pattern ((select %s i)))))", n, z, n))
	}
	return n
}

func (sc *SortCtx) cardFn(ks string) string { return "card_" + mangle(ks) }

// boxing into Any
func (sc *SortCtx) boxFn(sort string) (mk, un string) {
	id := mangle(sort)
	mk = "box_" + id
	un = "unbox_" + id
	if !sc.seenFun[mk] {
		sc.declFun(mk, fmt.Sprintf("(declare-fun %s (Int %s) Any)", mk, sort))
		sc.declFun(un, fmt.Sprintf("(declare-fun %s (Any) %s)", un, sort))
		sc.axiom(mk+"-type", fmt.Sprintf("(assert (forall ((t Int) (v %s)) (! (=> (> t 0) (= (typeOf (%s t v)) t)) :pattern ((%s t v)))))", sort, mk, mk))
		sc.axiom(mk+"-unbox", fmt.Sprintf("(assert (forall ((t Int) (v %s)) (! (=> (> t 0) (= (%s (%s t v)) v)) :pattern ((%s t v)))))", sort, un, mk, mk))
	}
	return
}

func (sc *SortCtx) Box(v Val, t types.Type) string {
	if _, ok := t.Underlying().(*types.Interface); ok {
		return v.T
	}
	if b, ok := t.(*types.Basic); ok && b.Kind() == types.UntypedNil {
		return "nilAny"
	}
	s := sc.SortOf(t)
	mk, _ := sc.boxFn(s)
	return fmt.Sprintf("(%s %d %s)", mk, sc.TypeTag(t), v.T)
}

// ---------- zero values ----------

func (sc *SortCtx) Zero(t types.Type) string {
	s := sc.SortOf(t)
	return sc.zeroOfSort(s, t)
}

func (sc *SortCtx) zeroOfSort(s string, t types.Type) string {
	switch {
	case s == "Int":
		return "0"
	case s == "Bool":
		return "false"
	case s == "Str":
		return "emptyStr"
	case s == "Any":
		return "nilAny"
	case s == "Real":
		return "0.0"
	case strings.HasPrefix(s, "Slice_"):
		n := "nilslice_" + s
		if !sc.seenFun[n] {
			sc.declFun(n, fmt.Sprintf("(declare-const %s %s)", n, s))
			sc.axiom(n, fmt.Sprintf("(assert (and (= (len_%s %s) 0) (= (cap_%s %s) 0) (= (off_%s %s) 0) (= (bid_%s %s) 0)))", s, n, s, n, s, n, s, n))
		}
		return n
	case strings.HasPrefix(s, "S_"):
		st := sc.structs[s]
		var parts []string
		for i := 0; i < st.NumFields(); i++ {
			parts = append(parts, sc.Zero(st.Field(i).Type()))
		}
		if len(parts) == 0 {
			parts = []string{"0"}
		}
		return "(mk_" + s + " " + strings.Join(parts, " ") + ")"
	case strings.HasPrefix(s, "(Array Int "):
		el := strings.TrimSuffix(strings.TrimPrefix(s, "(Array Int "), ")")
		var et types.Type
		if t != nil {
			if a, ok := t.Underlying().(*types.Array); ok {
				et = a.Elem()
			}
		}
		z := sc.zeroOfSort(el, et)
		if z == "0" || z == "false" || z == "0.0" {
			return fmt.Sprintf("((as const %s) %s)", s, z)
		}
		return sc.constArr(s, z)
	}
	panic("zeroOfSort: " + s)
}

// ---------- queries and solver race ----------

type Query struct {
	Obligation string   // stable name
	Func       string   // function key
	Kind       string   // ensures / requires / invariant-init / ...
	Tags       []string // property ids
	Path       int
	Clause     string // source text of the clause
	Where      string // source position of the check
	SMT        string // full query text (check-sat must be unsat)
	ModelVars  []string
	Result     string // unsat / sat / unknown / timeout
	Solver     string
	Millis     int64
	Model      string
	IsCover    bool // reachability probe: must NOT be unsat
	KnownID    string
	pending    *pendingQuery
}

type solverSpec struct {
	name string
	args func(file string, timeoutS int) []string
}

var solvers = []solverSpec{
	{"z3-new", func(f string, t int) []string { return []string{"z3-new", fmt.Sprintf("-T:%d", t), "-smt2", f} }},
	{"z3", func(f string, t int) []string { return []string{"z3", fmt.Sprintf("-T:%d", t), "-smt2", f} }},
	{"cvc5", func(f string, t int) []string {
		return []string{"cvc5", fmt.Sprintf("--tlimit=%d", t*1000), "--lang=smt2", f}
	}},
}

func runSolver(sp solverSpec, file string, timeoutS int) (res string, out string) {
	ctx, cancel := context.WithTimeout(context.Background(), time.Duration(timeoutS+2)*time.Second)
	defer cancel()
	a := sp.args(file, timeoutS)
	cmd := exec.CommandContext(ctx, a[0], a[1:]...)
	var buf bytes.Buffer
	cmd.Stdout = &buf
	cmd.Stderr = &buf
	_ = cmd.Run()
	out = buf.String()
	first := ""
	for _, l := range strings.Split(out, "\n") {
		l = strings.TrimSpace(l)
		if l == "sat" || l == "unsat" || l == "unknown" || l == "timeout" {
			first = l
			break
		}
		if strings.HasPrefix(l, "(error") {
			break
		}
	}
	switch first {
	case "unsat", "sat", "unknown":
		return first, out
	case "timeout":
		return "timeout", out
	}
	if ctx.Err() != nil {
		return "timeout", out
	}
	return "error", out
}

// solve runs the query: z3-new first; on unknown/timeout/error the other solvers.
func solve(q *Query, workdir string, timeoutS int, allSolvers bool) {
	file := filepath.Join(workdir, sanitize(q.Obligation)+fmt.Sprintf("_p%d.smt2", q.Path))
	if err := os.WriteFile(file, []byte(q.SMT), 0o644); err != nil {
		q.Result = "error"
		q.Model = err.Error()
		return
	}
	start := time.Now()
	defer func() { q.Millis = time.Since(start).Milliseconds() }()
	if q.IsCover {
		// vacuity probe: only an "unsat" answer matters; a short single-solver attempt suffices
		res, out := runSolver(solvers[0], file, 3)
		q.Result, q.Solver = res, solvers[0].name
		if res != "unsat" {
			os.Remove(file)
		} else {
			q.Model = out
		}
		return
	}
	order := solvers
	if h := solverHints[stripTarget(q.Obligation)]; h != "" {
		// the solver that discharged this obligation on the inventory run goes first
		var first, rest []solverSpec
		for _, sp := range solvers {
			if sp.name == h {
				first = append(first, sp)
			} else {
				rest = append(rest, sp)
			}
		}
		order = append(first, rest...)
	}
	for i, sp := range order {
		if sp.name == "cvc5" && strings.Contains(q.SMT, "(lambda") {
			continue
		}
		t := timeoutS
		if i > 0 {
			t = timeoutS / 2
			if t < 2 {
				t = 2
			}
		}
		res, out := runSolver(sp, file, t)
		if res == "unsat" {
			q.Result, q.Solver = res, sp.name
			if !keepSMT {
				os.Remove(file)
			}
			return
		}
		if res == "sat" {
			q.Result, q.Solver, q.Model = res, sp.name, out
			return
		}
		if q.Result == "" || q.Result == "error" {
			q.Result, q.Solver, q.Model = res, sp.name, out
		}
		_ = allSolvers
	}
}

var keepSMT = false

// solverHints: obligation (variant-stripped) -> solver that discharged its slowest query last time.
var solverHints = map[string]string{}

func sortedKeys[V any](m map[string]V) []string {
	var ks []string
	for k := range m {
		ks = append(ks, k)
	}
	sort.Strings(ks)
	return ks
}
