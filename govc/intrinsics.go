package main

import (
	"fmt"
	"go/ast"
	"go/token"
	"go/types"
	"strings"
)

// intrinsic models a few library calls directly: fmt.Sprintf/Errorf/Printf with a constant
// format (uninterpreted function of format and boxed arguments) and bytes.Buffer methods
// (string accumulator).
func (fx *FnCtx) intrinsic(st *State, call *ast.CallExpr) ([]Val, bool) {
	sel, ok := ast.Unparen(call.Fun).(*ast.SelectorExpr)
	if !ok {
		return nil, false
	}
	errT := types.Universe.Lookup("error").Type()
	if o, ok := fx.pkg.Info.Uses[sel.Sel].(*types.Func); ok && o.Pkg() != nil && o.Pkg().Path() == "fmt" {
		switch o.Name() {
		case "Fprintf", "Fprintln", "Fprint", "Println", "Print":
			// output only: arguments are evaluated, nothing in the modelled state changes -- except when the
			// destination is a local bytes.Buffer (a string accumulator): it then holds some new string
			for i, a := range call.Args {
				if i == 0 && strings.HasPrefix(o.Name(), "F") {
					if bv := fx.localBufferVar(a); bv != nil {
						cur := st.vars[bv]
						fx.setVar(st, bv, Val{fx.sc.Fresh("written", "Str"), "Str", cur.Ty})
						continue
					}
				}
				if !call.Ellipsis.IsValid() {
					fx.eval(st, a)
				}
			}
			return []Val{{fx.sc.Fresh("printed", "Int"), "Int", tInt}, {"nilAny", "Any", errT}}, true
		case "Sprintf", "Errorf", "Printf":
			if len(call.Args) == 0 || call.Ellipsis.IsValid() {
				return nil, false
			}
			f := fx.eval(st, call.Args[0])
			var args []string
			for _, a := range call.Args[1:] {
				v := fx.eval(st, a)
				if v.S == "nil" {
					v = Val{"nilAny", "Any", tAny}
				}
				args = append(args, fx.coerce(v, "Any", tAny).T)
			}
			s := fx.sprintfTerm(f.T, args)
			switch o.Name() {
			case "Sprintf":
				return []Val{{s, "Str", tString}}, true
			case "Errorf":
				fx.sc.declFun("errorOfStr", "(declare-fun errorOfStr (Str) Any)")
				fx.sc.axiom("errorOfStr-nonnil", "(assert (forall ((s Str)) (! (not (= (errorOfStr s) nilAny)) :pattern ((errorOfStr s)))))")
				return []Val{{"(errorOfStr " + s + ")", "Any", errT}}, true
			default:
				n := fx.sc.Fresh("printed", "Int")
				return []Val{{n, "Int", tInt}, {"nilAny", "Any", errT}}, true
			}
		}
	}
	if o, ok := fx.pkg.Info.Uses[sel.Sel].(*types.Func); ok && o.Pkg() != nil && o.Pkg().Path() == "sort" && o.Name() == "Strings" {
		// sort.Strings(x): x becomes a sorted rearrangement of itself (same length, same elements)
		old := fx.eval(st, call.Args[0])
		nw := fx.sc.Fresh("sorted", old.S)
		el := fx.sc.elemFn(old.S)
		nv := Val{nw, old.S, old.Ty}
		st.assume(fx.sliceWF(nv))
		st.assume(fmt.Sprintf("(= (len_%s %s) (len_%s %s))", old.S, nw, old.S, old.T))
		st.assume(fmt.Sprintf("(= (off_%s %s) (off_%s %s))", old.S, nw, old.S, old.T))
		st.assume(fmt.Sprintf("(= (bid_%s %s) (bid_%s %s))", old.S, nw, old.S, old.T))
		st.assume(fmt.Sprintf("(forall ((i Int) (j Int)) (! (=> (and (<= 0 i) (< i j) (< j (len_%s %s))) (sle (%s %s i) (%s %s j))) :pattern ((%s %s i) (%s %s j))))", old.S, nw, el, nw, el, nw, el, nw, el, nw))
		// the rearrangement is a permutation: perm maps new indices to old ones, inv is its inverse
		perm, inv := fx.sc.Fresh("perm", "(Array Int Int)"), fx.sc.Fresh("inv", "(Array Int Int)")
		st.assume(fmt.Sprintf("(forall ((i Int)) (! (=> (and (<= 0 i) (< i (len_%s %s))) (and (<= 0 (select %s i)) (< (select %s i) (len_%s %s)) (= (%s %s i) (%s %s (select %s i))) (= (select %s (select %s i)) i))) :pattern ((%s %s i))))",
			old.S, nw, perm, perm, old.S, nw, el, nw, el, old.T, perm, inv, perm, el, nw))
		st.assume(fmt.Sprintf("(forall ((j Int)) (! (=> (and (<= 0 j) (< j (len_%s %s))) (and (<= 0 (select %s j)) (< (select %s j) (len_%s %s)) (= (%s %s (select %s j)) (%s %s j)) (= (select %s (select %s j)) j))) :pattern ((%s %s j))))",
			old.S, nw, inv, inv, old.S, nw, el, nw, inv, el, old.T, perm, inv, el, old.T))
		fx.assign(st, call.Args[0], nv)
		return nil, true
	}
	if s, ok := fx.pkg.Info.Selections[sel]; ok && s.Kind() == types.MethodVal {
		rt := s.Recv()
		if p, ok := derefType(rt); ok {
			rt = p
		}
		if n, ok := types.Unalias(rt).(*types.Named); ok && n.Obj().Pkg() != nil && n.Obj().Pkg().Path() == "bytes" && n.Obj().Name() == "Buffer" && !isPtrExpr(fx, sel.X) {
			recvExpr := sel.X
			if u, ok := recvExpr.(*ast.UnaryExpr); ok && u.Op == token.AND {
				recvExpr = u.X
			}
			cur := fx.eval(st, recvExpr)
			switch sel.Sel.Name {
			case "WriteString":
				a := fx.eval(st, call.Args[0])
				fx.assign(st, recvExpr, Val{fx.scat(cur.T, a.T), "Str", cur.Ty})
				return []Val{{"(slen " + a.T + ")", "Int", tInt}, {"nilAny", "Any", errT}}, true
			case "WriteRune", "WriteByte":
				a := fx.eval(st, call.Args[0])
				fx.sc.declFun("strOfRune", "(declare-fun strOfRune (Int) Str)")
				fx.assign(st, recvExpr, Val{fx.scat(cur.T, "(strOfRune "+a.T+")"), "Str", cur.Ty})
				return []Val{{fx.sc.Fresh("n", "Int"), "Int", tInt}, {"nilAny", "Any", errT}}, true
			case "Len":
				return []Val{{"(slen " + cur.T + ")", "Int", tInt}}, true
			case "String":
				return []Val{{cur.T, "Str", tString}}, true
			case "Reset":
				fx.assign(st, recvExpr, Val{"emptyStr", "Str", cur.Ty})
				return nil, true
			}
			fx.fail("bytes.Buffer.%s not modelled at %s", sel.Sel.Name, fx.pos(call))
		}
	}
	return nil, false
}

func (fx *FnCtx) sprintfTerm(format string, args []string) string {
	fx.usedSpecs["sprintf"] = true
	name := fmt.Sprintf("sprintf_%d", len(args))
	sorts := "Str"
	for range args {
		sorts += " Any"
	}
	fx.sc.declFun(name, "(declare-fun "+name+" ("+sorts+") Str)")
	return "(" + name + " " + format + " " + strings.Join(args, " ") + ")"
}

// isIntrinsic: is the call handled by intrinsic() (no contract needed)?
func (fx *FnCtx) isIntrinsic(call *ast.CallExpr) bool {
	sel, ok := ast.Unparen(call.Fun).(*ast.SelectorExpr)
	if !ok {
		return false
	}
	if o, ok := fx.pkg.Info.Uses[sel.Sel].(*types.Func); ok && o.Pkg() != nil && o.Pkg().Path() == "fmt" {
		switch o.Name() {
		case "Fprintf", "Fprintln", "Fprint", "Println", "Print":
			return true
		case "Sprintf", "Errorf", "Printf":
			return len(call.Args) > 0 && !call.Ellipsis.IsValid()
		}
	}
	if o, ok := fx.pkg.Info.Uses[sel.Sel].(*types.Func); ok && o.Pkg() != nil && o.Pkg().Path() == "sort" && o.Name() == "Strings" {
		return true
	}
	if s, ok := fx.pkg.Info.Selections[sel]; ok && s.Kind() == types.MethodVal {
		rt := s.Recv()
		if p, ok := derefType(rt); ok {
			rt = p
		}
		if n, ok := types.Unalias(rt).(*types.Named); ok && n.Obj().Pkg() != nil && n.Obj().Pkg().Path() == "bytes" && n.Obj().Name() == "Buffer" && !isPtrExpr(fx, sel.X) {
			return true
		}
	}
	return false
}

// isPtrExpr: the expression has pointer type (a *bytes.Buffer obtained elsewhere is opaque; only
// local Buffer values are modelled as string accumulators)
func isPtrExpr(fx *FnCtx, e ast.Expr) bool {
	if u, ok := e.(*ast.UnaryExpr); ok && u.Op == token.AND {
		return false
	}
	_, ok := derefType(fx.typeOf(e))
	return ok
}

// localBufferVar: e is x or &x with x a local variable of type bytes.Buffer (modelled as a string accumulator).
func (fx *FnCtx) localBufferVar(e ast.Expr) *types.Var {
	if u, ok := e.(*ast.UnaryExpr); ok && u.Op == token.AND {
		e = u.X
	}
	id, ok := e.(*ast.Ident)
	if !ok {
		return nil
	}
	o, ok := fx.pkg.Info.Uses[id].(*types.Var)
	if !ok {
		return nil
	}
	if n, ok := types.Unalias(o.Type()).(*types.Named); ok && n.Obj().Pkg() != nil && n.Obj().Pkg().Path() == "bytes" && n.Obj().Name() == "Buffer" {
		return o
	}
	return nil
}
