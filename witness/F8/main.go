package main

import (
	"fmt"
	"os"
)

// F8: the "no match" error is located at the farthest failure OFFSET, but when that offset is 0 its line
// and column are the initial 1:1 and not the position of offset 0 (which, by the parser's own convention
// for a leading newline, is line 2, column 0: that is what a code block matching at offset 0 observes).
// Property C12: "... located at the greatest input offset ... with that offset's line and column".
// Defect present iff the error's line:col differs from the line:col a code block sees at the same offset.
func main() {
	_, err := Parse("", []byte("\n"))
	el, ok := err.(errList)
	if !ok || len(el) != 1 {
		fmt.Println("unexpected error shape:", err)
		os.Exit(3)
	}
	pe, ok := el[0].(*parserError)
	if !ok {
		fmt.Println("unexpected error type:", err)
		os.Exit(3)
	}
	if seenOff != pe.pos.offset {
		fmt.Printf("offsets differ (action %d, error %d): witness does not apply\n", seenOff, pe.pos.offset)
		os.Exit(3)
	}
	if pe.pos.line != seenLine || pe.pos.col != seenCol {
		fmt.Printf("defect present: offset %d is %d:%d for a code block and %d:%d in the error (%v)\n", seenOff, seenLine, seenCol, pe.pos.line, pe.pos.col, err)
		os.Exit(0)
	}
	fmt.Println("defect gone:", err)
	os.Exit(1)
}
