module verif/govc

go 1.25.0
