package main

import (
	"fmt"
	"os"
)

func main() {
	observed := false

	// C12. In the grammar the terminal "y" starts at offset 1 and fails there.
	// Report without -optimize-grammar:  1:2 (1): no match found, expected: "y"
	_, err := Parse("", []byte("xz"))
	fmt.Printf("Parse(\"xz\"): %v\n", err)
	want := `1:2 (1): no match found, expected: "y"`
	if err != nil && err.Error() != want {
		fmt.Printf("  -> C12 VIOLATION: want %s\n", want)
		observed = true
	}

	// C11. The error arises in rule Num, display name "number".
	// Report without -optimize-grammar:  f:1:1 (0): rule "number": bad num
	v, err := Parse("f", []byte("12"), Entrypoint("Start2"))
	fmt.Printf("Parse(\"12\", Entrypoint(Start2)): v=%v err=%v\n", v, err)
	want = `f:1:1 (0): rule "number": bad num`
	if err != nil && err.Error() != want {
		fmt.Printf("  -> C11 VIOLATION: want %s\n", want)
		observed = true
	}
	if observed {
		os.Exit(0)
	}
	os.Exit(1)
}
