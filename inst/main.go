// Command inst instantiates pigeon's runtime template with the REAL builder
// (github.com/mna/pigeon/builder, replaced by /repo) for every combination of the
// template booleans and writes each instantiation, after the real imports.Process
// step of main.go, as a Go file under the output directory.
//
// usage: inst <outdir>
package main

import (
	"bytes"
	"fmt"
	"os"
	"path/filepath"

	"github.com/mna/pigeon/ast"
	"github.com/mna/pigeon/builder"
	"golang.org/x/tools/imports"
)

func ident(s string) *ast.Identifier { return ast.NewIdentifier(ast.Pos{Line: 1, Col: 1}, s) }

// probe builds a tiny grammar. withState adds a #{} block (sets GlobalState),
// withLR makes rule A directly left recursive (sets LeftRecursion when supported).
func probe(withState, withLR bool) *ast.Grammar {
	p := ast.Pos{Line: 1, Col: 1}
	g := ast.NewGrammar(p)
	r := ast.NewRule(p, ident("A"))
	seq := ast.NewSeqExpr(p)
	if withLR {
		ch := ast.NewChoiceExpr(p)
		s2 := ast.NewSeqExpr(p)
		ref := ast.NewRuleRefExpr(p)
		ref.Name = ident("A")
		s2.Exprs = append(s2.Exprs, ref, ast.NewLitMatcher(p, "a"))
		ch.Alternatives = append(ch.Alternatives, s2, ast.NewLitMatcher(p, "b"))
		seq.Exprs = append(seq.Exprs, ch)
	} else {
		seq.Exprs = append(seq.Exprs, ast.NewLitMatcher(p, "a"))
	}
	if withState {
		st := ast.NewStateCodeExpr(p)
		st.Code = ast.NewCodeBlock(p, "{ return nil }")
		seq.Exprs = append(seq.Exprs, st)
	}
	r.Expr = seq
	g.Rules = append(g.Rules, r)
	return g
}

func main() {
	if len(os.Args) != 2 {
		fmt.Fprintln(os.Stderr, "usage: inst <outdir>")
		os.Exit(2)
	}
	out := os.Args[1]
	b2s := func(b bool) string {
		if b {
			return "1"
		}
		return "0"
	}
	for _, nolint := range []bool{false, true} {
		for _, opt := range []bool{false, true} {
			for _, bl := range []bool{false, true} {
				for _, lr := range []bool{false, true} {
					for _, st := range []bool{false, true} {
						var buf bytes.Buffer
						buf.WriteString("package rt\n")
						g := probe(st, lr)
						err := builder.BuildParser(&buf, g,
							builder.Optimize(opt), builder.BasicLatinLookupTable(bl),
							builder.SupportLeftRecursion(lr), builder.Nolint(nolint))
						if err != nil {
							fmt.Fprintln(os.Stderr, "BuildParser:", err)
							os.Exit(1)
						}
						// same options as /repo/main.go
						code, err := imports.Process("filename", buf.Bytes(), &imports.Options{TabWidth: 8, TabIndent: true, Comments: true, Fragment: true})
						if err != nil {
							fmt.Fprintln(os.Stderr, "imports.Process:", err)
							os.Exit(1)
						}
						name := fmt.Sprintf("o%sb%sl%ss%s", b2s(opt), b2s(bl), b2s(lr), b2s(st))
						if nolint {
							name += "n1"
						}
						dir := filepath.Join(out, name)
						if err := os.MkdirAll(dir, 0o755); err != nil {
							panic(err)
						}
						if err := os.WriteFile(filepath.Join(dir, "rt.go"), code, 0o644); err != nil {
							panic(err)
						}
					}
				}
			}
		}
	}
}
