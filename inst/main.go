// Command inst instantiates pigeon's runtime template with the REAL builder
// (github.com/mna/pigeon/builder, replaced by /repo) for every combination of the
// template booleans and writes each instantiation, after the real imports.Process
// step of main.go, as a Go file under the output directory.
//
// usage: inst <outdir>
package main

import (
	"bytes"
	"fmt"
	"os"
	"path/filepath"
	"strings"

	"github.com/mna/pigeon/ast"
	"github.com/mna/pigeon/builder"
	"golang.org/x/tools/imports"
)

func ident(s string) *ast.Identifier { return ast.NewIdentifier(ast.Pos{Line: 1, Col: 1}, s) }

// probe builds a tiny grammar. withState adds a #{} block (sets GlobalState),
// withLR makes rule A directly left recursive (sets LeftRecursion when supported).
func probe(withState, withLR bool) *ast.Grammar {
	p := ast.Pos{Line: 1, Col: 1}
	g := ast.NewGrammar(p)
	r := ast.NewRule(p, ident("A"))
	seq := ast.NewSeqExpr(p)
	if withLR {
		ch := ast.NewChoiceExpr(p)
		s2 := ast.NewSeqExpr(p)
		ref := ast.NewRuleRefExpr(p)
		ref.Name = ident("A")
		s2.Exprs = append(s2.Exprs, ref, ast.NewLitMatcher(p, "a"))
		ch.Alternatives = append(ch.Alternatives, s2, ast.NewLitMatcher(p, "b"))
		seq.Exprs = append(seq.Exprs, ch)
	} else {
		seq.Exprs = append(seq.Exprs, ast.NewLitMatcher(p, "a"))
	}
	if withState {
		st := ast.NewStateCodeExpr(p)
		st.Code = ast.NewCodeBlock(p, "{ return nil }")
		seq.Exprs = append(seq.Exprs, st)
	}
	r.Expr = seq
	g.Rules = append(g.Rules, r)
	return g
}

func main() {
	if len(os.Args) != 2 {
		fmt.Fprintln(os.Stderr, "usage: inst <outdir>")
		os.Exit(2)
	}
	out := os.Args[1]
	b2s := func(b bool) string {
		if b {
			return "1"
		}
		return "0"
	}
	type variant struct {
		name                 string
		nolint, opt, bl, st  bool
		lrMode               int
	}
	var vs []variant
	for _, nolint := range []bool{false, true} {
		for _, opt := range []bool{false, true} {
			for _, bl := range []bool{false, true} {
				// lr: 0 = no left recursion, flag off; 1 = left-recursive grammar, flag on;
				// 2 = -support-left-recursion given for a grammar WITHOUT left recursion (directory suffix x1):
				// the option is legal for every grammar, the output must compile (and equals the l0 code)
				for _, lrMode := range []int{0, 1, 2} {
					for _, st := range []bool{false, true} {
						name := fmt.Sprintf("o%sb%sl%ss%s", b2s(opt), b2s(bl), b2s(lrMode == 1), b2s(st))
						if lrMode == 2 {
							name += "x1"
						}
						if nolint {
							name += "n1"
						}
						vs = append(vs, variant{name, nolint, opt, bl, st, lrMode})
					}
				}
			}
		}
	}
	// build: a failure or a panic of the real builder on a probe grammar is recorded (FAILURES.txt) and the other
	// variants are still built
	build := func(v variant) (code []byte, err error) {
		defer func() {
			if r := recover(); r != nil {
				err = fmt.Errorf("PANIC in builder.BuildParser / imports.Process: %v", r)
			}
		}()
		var buf bytes.Buffer
		buf.WriteString("package rt\n")
		g := probe(v.st, v.lrMode == 1)
		if err := builder.BuildParser(&buf, g,
			builder.Optimize(v.opt), builder.BasicLatinLookupTable(v.bl),
			builder.SupportLeftRecursion(v.lrMode != 0), builder.Nolint(v.nolint)); err != nil {
			return nil, fmt.Errorf("BuildParser: %v", err)
		}
		// same options as /repo/main.go
		code, err = imports.Process("filename", buf.Bytes(), &imports.Options{TabWidth: 8, TabIndent: true, Comments: true, Fragment: true})
		if err != nil {
			return nil, fmt.Errorf("imports.Process: %v", err)
		}
		return code, nil
	}
	if err := os.MkdirAll(out, 0o755); err != nil {
		panic(err)
	}
	var failures, rebuilt bytes.Buffer
	first := map[string][]byte{}
	for _, v := range vs {
		code, err := build(v)
		if err != nil {
			fmt.Fprintf(&failures, "%s\t%s\n", v.name, strings.ReplaceAll(err.Error(), "\n", " | "))
			continue
		}
		first[v.name] = code
		dir := filepath.Join(out, v.name)
		if err := os.MkdirAll(dir, 0o755); err != nil {
			panic(err)
		}
		if err := os.WriteFile(filepath.Join(dir, "rt.go"), code, 0o644); err != nil {
			panic(err)
		}
	}
	// second pass in the same process (C19: repeated builds inside one process are byte-identical)
	for _, v := range vs {
		if first[v.name] == nil {
			continue
		}
		code, err := build(v)
		if err != nil {
			fmt.Fprintf(&rebuilt, "%s\tsecond build failed: %s\n", v.name, strings.ReplaceAll(err.Error(), "\n", " | "))
		} else if !bytes.Equal(code, first[v.name]) {
			fmt.Fprintf(&rebuilt, "%s\tsecond build of the same grammar and options in one process differs: %d bytes, first build %d bytes\n", v.name, len(code), len(first[v.name]))
		}
	}
	os.WriteFile(filepath.Join(out, "FAILURES.txt"), failures.Bytes(), 0o644)
	os.WriteFile(filepath.Join(out, "REBUILD.txt"), rebuilt.Bytes(), 0o644)
	var names []string
	for _, v := range vs {
		names = append(names, v.name)
	}
	os.WriteFile(filepath.Join(out, "VARIANTS.txt"), []byte(strings.Join(names, "\n")+"\n"), 0o644)
}
