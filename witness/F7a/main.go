package main

import (
	"fmt"
	"os"
)

// F7a: cloneExpr returned the SAME *LitMatcher for an inlined leaf rule, so the literal
// concatenation of the optimizer mutated the shared node: L "b" / L "c" became "abc" / "abc".
// Defect present iff "ab" (or "ac") is rejected by the -optimize-grammar parser.
func main() {
	_, e1 := Parse("", []byte("ab"))
	_, e2 := Parse("", []byte("ac"))
	if e1 != nil || e2 != nil {
		fmt.Println("defect present: optimized grammar rejects ab/ac:", e1, e2)
		os.Exit(0)
	}
	fmt.Println("defect gone")
	os.Exit(1)
}
