#!/bin/bash
# usage: run.sh <pigeon source tree>
# exits 0 when the violation is observed, 1 when it is not, 2 on setup problems
export GOFLAGS=-mod=mod GOPROXY=off GOSUMDB=off GOTOOLCHAIN=local
GO=${GO:-go1.26}
src=${1:?usage: run.sh <pigeon source tree>}
here=$(cd "$(dirname "$0")" && pwd)
tmp=$(mktemp -d)
trap 'rm -rf "$tmp"' EXIT
(cd "$src" && $GO build -o "$tmp/pigeon" .) || exit 2
mkdir "$tmp/demo"
printf 'module demo\n\ngo 1.25\n' > "$tmp/demo/go.mod"
cp "$here/main.go" "$tmp/demo/main.go"
"$tmp/pigeon" -support-left-recursion -o "$tmp/demo/parser.go" "$here/grammar.peg" || exit 2
(cd "$tmp/demo" && $GO build -o demo .) || exit 2
timeout 60 "$tmp/demo/demo"
