#!/bin/sh
# usage: run.sh <pigeon source tree>
# exit 0: violation observed, exit 1: not observed (or the tooling failed)
set -u
SRC=${1:?usage: run.sh <pigeon source tree>}
export GOFLAGS=-mod=mod GOPROXY=off GOSUMDB=off GOTOOLCHAIN=local
GO=${GO:-go1.26}
HERE=$(cd "$(dirname "$0")" && pwd)
W=$(mktemp -d)
trap 'rm -rf "$W"' EXIT
(cd "$SRC" && $GO build -o "$W/pigeon" .) || { echo "cannot build pigeon"; exit 1; }
P="$W/pigeon"

# gen_build <dir> <grammar> <flags...>: generate a parser and build $W/<dir>/demo.
# memoOpts() yields Memoize(true) unless the parser is built with -optimize-parser
# (which removes the option).
gen_build() {
	d="$W/$1"; g="$2"; shift 2
	mkdir -p "$d"
	printf 'module demo\n\ngo 1.25\n' > "$d/go.mod"
	cp "$HERE/main.go" "$d/main.go"
	case " $* " in
	*" -optimize-parser "*) printf 'package main\n\nfunc memoOpts() []Option { return nil }\n' > "$d/memo.go" ;;
	*) printf 'package main\n\nfunc memoOpts() []Option { return []Option{Memoize(true)} }\n' > "$d/memo.go" ;;
	esac
	"$P" "$@" -o "$d/parser.go" "$g" || return 1
	(cd "$d" && $GO build -o demo .) || return 1
}

# finding 6: rule references at the start of a recovery expression are counted as being at the
# start of the rule, although a recovery expression only runs where the label is thrown.
seen=0
for g in recover_rec recover_nothrow; do
	OUT=$("$P" -o "$W/$g.go" "$HERE/$g.peg" 2>&1); rc=$?
	echo "$g.peg: exit $rc $OUT"
	[ $rc != 0 ] && echo "$OUT" | grep -q "left recursion" && seen=$((seen+1))
done
# with the flag the grammar builds; show that A really is re-entered only after consuming input
gen_build lr "$HERE/recover_rec.peg" -support-left-recursion || exit 1
"$W/lr/demo" plain aab ab
if [ $seen = 2 ]; then
	echo "VIOLATION: grammars without a same-position cycle rejected with 'grammar contains left recursion'"
	exit 0
fi
echo "not observed"
exit 1
