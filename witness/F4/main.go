package main

import (
	"fmt"
	"os"
)

// F4 (C06): the memo key is (expression, offset) only, but the answer of a code predicate depends on the labels
// in scope. S <- a:[x]* ( &{len(a)==0} "y" ) is evaluated at offset 0 (a = [x]: the predicate says no) and, in
// the second alternative of Top, at offset 1 (a = []: it would say yes) -- but the group ( &{..} "y" ) sits at
// offset 1 both times, so with Memoize(true) the second evaluation is a memo hit carrying the stale "no".
// Defect present iff the default parse succeeds and the memoized one fails.
func main() {
	_, e1 := Parse("", []byte("xy"))
	_, e2 := Parse("", []byte("xy"), Memoize(true))
	if e1 == nil && e2 != nil {
		fmt.Println("defect present: default parse succeeds, Memoize(true) fails:", e2)
		os.Exit(0)
	}
	if e1 == nil && e2 == nil {
		fmt.Println("defect gone: both succeed")
		os.Exit(1)
	}
	fmt.Println("unexpected:", e1, e2)
	os.Exit(3)
}
