package main

// Loading and type-checking of the Go code under verification.

import (
	"fmt"
	"go/ast"
	"go/build"
	"go/importer"
	"go/parser"
	"go/token"
	"go/types"
	"os"
	"path/filepath"
	"sort"
	"strings"
)

type Pkg struct {
	Name    string // display name: rt[o0b0l0s0], ast, builder, main
	Dir     string
	Fset    *token.FileSet
	Files   []*ast.File
	Info    *types.Info
	Types   *types.Package
	Funcs   map[string]*ast.FuncDecl
	Flags   map[string]bool
	SrcHash map[string]string // func key -> hash of printed body
	Closures map[string]*Closure // "<Func>$<var>" -> local closure (closures.go)
}

type chainImporter struct {
	known map[string]*types.Package
	src   types.Importer
}

func (c *chainImporter) Import(path string) (*types.Package, error) {
	if p, ok := c.known[path]; ok {
		return p, nil
	}
	return c.src.Import(path)
}

func (c *chainImporter) ImportFrom(path, dir string, mode types.ImportMode) (*types.Package, error) {
	if p, ok := c.known[path]; ok {
		return p, nil
	}
	if f, ok := c.src.(types.ImporterFrom); ok {
		return f.ImportFrom(path, dir, mode)
	}
	return c.src.Import(path)
}

var repoRoot = "/repo"

type Loader struct {
	Fset *token.FileSet
	imp  *chainImporter
}

func NewLoader() *Loader {
	fset := token.NewFileSet()
	// the source importer honours build.Default; make sure the verif tag is off
	// module-aware lookups of the source importer (x/tools for package main) run `go list` in /repo
	for k, v := range map[string]string{"GOFLAGS": "-mod=mod", "GOPROXY": "off", "GOSUMDB": "off", "GOTOOLCHAIN": "local", "CGO_ENABLED": "0"} {
		os.Setenv(k, v)
	}
	build.Default.Dir = repoRoot
	return &Loader{Fset: fset, imp: &chainImporter{known: map[string]*types.Package{}, src: importer.ForCompiler(fset, "source", nil)}}
}

// LoadDir parses the non-test Go files of dir (honouring //go:build constraints with no
// extra tags) and type-checks them as package path pkgPath.
func (l *Loader) LoadDir(dir, pkgPath, display string, only []string) (*Pkg, error) {
	ents, err := os.ReadDir(dir)
	if err != nil {
		return nil, err
	}
	var files []*ast.File
	var names []string
	for _, e := range ents {
		n := e.Name()
		if e.IsDir() || !strings.HasSuffix(n, ".go") || strings.HasSuffix(n, "_test.go") {
			continue
		}
		if len(only) > 0 {
			ok := false
			for _, o := range only {
				if o == n {
					ok = true
				}
			}
			if !ok {
				continue
			}
		}
		match, err := build.Default.MatchFile(dir, n)
		if err != nil || !match {
			continue
		}
		names = append(names, n)
	}
	sort.Strings(names)
	for _, n := range names {
		f, err := parser.ParseFile(l.Fset, filepath.Join(dir, n), nil, parser.ParseComments|parser.SkipObjectResolution)
		if err != nil {
			return nil, err
		}
		files = append(files, f)
	}
	if len(files) == 0 {
		return nil, fmt.Errorf("no Go files in %s", dir)
	}
	info := &types.Info{
		Types:      map[ast.Expr]types.TypeAndValue{},
		Defs:       map[*ast.Ident]types.Object{},
		Uses:       map[*ast.Ident]types.Object{},
		Selections: map[*ast.SelectorExpr]*types.Selection{},
		Implicits:  map[ast.Node]types.Object{},
		Scopes:     map[ast.Node]*types.Scope{},
	}
	var terrs []string
	conf := types.Config{Importer: l.imp, Error: func(err error) { terrs = append(terrs, err.Error()) }}
	tp, _ := conf.Check(pkgPath, l.Fset, files, info)
	if len(terrs) > 0 {
		return nil, fmt.Errorf("type errors in %s: %s", dir, strings.Join(terrs, "; "))
	}
	l.imp.known[pkgPath] = tp
	p := &Pkg{Name: display, Dir: dir, Fset: l.Fset, Files: files, Info: info, Types: tp, Funcs: map[string]*ast.FuncDecl{}, SrcHash: map[string]string{}, Closures: map[string]*Closure{}}
	for _, f := range files {
		for _, d := range f.Decls {
			fd, ok := d.(*ast.FuncDecl)
			if !ok {
				continue
			}
			p.Funcs[funcKey(fd)] = fd
			for ck, c := range findClosures(fd, funcKey(fd)) {
				p.Closures[ck] = c
				p.Funcs[ck] = &ast.FuncDecl{Name: ast.NewIdent(ck), Type: c.Lit.Type, Body: c.Lit.Body}
			}
			// "<Func>$lit": the function literal returned by <Func> (option constructors), verifiable on its own
			if fd.Body != nil && fd.Recv == nil {
				for _, st := range fd.Body.List {
					if r, ok := st.(*ast.ReturnStmt); ok && len(r.Results) == 1 {
						if lit, ok := r.Results[0].(*ast.FuncLit); ok {
							p.Funcs[funcKey(fd)+"$lit"] = &ast.FuncDecl{Name: ast.NewIdent(funcKey(fd) + "$lit"), Type: lit.Type, Body: lit.Body}
						}
					}
				}
			}
		}
	}
	return p, nil
}

func funcKey(fd *ast.FuncDecl) string {
	if fd.Recv != nil && len(fd.Recv.List) == 1 {
		t := fd.Recv.List[0].Type
		if s, ok := t.(*ast.StarExpr); ok {
			t = s.X
		}
		if id, ok := t.(*ast.Ident); ok {
			return id.Name + "." + fd.Name.Name
		}
	}
	return fd.Name.Name
}
