package main

// Local closures: a function literal bound to a local variable of a function (`dfs = func(v string) ... { ... dfs(w) ... }`),
// possibly recursive, is verified as a function of its own, keyed "<Func>$<var>":
//   - local variables of the enclosing function that the literal only READS are leading parameters of the closure's
//     contract (named as in the source, in declaration order); a call passes their values at the time of the call
//     (Go closures capture by reference and the literal is only ever invoked by name);
//   - local variables of the enclosing function that some literal ASSIGNS are "cells": in the enclosing function and in
//     the literal they live in a heap location of their own (like a package-level variable), the closure's contract lists
//     them under `modifies` and speaks about them by name (`old(stack)`, `stack`).
// A call `dfs(w)` is then an ordinary call by contract, also inside the literal itself (recursion).

import (
	"go/ast"
	"go/token"
	"go/types"
	"sort"
)

type Closure struct {
	Outer    *ast.FuncDecl
	OuterKey string
	Lit      *ast.FuncLit
	Name     *ast.Ident
}

func findClosures(fd *ast.FuncDecl, key string) map[string]*Closure {
	out := map[string]*Closure{}
	if fd.Body == nil {
		return out
	}
	add := func(id *ast.Ident, e ast.Expr) {
		if lit, ok := e.(*ast.FuncLit); ok && id != nil && id.Name != "_" {
			k := key + "$" + id.Name
			if _, dup := out[k]; !dup {
				out[k] = &Closure{Outer: fd, OuterKey: key, Lit: lit, Name: id}
			}
		}
	}
	ast.Inspect(fd.Body, func(n ast.Node) bool {
		switch x := n.(type) {
		case *ast.AssignStmt:
			if len(x.Lhs) == len(x.Rhs) {
				for i := range x.Lhs {
					if id, ok := x.Lhs[i].(*ast.Ident); ok {
						add(id, x.Rhs[i])
					}
				}
			}
		case *ast.ValueSpec:
			if len(x.Names) == len(x.Values) {
				for i := range x.Names {
					add(x.Names[i], x.Values[i])
				}
			}
		}
		return true
	})
	return out
}

func (fx *FnCtx) varOf(id *ast.Ident) *types.Var {
	if o, ok := fx.pkg.Info.Defs[id].(*types.Var); ok && o != nil {
		return o
	}
	if o, ok := fx.pkg.Info.Uses[id].(*types.Var); ok {
		return o
	}
	return nil
}

// setupClosures computes, for the function `outer` (the function being verified or the function enclosing the literal
// being verified), the closure variables, the cells and the read-only captures of every local closure.
func (fx *FnCtx) setupClosures(outer *ast.FuncDecl, outerKey string) {
	fx.cells = map[*types.Var]string{}
	fx.ownCells = map[string]bool{}
	fx.closureOf = map[*types.Var]string{}
	fx.closureRO = map[string][]*types.Var{}
	var keys []string
	for k, c := range fx.pkg.Closures {
		if c.Outer == outer {
			keys = append(keys, k)
		}
	}
	if len(keys) == 0 {
		return
	}
	sort.Strings(keys)
	for _, k := range keys {
		if v := fx.varOf(fx.pkg.Closures[k].Name); v != nil {
			fx.closureOf[v] = k
		}
	}
	inOuter := func(v *types.Var) bool {
		return v != nil && !v.IsField() && v.Pos() >= outer.Pos() && v.Pos() < outer.End()
	}
	captured := map[string]map[*types.Var]bool{}
	assigned := map[*types.Var]bool{}
	for _, k := range keys {
		c := fx.pkg.Closures[k]
		captured[k] = map[*types.Var]bool{}
		inLit := func(v *types.Var) bool { return v.Pos() >= c.Lit.Pos() && v.Pos() < c.Lit.End() }
		markAssigned := func(e ast.Expr) {
			if id, ok := ast.Unparen(e).(*ast.Ident); ok {
				if v, ok := fx.pkg.Info.Uses[id].(*types.Var); ok && inOuter(v) && !inLit(v) {
					assigned[v] = true
				}
			}
		}
		ast.Inspect(c.Lit.Body, func(n ast.Node) bool {
			switch x := n.(type) {
			case *ast.Ident:
				if v, ok := fx.pkg.Info.Uses[x].(*types.Var); ok && inOuter(v) && !inLit(v) {
					captured[k][v] = true
				}
			case *ast.AssignStmt:
				for _, l := range x.Lhs {
					markAssigned(l)
				}
			case *ast.IncDecStmt:
				markAssigned(x.X)
			case *ast.RangeStmt:
				if x.Tok == token.ASSIGN {
					if x.Key != nil {
						markAssigned(x.Key)
					}
					if x.Value != nil {
						markAssigned(x.Value)
					}
				}
			case *ast.UnaryExpr:
				if x.Op == token.AND {
					markAssigned(x.X) // address taken: treated as written
				}
			}
			return true
		})
	}
	for v := range assigned {
		if _, isClosure := fx.closureOf[v]; isClosure {
			fx.fail("closure variable %s is reassigned inside a closure", v.Name())
		}
		if fx.pkg.Types.Scope().Lookup(v.Name()) != nil {
			fx.fail("captured variable %s shares its name with a package-level object", v.Name())
		}
		h := globalHeap(v.Name())
		fx.cells[v] = h
		if fx.decl == outer {
			fx.ownCells[h] = true
		}
	}
	for _, k := range keys {
		var ro []*types.Var
		for v := range captured[k] {
			if _, isCell := fx.cells[v]; isCell {
				continue
			}
			if _, isClosure := fx.closureOf[v]; isClosure {
				continue
			}
			ro = append(ro, v)
		}
		sort.Slice(ro, func(i, j int) bool { return ro[i].Pos() < ro[j].Pos() })
		fx.closureRO[k] = ro
	}
}

// defIdent finds the identifier that declares v inside outer (parameters included).
func (fx *FnCtx) defIdent(outer *ast.FuncDecl, v *types.Var) *ast.Ident {
	var found *ast.Ident
	ast.Inspect(outer, func(n ast.Node) bool {
		if id, ok := n.(*ast.Ident); ok && found == nil {
			if o, ok := fx.pkg.Info.Defs[id].(*types.Var); ok && o == v {
				found = id
			}
		}
		return found == nil
	})
	return found
}

func (fx *FnCtx) cellRead(heap map[string]string, v *types.Var) (Val, bool) {
	h, ok := fx.cells[v]
	if !ok {
		return Val{}, false
	}
	s := fx.sc.SortOf(v.Type())
	return Val{fx.heapArr(heap, h, s), s, v.Type()}, true
}

func (fx *FnCtx) cellByName(name string) *types.Var {
	for v := range fx.cells {
		if v.Name() == name {
			return v
		}
	}
	return nil
}
