package main

// Contract language: lexer, expression parser and contract-file parser.
//
// Contracts live in comment-only Go files (build tag verif) as lines starting
// with "//@". See DESIGN.md §4.

import (
	"regexp"
	"fmt"
	"os"
	"path/filepath"
	"sort"
	"strconv"
	"strings"
	"unicode"
)

// ---------- spec expression AST ----------

type SExpr interface{ String() string }

type (
	SIdent  struct{ Name string }
	SInt    struct{ V string }
	SStr    struct{ V string } // unquoted value
	SBool   struct{ V bool }
	SNil    struct{}
	SUnary  struct {
		Op string
		X  SExpr
	}
	SBinary struct {
		Op   string
		X, Y SExpr
	}
	SSel struct {
		X    SExpr
		Name string
	}
	SIndex struct{ X, I SExpr }
	SSlice struct{ X, Lo, Hi SExpr } // Lo/Hi may be nil
	SCall  struct {
		Fn   string
		Args []SExpr
	}
	SOld   struct{ X SExpr }
	SQuant struct {
		Forall bool
		Vars   []SVar
		Body   SExpr
		Pats   []SExpr // optional explicit triggers
		AltPats [][]SExpr
	}
	SDeref struct{ X SExpr } // *x
	SIte   struct{ C, A, B SExpr }
)

type SVar struct{ Name, Type string }

func (e *SIdent) String() string  { return e.Name }
func (e *SInt) String() string    { return e.V }
func (e *SStr) String() string    { return strconv.Quote(e.V) }
func (e *SBool) String() string   { return fmt.Sprint(e.V) }
func (e *SNil) String() string    { return "nil" }
func (e *SUnary) String() string  { return e.Op + e.X.String() }
func (e *SBinary) String() string { return "(" + e.X.String() + " " + e.Op + " " + e.Y.String() + ")" }
func (e *SSel) String() string    { return e.X.String() + "." + e.Name }
func (e *SIndex) String() string  { return e.X.String() + "[" + e.I.String() + "]" }
func (e *SSlice) String() string {
	s := e.X.String() + "["
	if e.Lo != nil {
		s += e.Lo.String()
	}
	s += ":"
	if e.Hi != nil {
		s += e.Hi.String()
	}
	return s + "]"
}
func (e *SCall) String() string {
	var a []string
	for _, x := range e.Args {
		a = append(a, x.String())
	}
	return e.Fn + "(" + strings.Join(a, ", ") + ")"
}
func (e *SOld) String() string { return "old(" + e.X.String() + ")" }
func (e *SQuant) String() string {
	q := "exists"
	if e.Forall {
		q = "forall"
	}
	var v []string
	for _, x := range e.Vars {
		v = append(v, x.Name+" "+x.Type)
	}
	return "(" + q + " " + strings.Join(v, ", ") + " :: " + e.Body.String() + ")"
}
func (e *SDeref) String() string { return "*" + e.X.String() }
func (e *SIte) String() string {
	return "ite(" + e.C.String() + ", " + e.A.String() + ", " + e.B.String() + ")"
}

// ---------- lexer ----------

type tok struct {
	k string // "id","int","str","op","eof"
	v string
}

func lexSpec(s string) ([]tok, error) {
	var out []tok
	i := 0
	for i < len(s) {
		c := s[i]
		switch {
		case c == ' ' || c == '\t' || c == '\n':
			i++
		case unicode.IsLetter(rune(c)) || c == '_':
			j := i
			for j < len(s) && (unicode.IsLetter(rune(s[j])) || unicode.IsDigit(rune(s[j])) || s[j] == '_') {
				j++
			}
			out = append(out, tok{"id", s[i:j]})
			i = j
		case c >= '0' && c <= '9':
			j := i
			for j < len(s) && (s[j] >= '0' && s[j] <= '9' || s[j] == 'x' || s[j] >= 'a' && s[j] <= 'f' || s[j] >= 'A' && s[j] <= 'F') {
				j++
			}
			v, err := strconv.ParseInt(s[i:j], 0, 64)
			if err != nil {
				u, err2 := strconv.ParseUint(s[i:j], 0, 64)
				if err2 != nil {
					return nil, fmt.Errorf("bad int %q", s[i:j])
				}
				out = append(out, tok{"int", strconv.FormatUint(u, 10)})
			} else {
				out = append(out, tok{"int", strconv.FormatInt(v, 10)})
			}
			i = j
		case c == '"':
			j := i + 1
			for j < len(s) && s[j] != '"' {
				if s[j] == '\\' {
					j++
				}
				j++
			}
			if j >= len(s) {
				return nil, fmt.Errorf("unterminated string")
			}
			v, err := strconv.Unquote(s[i : j+1])
			if err != nil {
				return nil, err
			}
			out = append(out, tok{"str", v})
			i = j + 1
		case c == '\'':
			j := i + 1
			for j < len(s) && s[j] != '\'' {
				if s[j] == '\\' {
					j++
				}
				j++
			}
			v, _, _, err := strconv.UnquoteChar(s[i+1:j], '\'')
			if err != nil {
				return nil, err
			}
			out = append(out, tok{"int", strconv.Itoa(int(v))})
			i = j + 1
		default:
			ops := []string{"==>", "<==>", "::", "==", "!=", "<=", ">=", "&&", "||", "+", "-", "*", "/", "%", "<", ">", "!", "(", ")", "[", "]", ".", ",", ":", "{", "}"}
			found := false
			// longest match first
			sort.Slice(ops, func(a, b int) bool { return len(ops[a]) > len(ops[b]) })
			for _, op := range ops {
				if strings.HasPrefix(s[i:], op) {
					out = append(out, tok{"op", op})
					i += len(op)
					found = true
					break
				}
			}
			if !found {
				return nil, fmt.Errorf("unexpected character %q in %q", c, s)
			}
		}
	}
	out = append(out, tok{"eof", ""})
	return out, nil
}

type sparser struct {
	toks []tok
	i    int
	src  string
}

func (p *sparser) peek() tok { return p.toks[p.i] }
func (p *sparser) next() tok { t := p.toks[p.i]; p.i++; return t }
func (p *sparser) isOp(v string) bool {
	t := p.peek()
	return t.k == "op" && t.v == v
}
func (p *sparser) accept(v string) bool {
	if p.isOp(v) {
		p.i++
		return true
	}
	return false
}
func (p *sparser) expect(v string) {
	if !p.accept(v) {
		panic(fmt.Errorf("spec parse: expected %q at token %d (%v) in %q", v, p.i, p.peek(), p.src))
	}
}

func parseSpecExpr(s string) (e SExpr, err error) {
	toks, err := lexSpec(s)
	if err != nil {
		return nil, err
	}
	p := &sparser{toks: toks, src: s}
	defer func() {
		if r := recover(); r != nil {
			if er, ok := r.(error); ok {
				err = er
				return
			}
			panic(r)
		}
	}()
	e = p.expr()
	if p.peek().k != "eof" {
		return nil, fmt.Errorf("spec parse: trailing tokens at %v in %q", p.peek(), s)
	}
	return e, nil
}

func (p *sparser) expr() SExpr {
	t := p.peek()
	if t.k == "id" && (t.v == "forall" || t.v == "exists") {
		p.next()
		q := &SQuant{Forall: t.v == "forall"}
		for {
			n := p.next()
			if n.k != "id" {
				panic(fmt.Errorf("spec parse: quantifier variable expected in %q", p.src))
			}
			ty := p.typ()
			q.Vars = append(q.Vars, SVar{n.v, ty})
			if !p.accept(",") {
				break
			}
		}
		p.expect("::")
		// optional triggers: {e1, e2} is one multi-pattern; several groups {..} {..} are alternatives
		for p.isOp("{") {
			p.next()
			var grp []SExpr
			for {
				grp = append(grp, p.expr())
				if !p.accept(",") {
					break
				}
			}
			p.expect("}")
			if len(q.Pats) == 0 {
				q.Pats = grp
			} else {
				q.AltPats = append(q.AltPats, grp)
			}
		}
		q.Body = p.expr()
		return q
	}
	return p.iff()
}

// typ parses a small subset of Go type syntax and returns it as a string.
func (p *sparser) typ() string {
	s := ""
	for {
		if p.accept("*") {
			s += "*"
			continue
		}
		if p.isOp("[") {
			p.next()
			p.expect("]")
			s += "[]"
			continue
		}
		break
	}
	n := p.next()
	if n.k != "id" {
		panic(fmt.Errorf("spec parse: type expected in %q", p.src))
	}
	s += n.v
	if n.v == "map" || n.v == "arr" {
		p.expect("[")
		k := p.typ()
		p.expect("]")
		v := p.typ()
		s += "[" + k + "]" + v
	}
	if n.v == "set" {
		p.expect("[")
		k := p.typ()
		p.expect("]")
		s += "[" + k + "]"
	}
	if p.accept(".") {
		m := p.next()
		s += "." + m.v
	}
	return s
}

func (p *sparser) iff() SExpr {
	x := p.impl()
	for p.accept("<==>") {
		y := p.impl()
		x = &SBinary{"<==>", x, y}
	}
	return x
}

func (p *sparser) impl() SExpr {
	x := p.or()
	if p.accept("==>") {
		y := p.implRHS()
		return &SBinary{"==>", x, y}
	}
	return x
}

func (p *sparser) implRHS() SExpr {
	t := p.peek()
	if t.k == "id" && (t.v == "forall" || t.v == "exists") {
		return p.expr()
	}
	return p.impl()
}

func (p *sparser) or() SExpr {
	x := p.and()
	for p.accept("||") {
		x = &SBinary{"||", x, p.and()}
	}
	return x
}
func (p *sparser) and() SExpr {
	x := p.cmp()
	for p.accept("&&") {
		x = &SBinary{"&&", x, p.cmp()}
	}
	return x
}
func (p *sparser) cmp() SExpr {
	x := p.add()
	for _, op := range []string{"==", "!=", "<=", ">=", "<", ">"} {
		if p.accept(op) {
			return &SBinary{op, x, p.add()}
		}
	}
	return x
}
func (p *sparser) add() SExpr {
	x := p.mul()
	for {
		if p.accept("+") {
			x = &SBinary{"+", x, p.mul()}
		} else if p.accept("-") {
			x = &SBinary{"-", x, p.mul()}
		} else {
			return x
		}
	}
}
func (p *sparser) mul() SExpr {
	x := p.unary()
	for {
		if p.accept("*") {
			x = &SBinary{"*", x, p.unary()}
		} else if p.accept("/") {
			x = &SBinary{"/", x, p.unary()}
		} else if p.accept("%") {
			x = &SBinary{"%", x, p.unary()}
		} else {
			return x
		}
	}
}
func (p *sparser) unary() SExpr {
	if p.accept("!") {
		return &SUnary{"!", p.unary()}
	}
	if p.accept("-") {
		return &SUnary{"-", p.unary()}
	}
	if p.accept("*") {
		return &SDeref{p.unary()}
	}
	return p.postfix()
}
func (p *sparser) postfix() SExpr {
	x := p.primary()
	for {
		switch {
		case p.accept("."):
			n := p.next()
			if n.k != "id" {
				panic(fmt.Errorf("spec parse: field name expected in %q", p.src))
			}
			x = &SSel{x, n.v}
		case p.accept("["):
			if p.accept(":") {
				hi := p.expr()
				p.expect("]")
				x = &SSlice{x, nil, hi}
				continue
			}
			i := p.expr()
			if p.accept(":") {
				var hi SExpr
				if !p.isOp("]") {
					hi = p.expr()
				}
				p.expect("]")
				x = &SSlice{x, i, hi}
				continue
			}
			p.expect("]")
			x = &SIndex{x, i}
		default:
			return x
		}
	}
}
func (p *sparser) primary() SExpr {
	t := p.next()
	switch t.k {
	case "int":
		return &SInt{t.v}
	case "str":
		return &SStr{t.v}
	case "id":
		switch t.v {
		case "true":
			return &SBool{true}
		case "false":
			return &SBool{false}
		case "nil":
			return &SNil{}
		case "forall", "exists":
			p.i--
			return p.expr()
		case "old":
			p.expect("(")
			x := p.expr()
			p.expect(")")
			return &SOld{x}
		case "ite":
			p.expect("(")
			c := p.expr()
			p.expect(",")
			a := p.expr()
			p.expect(",")
			b := p.expr()
			p.expect(")")
			return &SIte{c, a, b}
		}
		if p.accept("(") {
			c := &SCall{Fn: t.v}
			if !p.accept(")") {
				for {
					c.Args = append(c.Args, p.expr())
					if !p.accept(",") {
						break
					}
				}
				p.expect(")")
			}
			return c
		}
		return &SIdent{t.v}
	case "op":
		if t.v == "(" {
			x := p.expr()
			p.expect(")")
			return x
		}
	}
	panic(fmt.Errorf("spec parse: unexpected token %v in %q", t, p.src))
}

// ---------- contract files ----------

type Clause struct {
	Kind  string // requires, ensures, invariant, decreases, assert, panics
	Label string
	Tags  []string // property ids
	Expr  SExpr
	Guard SExpr // must-call: path condition (final state) under which a matching call is demanded
	Src   string
	Callee string
	Loop  int // for invariant/decreases: loop ordinal (1-based)
	File  string
	Line  int
}

type ModItem struct {
	Src  string
	Expr SExpr // x.f, *x, mapof(x), G (global), or nil for wildcard items
	// wildcard forms: "T.f" with T a struct type name written as `any T.f` -> all objects
	AllOf string // "T.f": whole field of struct T; "deref:<gotype>"; "map:<gotype>"
}

type FuncContract struct {
	Key       string // "recv.name" or "name"
	Header    string
	Params    []SVar // names (types informational)
	Results   []SVar
	Requires  []*Clause
	Ensures   []*Clause
	Modifies  []ModItem
	HasMod    bool
	Loops     map[int][]*Clause
	LoopMods  map[int][]ModItem
	Panics    []*Clause // conditions under which the function may panic (exceptional postconditions)
	Trusted   bool      // contract assumed, body not verified (extern)
	Pure      bool
	SafetyTag []string
	FrameTag  []string
	NoSafety  bool
	File      string
	Line      int
	Lemmas    []string
	CallAsserts map[string][]*Clause
	RawCapacity bool
	StmtAsserts map[string][]*Clause
	MustCalls   []*Clause
	AllCalls    []*Clause
	NoReturn    bool
}

type SpecFunc struct {
	Name    string
	Params  []SVar
	Result  string
	Body    SExpr // nil for uninterpreted
	IsPred  bool  // macro (expanded in current state)
	File    string
}

type Axiom struct {
	Name string
	Expr SExpr
	Src  string
	Uses []string // filled lazily: spec function names used
}

type Lemma struct {
	Name     string
	Tags     []string
	Vars     []SVar
	Requires []SExpr
	Ensures  SExpr
	Src      string
	NoAxioms bool
}

type GhostVar struct{ Name, Type string }

type Contracts struct {
	OwnPkg string // name of the package under verification (for package-qualified func headers)
	Funcs  map[string]*FuncContract
	Specs  map[string]*SpecFunc
	Axioms []*Axiom
	Lemmas []*Lemma
	Ghosts []GhostVar
	Files  []string
	OnlyWriters []OnlyWriter
}

// OnlyWriter: "only-writer <Struct.field> ... : <func> ... [label tags]" -- the listed fields of objects that existed at
// entry are stored DIRECTLY only by the listed functions (other functions may change them through calls only).
type OnlyWriter struct {
	Heaps map[string]bool
	Funcs map[string]bool
	Label string
	Tags  []string
}

// framesets: named modifies lists (textual macros), reset per contract set.
var framesets = map[string]string{}

func NewContracts() *Contracts {
	framesets = map[string]string{}
	return &Contracts{Funcs: map[string]*FuncContract{}, Specs: map[string]*SpecFunc{}}
}

// flags: variant flags for #if lines.
func (cs *Contracts) LoadFile(path string, flags map[string]bool) error {
	trusted := strings.HasPrefix(path, "trusted:")
	path = strings.TrimPrefix(path, "trusted:")
	if trusted {
		before := map[string]bool{}
		for k := range cs.Funcs {
			before[k] = true
		}
		defer func() {
			for k, fc := range cs.Funcs {
				if !before[k] {
					fc.Trusted = true
				}
			}
		}()
	}
	data, err := os.ReadFile(path)
	if err != nil {
		return err
	}
	cs.Files = append(cs.Files, path)
	base := filepath.Base(path)
	lines := strings.Split(string(data), "\n")
	// join continuation lines: a "//@" line whose content starts with "   ..."? We use explicit
	// continuation: a line "//@     | text" continues the previous clause.
	type ln struct {
		s string
		n int
	}
	var ls []ln
	for i, l := range lines {
		t := strings.TrimSpace(l)
		if !strings.HasPrefix(t, "//@") {
			continue
		}
		c := strings.TrimSpace(strings.TrimPrefix(t, "//@"))
		if c == "" || strings.HasPrefix(c, "//") {
			continue
		}
		if strings.HasPrefix(c, "|") {
			if len(ls) == 0 {
				return fmt.Errorf("%s:%d: continuation without clause", path, i+1)
			}
			ls[len(ls)-1].s += " " + strings.TrimSpace(c[1:])
			continue
		}
		ls = append(ls, ln{c, i + 1})
	}
	var cur *FuncContract
	var skipStack []bool
	skipping := func() bool {
		for _, s := range skipStack {
			if s {
				return true
			}
		}
		return false
	}
	for _, l := range ls {
		s := l.s
		fail := func(e error) error { return fmt.Errorf("%s:%d: %v", path, l.n, e) }
		if strings.HasPrefix(s, "#if ") {
			cond := strings.TrimSpace(s[4:])
			v, err := evalFlagCond(cond, flags)
			if err != nil {
				return fail(err)
			}
			skipStack = append(skipStack, !v)
			continue
		}
		if s == "#else" {
			if len(skipStack) == 0 {
				return fail(fmt.Errorf("#else without #if"))
			}
			skipStack[len(skipStack)-1] = !skipStack[len(skipStack)-1]
			continue
		}
		if s == "#endif" {
			if len(skipStack) == 0 {
				return fail(fmt.Errorf("#endif without #if"))
			}
			skipStack = skipStack[:len(skipStack)-1]
			continue
		}
		if skipping() {
			continue
		}
		word, rest := splitWord(s)
		switch word {
		case "func", "extern":
			fc, err := parseFuncHeader(rest)
			if err != nil {
				return fail(err)
			}
			fc.File, fc.Line = base, l.n
			fc.Trusted = word == "extern"
			// "func <pkg>.<Name>(...)" written in the contract file of package <pkg> itself: the local function <Name>
			// under a package-qualified key, so that it cannot clash with a function of the same name in a package
			// that loads these contracts (ast.Optimize / builder.Optimize)
			if word == "func" && cs.OwnPkg != "" && !trusted && strings.HasPrefix(fc.Key, cs.OwnPkg+".") && !strings.HasPrefix(strings.TrimSpace(rest), "(") {
				fc.Key = strings.TrimPrefix(fc.Key, cs.OwnPkg+".")
			}
			if _, dup := cs.Funcs[fc.Key]; dup {
				return fail(fmt.Errorf("duplicate contract for %s", fc.Key))
			}
			cs.Funcs[fc.Key] = fc
			cur = fc
		case "spec", "pred":
			sf, err := parseSpecFunc(rest, word == "pred")
			if err != nil {
				return fail(err)
			}
			sf.File = base
			if _, dup := cs.Specs[sf.Name]; dup {
				return fail(fmt.Errorf("duplicate spec func %s", sf.Name))
			}
			cs.Specs[sf.Name] = sf
			cur = nil
		case "axiom":
			i := strings.Index(rest, ":")
			if i < 0 {
				return fail(fmt.Errorf("axiom needs a name"))
			}
			e, err := parseSpecExpr(rest[i+1:])
			if err != nil {
				return fail(err)
			}
			cs.Axioms = append(cs.Axioms, &Axiom{Name: strings.TrimSpace(rest[:i]), Expr: e, Src: rest[i+1:]})
			cur = nil
		case "lemma":
			lm, err := parseLemma(rest)
			if err != nil {
				return fail(err)
			}
			cs.Lemmas = append(cs.Lemmas, lm)
			cur = nil
		case "frameset":
			i := strings.Index(rest, "=")
			if i < 0 {
				return fail(fmt.Errorf("frameset Name = items"))
			}
			framesets[strings.TrimSpace(rest[:i])] = strings.TrimSpace(rest[i+1:])
			cur = nil
		case "only-writer":
			// only-writer parser.maxFailPos parser.maxFailExpected : parser.failAt [far-writer C12]
			i := strings.Index(rest, " : ")
			if i >= 0 {
				i++
			}
			j := strings.LastIndex(rest, "[")
			if i < 0 || j < i || !strings.HasSuffix(strings.TrimSpace(rest), "]") {
				return fail(fmt.Errorf("only-writer <Struct.field> ... : <func> ... [label tags]"))
			}
			ow := OnlyWriter{Heaps: map[string]bool{}, Funcs: map[string]bool{}}
			for _, f := range strings.Fields(rest[:i]) {
				if strings.HasPrefix(f, "heap:") {
					ow.Heaps[strings.TrimPrefix(f, "heap:")] = true // a heap array by its name (pointees: P_<sort>)
					continue
				}
				k := strings.Index(f, ".")
				if k <= 0 {
					return fail(fmt.Errorf("only-writer: field %q must be Struct.field", f))
				}
				ow.Heaps[fieldHeap(f[:k], f[k+1:])] = true
			}
			for _, f := range strings.Fields(rest[i+1 : j]) {
				ow.Funcs[f] = true
			}
			lt := strings.Fields(strings.TrimSuffix(strings.TrimSpace(rest[j+1:]), "]"))
			if len(lt) < 2 {
				return fail(fmt.Errorf("only-writer: [label tag ...]"))
			}
			ow.Label, ow.Tags = lt[0], lt[1:]
			cs.OnlyWriters = append(cs.OnlyWriters, ow)
			cur = nil
		case "ghost":
			w2, r2 := splitWord(rest)
			if w2 != "var" {
				return fail(fmt.Errorf("ghost var expected"))
			}
			n, ty := splitWord(r2)
			cs.Ghosts = append(cs.Ghosts, GhostVar{n, strings.TrimSpace(ty)})
			cur = nil
		default:
			if cur == nil {
				return fail(fmt.Errorf("clause %q outside function contract", word))
			}
			if err := parseClause(cur, word, rest, base, l.n); err != nil {
				return fail(err)
			}
		}
	}
	if len(skipStack) != 0 {
		return fmt.Errorf("%s: unterminated #if", path)
	}
	return nil
}

func evalFlagCond(c string, flags map[string]bool) (bool, error) {
	// disjunction of conjunctions of possibly negated flags: a && !b || c
	for _, d := range strings.Split(c, "||") {
		all := true
		for _, f := range strings.Split(d, "&&") {
			f = strings.TrimSpace(f)
			neg := false
			for strings.HasPrefix(f, "!") {
				neg = !neg
				f = strings.TrimSpace(f[1:])
			}
			v, ok := flags[f]
			if !ok {
				return false, fmt.Errorf("unknown variant flag %q", f)
			}
			if v == neg {
				all = false
			}
		}
		if all {
			return true, nil
		}
	}
	return false, nil
}

func splitWord(s string) (string, string) {
	s = strings.TrimSpace(s)
	i := strings.IndexAny(s, " \t")
	if i < 0 {
		return s, ""
	}
	return s[:i], strings.TrimSpace(s[i+1:])
}

// parseFuncHeader parses "(p *parser) read()" / "BasicLatinLookup(chars []rune, ...) (t [128]bool)".
func parseFuncHeader(s string) (*FuncContract, error) {
	fc := &FuncContract{Header: s, Loops: map[int][]*Clause{}, LoopMods: map[int][]ModItem{}}
	s = strings.TrimSpace(s)
	recv := ""
	if strings.HasPrefix(s, "(") {
		j := strings.Index(s, ")")
		if j < 0 {
			return nil, fmt.Errorf("bad receiver in %q", s)
		}
		r := strings.Fields(s[1:j])
		if len(r) != 2 {
			return nil, fmt.Errorf("receiver must be (name Type) in %q", s)
		}
		fc.Params = append(fc.Params, SVar{r[0], r[1]})
		recv = strings.TrimPrefix(r[1], "*")
		s = strings.TrimSpace(s[j+1:])
	}
	i := strings.Index(s, "(")
	if i < 0 {
		return nil, fmt.Errorf("bad func header %q", s)
	}
	name := strings.TrimSpace(s[:i])
	j := matchParen(s, i)
	if j < 0 {
		return nil, fmt.Errorf("unbalanced parens in %q", s)
	}
	ps, err := parseParamList(s[i+1 : j])
	if err != nil {
		return nil, err
	}
	fc.Params = append(fc.Params, ps...)
	rest := strings.TrimSpace(s[j+1:])
	if rest != "" {
		if strings.HasPrefix(rest, "(") {
			k := matchParen(rest, 0)
			rs, err := parseParamList(rest[1:k])
			if err != nil {
				return nil, err
			}
			fc.Results = rs
		} else {
			fc.Results = []SVar{{"result", rest}}
		}
	}
	if recv != "" {
		fc.Key = recv + "." + name
	} else {
		fc.Key = name
	}
	return fc, nil
}

func matchParen(s string, i int) int {
	d := 0
	for k := i; k < len(s); k++ {
		switch s[k] {
		case '(':
			d++
		case ')':
			d--
			if d == 0 {
				return k
			}
		}
	}
	return -1
}

func parseParamList(s string) ([]SVar, error) {
	s = strings.TrimSpace(s)
	if s == "" {
		return nil, nil
	}
	var out []SVar
	// split on commas at depth 0
	var parts []string
	d, st := 0, 0
	for i := 0; i < len(s); i++ {
		switch s[i] {
		case '(', '[', '{':
			d++
		case ')', ']', '}':
			d--
		case ',':
			if d == 0 {
				parts = append(parts, s[st:i])
				st = i + 1
			}
		}
	}
	parts = append(parts, s[st:])
	var pending []string
	for _, p := range parts {
		p = strings.TrimSpace(p)
		n, ty := splitWord(p)
		if ty == "" {
			pending = append(pending, n)
			continue
		}
		for _, q := range pending {
			out = append(out, SVar{q, ty})
		}
		pending = nil
		out = append(out, SVar{n, ty})
	}
	for _, q := range pending {
		// unnamed single type
		out = append(out, SVar{"", q})
	}
	return out, nil
}

func parseSpecFunc(s string, isPred bool) (*SpecFunc, error) {
	s = strings.TrimSpace(s)
	s = strings.TrimPrefix(s, "func ")
	i := strings.Index(s, "(")
	if i < 0 {
		return nil, fmt.Errorf("bad spec func %q", s)
	}
	j := matchParen(s, i)
	ps, err := parseParamList(s[i+1 : j])
	if err != nil {
		return nil, err
	}
	sf := &SpecFunc{Name: strings.TrimSpace(s[:i]), Params: ps, IsPred: isPred}
	rest := strings.TrimSpace(s[j+1:])
	if k := strings.Index(rest, "="); k >= 0 && !strings.HasPrefix(rest[k:], "==") {
		sf.Result = strings.TrimSpace(rest[:k])
		body, err := parseSpecExpr(rest[k+1:])
		if err != nil {
			return nil, err
		}
		sf.Body = body
	} else {
		sf.Result = rest
	}
	if sf.Result == "" {
		sf.Result = "bool"
	}
	return sf, nil
}

// lemma name [tags]: forall vars :: requires ==> ensures     (plain closed formula)
func parseLemma(s string) (*Lemma, error) {
	i := strings.Index(s, ":")
	if i < 0 {
		return nil, fmt.Errorf("lemma needs a name")
	}
	head := strings.TrimSpace(s[:i])
	lm := &Lemma{Src: s[i+1:]}
	if k := strings.Index(head, "["); k >= 0 {
		tg := strings.TrimSuffix(strings.TrimSpace(head[k+1:]), "]")
		lm.Tags = strings.Fields(tg)
		head = strings.TrimSpace(head[:k])
	}
	lm.Name = head
	e, err := parseSpecExpr(s[i+1:])
	if err != nil {
		return nil, err
	}
	lm.Ensures = e
	return lm, nil
}

func parseLabel(s string) (label string, tags []string, rest string) {
	s = strings.TrimSpace(s)
	if !strings.HasPrefix(s, "[") {
		return "", nil, s
	}
	j := strings.Index(s, "]")
	f := strings.Fields(s[1:j])
	if len(f) > 0 {
		label = f[0]
		tags = f[1:]
	}
	return label, tags, strings.TrimSpace(s[j+1:])
}

func parseClause(fc *FuncContract, word, rest, file string, line int) error {
	loop := 0
	if strings.HasPrefix(word, "loop#") {
		n, err := strconv.Atoi(word[5:])
		if err != nil {
			return fmt.Errorf("bad loop ordinal %q", word)
		}
		loop = n
		word, rest = splitWord(rest)
	}
	switch word {
	case "requires", "ensures", "invariant", "decreases", "panics", "assert":
		label, tags, src := parseLabel(rest)
		e, err := parseSpecExpr(src)
		if err != nil {
			return err
		}
		c := &Clause{Kind: word, Label: label, Tags: tags, Expr: e, Src: src, Loop: loop, File: file, Line: line}
		if label == "" {
			c.Label = fmt.Sprintf("l%d", line)
		}
		switch word {
		case "requires":
			fc.Requires = append(fc.Requires, c)
		case "ensures":
			fc.Ensures = append(fc.Ensures, c)
		case "panics":
			fc.Panics = append(fc.Panics, c)
		default:
			if loop == 0 {
				return fmt.Errorf("%s needs loop#N", word)
			}
			fc.Loops[loop] = append(fc.Loops[loop], c)
		}
	case "modifies":
		// expand framesets
		for round := 0; round < 6; round++ {
			var exp []string
			for _, part := range strings.Split(rest, ",") {
				part = strings.TrimSpace(part)
				if fs, ok := framesets[part]; ok {
					exp = append(exp, fs)
				} else {
					exp = append(exp, part)
				}
			}
			rest = strings.Join(exp, ", ")
		}
		items, err := parseModItems(rest)
		if err != nil {
			return err
		}
		if loop > 0 {
			fc.LoopMods[loop] = append(fc.LoopMods[loop], items...)
		} else {
			fc.HasMod = true
			fc.Modifies = append(fc.Modifies, items...)
		}
	case "before":
		callee, r2 := splitWord(rest)
		w2, r3 := splitWord(r2)
		if w2 != "assert" {
			return fmt.Errorf("before <callee> assert [label] expr")
		}
		label, tags, src := parseLabel(r3)
		e, err := parseSpecExpr(src)
		if err != nil {
			return err
		}
		if fc.CallAsserts == nil {
			fc.CallAsserts = map[string][]*Clause{}
		}
		fc.CallAsserts[callee] = append(fc.CallAsserts[callee], &Clause{Kind: "call-assert", Label: label, Tags: tags, Expr: e, Src: src, File: file, Line: line})
	case "at":
		// at "<first line of a statement>"[#N] assert [label] expr   (#N: the N-th statement with that text, in source order)
		rest = strings.TrimSpace(rest)
		ordSuffix := ""
		if m := regexp.MustCompile(`^("(?:[^"\\]|\\.)*")#(\d+) `).FindStringSubmatch(rest); m != nil {
			ordSuffix = "#" + m[2]
			rest = m[1] + " " + rest[len(m[0]):]
		}
		if !strings.HasPrefix(rest, "\"") {
			return fmt.Errorf("at \"stmt\" assert [label] expr")
		}
		if g := strings.Index(rest[1:], "\" ghost "); g >= 0 && (strings.Index(rest[1:], "\" assert") < 0 || g < strings.Index(rest[1:], "\" assert")) {
			// at "<stmt>" ghost <name> = expr : a ghost value captured immediately before the statement
			key := strings.Join(strings.Fields(unescapeAnchor(rest[1:1+g])), " ") + ordSuffix
			def := strings.TrimSpace(rest[1+g+len("\" ghost "):])
			eq := strings.Index(def, "=")
			if eq <= 0 {
				return fmt.Errorf("at \"stmt\" ghost name = expr")
			}
			name := strings.TrimSpace(def[:eq])
			e, err := parseSpecExpr(strings.TrimSpace(def[eq+1:]))
			if err != nil {
				return err
			}
			if fc.StmtAsserts == nil {
				fc.StmtAsserts = map[string][]*Clause{}
			}
			fc.StmtAsserts[key] = append(fc.StmtAsserts[key], &Clause{Kind: "ghost", Label: name, Expr: e, Src: def, File: file, Line: line})
			break
		}
		j := strings.Index(rest[1:], "\" assert")
		if j < 0 {
			return fmt.Errorf("at \"stmt\" assert [label] expr")
		}
		key := strings.Join(strings.Fields(unescapeAnchor(rest[1:1+j])), " ") + ordSuffix
		label, tags, src := parseLabel(rest[1+j+len("\" assert"):])
		e, err := parseSpecExpr(src)
		if err != nil {
			return err
		}
		if fc.StmtAsserts == nil {
			fc.StmtAsserts = map[string][]*Clause{}
		}
		fc.StmtAsserts[key] = append(fc.StmtAsserts[key], &Clause{Kind: "stmt-assert", Label: label, Tags: tags, Expr: e, Src: src, File: file, Line: line})
	case "noreturn":
		fc.NoReturn = true
	case "all-calls":
		callee, r2 := splitWord(rest)
		label, tags, src := parseLabel(r2)
		e, err := parseSpecExpr(src)
		if err != nil {
			return err
		}
		fc.AllCalls = append(fc.AllCalls, &Clause{Kind: "all-calls", Label: label, Tags: tags, Expr: e, Src: callee + ": " + src, File: file, Line: line, Callee: callee})
	case "must-call":
		// must-call <callee> [label tags] expr   (expr over this function's names and the callee's parameter/result names)
		//   must-call <callee> [label tags] if <guard> then <expr>: only on paths whose final state satisfies guard
		callee, r2 := splitWord(rest)
		label, tags, src := parseLabel(r2)
		var guard SExpr
		full := src
		if t := strings.TrimSpace(src); strings.HasPrefix(t, "if ") {
			if i := strings.Index(t, " then "); i > 0 {
				g, err := parseSpecExpr(strings.TrimSpace(t[3:i]))
				if err != nil {
					return err
				}
				guard = g
				src = strings.TrimSpace(t[i+len(" then "):])
			}
		}
		e, err := parseSpecExpr(src)
		if err != nil {
			return err
		}
		fc.MustCalls = append(fc.MustCalls, &Clause{Kind: "must-call", Label: label, Tags: tags, Expr: e, Guard: guard, Src: callee + ": " + full, File: file, Line: line, Callee: callee})
	case "pure":
		fc.Pure = true
		fc.HasMod = true
	case "safety":
		fc.SafetyTag = append(fc.SafetyTag, strings.Fields(rest)...)
	case "frame":
		fc.FrameTag = append(fc.FrameTag, strings.Fields(rest)...)
	case "raw-capacity":
		fc.RawCapacity = true
	case "nosafety":
		fc.NoSafety = true
	default:
		return fmt.Errorf("unknown clause kind %q", word)
	}
	return nil
}

func parseModItems(s string) ([]ModItem, error) {
	var out []ModItem
	d, st := 0, 0
	var parts []string
	for i := 0; i < len(s); i++ {
		switch s[i] {
		case '(', '[':
			d++
		case ')', ']':
			d--
		case ',':
			if d == 0 {
				parts = append(parts, s[st:i])
				st = i + 1
			}
		}
	}
	parts = append(parts, s[st:])
	for _, p := range parts {
		p = strings.TrimSpace(p)
		if p == "" || p == "nothing" {
			continue
		}
		if strings.HasPrefix(p, "all ") {
			out = append(out, ModItem{Src: p, AllOf: strings.TrimSpace(p[4:])})
			continue
		}
		e, err := parseSpecExpr(p)
		if err != nil {
			return nil, err
		}
		out = append(out, ModItem{Src: p, Expr: e})
	}
	return out, nil
}

// specIdents collects names of called spec functions in e.
func specCalls(e SExpr, acc map[string]bool) {
	switch x := e.(type) {
	case *SUnary:
		specCalls(x.X, acc)
	case *SBinary:
		specCalls(x.X, acc)
		specCalls(x.Y, acc)
	case *SSel:
		specCalls(x.X, acc)
	case *SIndex:
		specCalls(x.X, acc)
		specCalls(x.I, acc)
	case *SSlice:
		specCalls(x.X, acc)
		if x.Lo != nil {
			specCalls(x.Lo, acc)
		}
		if x.Hi != nil {
			specCalls(x.Hi, acc)
		}
	case *SCall:
		acc[x.Fn] = true
		for _, a := range x.Args {
			specCalls(a, acc)
		}
	case *SOld:
		specCalls(x.X, acc)
	case *SQuant:
		specCalls(x.Body, acc)
		for _, p := range x.Pats {
			specCalls(p, acc)
		}
	case *SDeref:
		specCalls(x.X, acc)
	case *SIte:
		specCalls(x.C, acc)
		specCalls(x.A, acc)
		specCalls(x.B, acc)
	}
}

// unescapeAnchor: the statement text of an at-clause is written between double quotes; \" and \\ inside it stand
// for a quote and a backslash of the Go source.
func unescapeAnchor(t string) string {
	if !strings.Contains(t, "\\") {
		return t
	}
	var b strings.Builder
	for i := 0; i < len(t); i++ {
		if t[i] == '\\' && i+1 < len(t) && (t[i+1] == '"' || t[i+1] == '\\') {
			i++
		}
		b.WriteByte(t[i])
	}
	return b.String()
}
