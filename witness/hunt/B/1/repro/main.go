package main

import (
	"fmt"
	"os"
)

func main() {
	def, err1 := Parse("", []byte("a"))
	memo, err2 := Parse("", []byte("a"), Memoize(true))
	fmt.Printf("default options: %v (err %v)\n", def, err1)
	fmt.Printf("Memoize(true):   %v (err %v)\n", memo, err2)
	if def == "n=1 set=true" && memo != def {
		fmt.Println("VIOLATION: the state change of B on the successful path was lost on the memo hit")
		os.Exit(0)
	}
	fmt.Println("no violation observed")
	os.Exit(1)
}
