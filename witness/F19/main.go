package main

import (
	"fmt"
	"os"
)

func main() {
	observed := false
	in := []byte("b")
	for _, ep := range []string{"Start", "S2", "S3"} {
		v1, err1 := Parse("", in, Entrypoint(ep))
		v2, err2 := Parse("", in, Entrypoint(ep), Memoize(true))
		fmt.Printf("%-5s default:       v=%q err=%v\n", ep, v1, err1)
		fmt.Printf("%-5s Memoize(true): v=%q err=%v\n", ep, v2, err2)
		// expected in both modes: value "b", no error
		if err1 == nil && fmt.Sprintf("%q", v1) == `"b"` && (err2 != nil || fmt.Sprintf("%q", v2) != `"b"`) {
			fmt.Println("  -> VIOLATION: throw result memoized without regard to the handlers in force")
			observed = true
		}
	}
	if observed {
		os.Exit(0)
	}
	os.Exit(1)
}
