#!/bin/sh
# usage: witness.sh <witness-dir-name>
# Replays a known finding on the REAL code: builds pigeon from $VERIF_REPO (default /repo), generates a
# parser from witness/<name>/g.peg with the flags in witness/<name>/flags, links witness/<name>/main.go
# against it and runs it. Exit 0 = the defect is still present; 1 = it is gone; 3 = harness problem.
name="$1"
repo="${VERIF_REPO:-/repo}"
w="/verif/witness/$name"
export GOFLAGS=-mod=mod GOPROXY=off GOSUMDB=off GOTOOLCHAIN=local CGO_ENABLED=0
scratch=$(mktemp -d /verif/.work/wit.XXXXXX) || exit 3
trap 'rm -rf "$scratch"' EXIT
(cd "$repo" && go1.26 build -o "$scratch/pigeon" .) || exit 3
flags=""
[ -f "$w/flags" ] && flags=$(cat "$w/flags")
mkdir -p "$scratch/demo"
# the generator run is time-limited (gen_timeout seconds, default 60; exit status 124 = still running)
gt=60
[ -f "$w/gen_timeout" ] && gt=$(cat "$w/gen_timeout")
(ulimit -v 4000000 2>/dev/null; exec timeout "$gt" "$scratch/pigeon" $flags -o "$scratch/demo/parser.go" "$w/g.peg") >"$scratch/gen.log" 2>&1
genrc=$?
if [ -f "$w/expect_gen_fail" ]; then
  # the defect is in the generator run itself
  sh "$w/expect_gen_fail" "$genrc" "$scratch/gen.log"; erc=$?
  # 9 = the generator outcome decides nothing: go on, build and run the generated parser
  [ $erc -eq 9 ] || exit $erc
fi
[ $genrc -eq 0 ] || { cat "$scratch/gen.log"; exit 3; }
cp "$w/main.go" "$scratch/demo/main.go"
printf 'module demo\n\ngo 1.25\n' > "$scratch/demo/go.mod"
(cd "$scratch/demo" && go1.26 build -o demo . ) >"$scratch/build.log" 2>&1
brc=$?
if [ -f "$w/expect_build_fail" ]; then
  [ $brc -ne 0 ] && exit 0 || exit 1
fi
[ $brc -eq 0 ] || { cat "$scratch/build.log"; exit 3; }
timeout 20 "$scratch/demo/demo"
exit $?
