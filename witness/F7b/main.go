package main

import (
	"fmt"
	"os"
)

// F7b: the optimizer merged [^a] / [^b] into [^ab]. The choice matches every rune (a is not b),
// the merged class rejects "a" and "b". Defect present iff "a" is rejected.
func main() {
	_, err := Parse("", []byte("a"))
	if err != nil {
		fmt.Println("defect present: ([^a] / [^b]) rejects \"a\" after -optimize-grammar:", err)
		os.Exit(0)
	}
	fmt.Println("defect gone")
	os.Exit(1)
}
