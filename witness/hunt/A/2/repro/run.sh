#!/bin/bash
# usage: run.sh <pigeon source tree>
# exit 0: violation observed, exit 1: not observed (or the repro could not be built)
export GOFLAGS=-mod=mod GOPROXY=off GOSUMDB=off GOTOOLCHAIN=local
GO=go1.26; command -v "$GO" >/dev/null 2>&1 || GO=go
[ -n "$1" ] || { echo "usage: $0 <pigeon source tree>"; exit 1; }
SRC=$(cd "$1" && pwd) || exit 1
HERE=$(cd "$(dirname "$0")" && pwd)
TMP=$(mktemp -d)
trap 'rm -rf "$TMP"' EXIT
(cd "$SRC" && $GO build -o "$TMP/pigeon" .) || { echo "cannot build pigeon"; exit 1; }
# gen <name> <grammar> <main.go> [pigeon flags...]: generate + build $TMP/<name>/demo
gen() {
	local name=$1 grammar=$2 main=$3; shift 3
	mkdir -p "$TMP/$name"
	printf 'module demo\n\ngo 1.25\n' > "$TMP/$name/go.mod"
	cp "$main" "$TMP/$name/main.go"
	"$TMP/pigeon" "$@" -o "$TMP/$name/parser.go" "$grammar" || { echo "pigeon failed"; exit 1; }
	(cd "$TMP/$name" && $GO build -o demo .) || { echo "go build failed"; exit 1; }
}
rc=1
# 1. the invalid byte is INSIDE the text matched by the start rule (whole input is matched)
gen full "$HERE/g.peg" "$HERE/main.go" -support-left-recursion
out=$(cd "$TMP/full" && timeout 60 ./demo "$(printf 'a+b\377')")
echo "[g.peg] $out"
echo "$out" | grep -q '^VIOLATION' && rc=0
# 2. simplest form: the byte is advanced onto after "+" in the last (abandoned) growth iteration
gen simple "$HERE/g_simple.peg" "$HERE/main.go" -support-left-recursion
out=$(cd "$TMP/simple" && timeout 60 ./demo "$(printf 'a+\377')")
echo "[g_simple.peg] $out"
echo "$out" | grep -q '^VIOLATION' && rc=0
exit $rc
