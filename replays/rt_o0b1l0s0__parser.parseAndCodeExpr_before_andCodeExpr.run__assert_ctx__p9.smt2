; obligation rt[o0b1l0s0]:parser.parseAndCodeExpr:before(andCodeExpr.run):assert[ctx]
; clause: p.cur.pos == p.pt.position && len(p.cur.text) == 0
; at rt.go:1002
; path: then@rt.go:996
(set-option :produce-models true)
(set-logic ALL)
(declare-sort Str 0)
(declare-sort Any 0)
(declare-datatypes ((Slice_Int 0)) (((mk_Slice_Int (arr_Slice_Int (Array Int Int)) (off_Slice_Int Int) (len_Slice_Int Int) (cap_Slice_Int Int)))))
(declare-datatypes ((S_position 0)) (((mk_S_position (S_position_line Int) (S_position_col Int) (S_position_offset Int)))))
(declare-datatypes ((S_savepoint 0)) (((mk_S_savepoint (S_savepoint_position S_position) (S_savepoint_rn Int) (S_savepoint_w Int)))))
(declare-datatypes ((S_current 0)) (((mk_S_current (S_current_pos S_position) (S_current_text Slice_Int) (S_current_state Int) (S_current_globalStore Int)))))
(declare-datatypes ((S_resultTuple 0)) (((mk_S_resultTuple (S_resultTuple_v Any) (S_resultTuple_b Bool) (S_resultTuple_end S_savepoint)))))
(declare-datatypes ((Slice_Any 0)) (((mk_Slice_Any (arr_Slice_Any (Array Int Any)) (off_Slice_Any Int) (len_Slice_Any Int) (cap_Slice_Any Int)))))
(declare-datatypes ((Slice_Str 0)) (((mk_Slice_Str (arr_Slice_Str (Array Int Str)) (off_Slice_Str Int) (len_Slice_Str Int) (cap_Slice_Str Int)))))
(declare-fun typeOf (Any) Int)
(declare-const nilAny Any)
(declare-fun slen (Str) Int)
(declare-const emptyStr Str)
(declare-fun scat (Str Str) Str)
(declare-fun runeCount (Str) Int)
(declare-fun runeOf (Str Int) Int)
(declare-fun sle (Str Str) Bool)
(declare-fun elem_Slice_Int (Slice_Int Int) Int)
(declare-fun card_Str ((Array Str Bool)) Int)
(declare-fun defined (Str) Bool)
(declare-fun IsNode (Any) Bool)
(declare-fun bnd (Slice_Int Int) Bool)
(declare-fun decR (Slice_Int) Int)
(declare-fun decW (Slice_Int) Int)
(declare-fun lineAt (Slice_Int Int) Int)
(declare-fun colAt (Slice_Int Int) Int)
(declare-fun card_Any ((Array Any Bool)) Int)
(declare-fun card_Int ((Array Int Bool)) Int)
(declare-fun box_Int (Int Int) Any)
(declare-fun unbox_Int (Any) Int)
(declare-fun DR (Int Slice_Int Int Bool Int Any) Bool)
(declare-fun D (Any Slice_Int Int Bool Int Any) Bool)
(declare-fun CloneEq (Any Any) Bool)
(declare-fun elem_Slice_Any (Slice_Any Int) Any)
(declare-fun sprintf_3 (Str Any Any Any) Str)
(declare-fun LitPre (Int Slice_Int Int Int Int) Bool)
(declare-fun toLower (Int) Int)
(declare-fun box_Slice_Int (Int Slice_Int) Any)
(declare-fun unbox_Slice_Int (Any) Slice_Int)
(declare-fun uniIs (Int Int) Bool)
(declare-fun SeqPre (Int Slice_Int Int Int Int (Array Int Any)) Bool)
(declare-fun box_Slice_Any (Int Slice_Any) Any)
(declare-fun unbox_Slice_Any (Any) Slice_Any)
(declare-fun ChoicePre (Int Slice_Int Int Int) Bool)
(declare-fun RepPre (Any Slice_Int Int Int Int (Array Int Any)) Bool)
(declare-fun ThrowPre (Slice_Int Int Str Slice_Int Int) Bool)
(declare-fun TH (Slice_Int Str Slice_Int Int Bool Int Any) Bool)
(declare-const str!0 Str) ; "parseAndCodeExpr"
(assert (= (slen str!0) 16))
(assert (= (runeCount str!0) 16))
(declare-const str!1 Str) ; ":"
(assert (= (slen str!1) 1))
(assert (= (runeCount str!1) 1))
(assert (= (runeOf str!1 0) 58))
(declare-const str!2 Str) ; "%d:%d (%d)"
(assert (= (slen str!2) 10))
(assert (= (runeCount str!2) 10))
(declare-const str!3 Str) ; ": "
(assert (= (slen str!3) 2))
(assert (= (runeCount str!3) 2))
(assert (= (runeOf str!3 0) 58))
(assert (= (runeOf str!3 1) 32))
(declare-const str!4 Str) ; "rule "
(assert (= (slen str!4) 5))
(assert (= (runeCount str!4) 5))
(assert (= (runeOf str!4 0) 114))
(assert (= (runeOf str!4 1) 117))
(assert (= (runeOf str!4 2) 108))
(assert (= (runeOf str!4 3) 101))
(assert (= (runeOf str!4 4) 32))
(assert (distinct str!0 str!1 str!2 str!3 str!4))
(declare-const in_p Int)
(declare-const in_and Int)
(declare-const H_parser_errs@pre (Array Int Int))
(declare-const H_parser_Stats@pre (Array Int Int))
(declare-const H_parser_rstack@pre (Array Int Slice_Int))
(declare-const H_parser_vstack@pre (Array Int Slice_Int))
(declare-const H_parser_recoveryStack@pre (Array Int Slice_Int))
(declare-const H_parser_rules@pre (Array Int Int))
(declare-const Mdom_map_string__rt.rule@pre (Array Int (Array Str Bool)))
(declare-const Mval_map_string__rt.rule@pre (Array Int (Array Str Int)))
(declare-const H_rule_name@pre (Array Int Str))
(declare-const H_Stats_ChoiceAltCnt@pre (Array Int Int))
(declare-const Alloc@pre (Array Int Bool))
(declare-const Mdom_map_string_any@pre (Array Int (Array Str Bool)))
(declare-const Mval_map_string_any@pre (Array Int (Array Str Any)))
(declare-const H_parser_data@pre (Array Int Slice_Int))
(declare-const H_parser_pt@pre (Array Int S_savepoint))
(declare-const H_parser_cur@pre (Array Int S_current))
(declare-const H_parser_memo@pre (Array Int Int))
(declare-const Mdom_map_int_map_any_rt.resultTuple@pre (Array Int (Array Int Bool)))
(declare-const Mval_map_int_map_any_rt.resultTuple@pre (Array Int (Array Int Int)))
(declare-const Mdom_map_any_rt.resultTuple@pre (Array Int (Array Any Bool)))
(declare-const Mval_map_any_rt.resultTuple@pre (Array Int (Array Any S_resultTuple)))
(declare-const H_Stats_ExprCnt@pre (Array Int Int))
(declare-const H_parser_maxExprCnt@pre (Array Int Int))
(declare-const G_statePool@pre Int)
(declare-const H_parser_debug@pre (Array Int Bool))
(declare-const H_parser_depth@pre (Array Int Int))
(declare-const hv!1 Int)
(declare-const H_parser_depth!2 (Array Int Int))
(declare-const Alloc!3 (Array Int Bool))
(declare-const ret_parser_in!4 Str)
(declare-const hv!5 Int)
(declare-const H_parser_depth!6 (Array Int Int))
(declare-const Alloc!7 (Array Int Bool))
(declare-const ret_parser_cloneState!8 Int)
(declare-const Mdom_storeDict@pre (Array Int (Array Str Bool)))
(declare-const Mval_storeDict@pre (Array Int (Array Str Any)))
(declare-const hv!9 Int)
(declare-const H_parser_depth!10 (Array Int Int))
(declare-const Alloc!11 (Array Int Bool))
(declare-const ret_parser_cloneState!12 Int)
(declare-const hv!13 (Array Str Bool))
(declare-const Mdom_storeDict!14 (Array Int (Array Str Bool)))
(declare-const hv!15 (Array Str Any))
(declare-const Mval_storeDict!16 (Array Int (Array Str Any)))
(declare-const hv!17 (Array Str Bool))
(declare-const Mdom_storeDict!18 (Array Int (Array Str Bool)))
(declare-const hv!19 (Array Str Any))
(declare-const Mval_storeDict!20 (Array Int (Array Str Any)))
(declare-const Alloc!21 (Array Int Bool))
(declare-const ret_andCodeExpr_run!22 Bool)
(declare-const ret_andCodeExpr_run!23 Any)
(declare-const hv!24 (Array Str Bool))
(declare-const Mdom_storeDict!25 (Array Int (Array Str Bool)))
(declare-const hv!26 (Array Str Any))
(declare-const Mval_storeDict!27 (Array Int (Array Str Any)))
(declare-const hv!28 (Array Str Bool))
(declare-const Mdom_storeDict!29 (Array Int (Array Str Bool)))
(declare-const hv!30 (Array Str Any))
(declare-const Mval_storeDict!31 (Array Int (Array Str Any)))
(declare-const Alloc!32 (Array Int Bool))
(declare-const ret_andCodeExpr_run!33 Bool)
(declare-const ret_andCodeExpr_run!34 Any)
(declare-const P_Slice_Any@pre (Array Int Slice_Any))
(declare-const hv!35 Slice_Any)
(declare-const P_Slice_Any!36 (Array Int Slice_Any))
(declare-const Alloc!37 (Array Int Bool))
(declare-const H_parserError_Inner@pre (Array Int Any))
(declare-const H_parserError_pos@pre (Array Int S_position))
(declare-const H_parserError_prefix@pre (Array Int Str))
(declare-const H_parser_filename@pre (Array Int Str))
(declare-const H_rule_displayName@pre (Array Int Str))
(declare-const hv!38 Slice_Any)
(declare-const P_Slice_Any!39 (Array Int Slice_Any))
(declare-const Alloc!40 (Array Int Bool))
(declare-const hv!41 S_current)
(declare-const H_parser_cur!42 (Array Int S_current))
(declare-const hv!43 (Array Str Bool))
(declare-const Mdom_storeDict!44 (Array Int (Array Str Bool)))
(declare-const hv!45 (Array Str Any))
(declare-const Mval_storeDict!46 (Array Int (Array Str Any)))
(declare-const hv!47 Int)
(declare-const H_parser_depth!48 (Array Int Int))
(declare-const Alloc!49 (Array Int Bool))
(declare-const hv!50 S_current)
(declare-const H_parser_cur!51 (Array Int S_current))
(declare-const hv!52 (Array Str Bool))
(declare-const Mdom_storeDict!53 (Array Int (Array Str Bool)))
(declare-const hv!54 (Array Str Any))
(declare-const Mval_storeDict!55 (Array Int (Array Str Any)))
(declare-const hv!56 Int)
(declare-const H_parser_depth!57 (Array Int Int))
(declare-const Alloc!58 (Array Int Bool))
(declare-const hv!59 S_current)
(declare-const H_parser_cur!60 (Array Int S_current))
(declare-const hv!61 (Array Str Bool))
(declare-const Mdom_storeDict!62 (Array Int (Array Str Bool)))
(declare-const hv!63 (Array Str Any))
(declare-const Mval_storeDict!64 (Array Int (Array Str Any)))
(declare-const hv!65 Int)
(declare-const H_parser_depth!66 (Array Int Int))
(declare-const Alloc!67 (Array Int Bool))
(declare-const hv!68 S_current)
(declare-const H_parser_cur!69 (Array Int S_current))
(declare-const hv!70 (Array Str Bool))
(declare-const Mdom_storeDict!71 (Array Int (Array Str Bool)))
(declare-const hv!72 (Array Str Any))
(declare-const Mval_storeDict!73 (Array Int (Array Str Any)))
(declare-const hv!74 Int)
(declare-const H_parser_depth!75 (Array Int Int))
(declare-const Alloc!76 (Array Int Bool))
(declare-const hv!77 Int)
(declare-const H_parser_depth!78 (Array Int Int))
(declare-const Alloc!79 (Array Int Bool))
(declare-const ret_parser_out!80 Str)
(declare-const H_parser_maxFailInvertExpected@pre (Array Int Bool))
(declare-const hv!81 Int)
(declare-const H_parser_depth!82 (Array Int Int))
(declare-const Alloc!83 (Array Int Bool))
(declare-const ret_parser_out!84 Str)
(declare-const H_litMatcher_val@pre (Array Int Str))
(declare-const H_litMatcher_ignoreCase@pre (Array Int Bool))
(declare-const H_charClassMatcher_ignoreCase@pre (Array Int Bool))
(declare-const H_charClassMatcher_chars@pre (Array Int Slice_Int))
(declare-const H_charClassMatcher_ranges@pre (Array Int Slice_Int))
(declare-const H_charClassMatcher_classes@pre (Array Int Slice_Int))
(declare-const H_charClassMatcher_inverted@pre (Array Int Bool))
(declare-const H_seqExpr_exprs@pre (Array Int Slice_Any))
(declare-const H_choiceExpr_alternatives@pre (Array Int Slice_Any))
(declare-const H_andExpr_expr@pre (Array Int Any))
(declare-const H_notExpr_expr@pre (Array Int Any))
(declare-const H_zeroOrMoreExpr_expr@pre (Array Int Any))
(declare-const H_oneOrMoreExpr_expr@pre (Array Int Any))
(declare-const H_zeroOrOneExpr_expr@pre (Array Int Any))
(declare-const H_labeledExpr_expr@pre (Array Int Any))
(declare-const H_actionExpr_expr@pre (Array Int Any))
(declare-const H_rule_expr@pre (Array Int Any))
(declare-const H_ruleRefExpr_name@pre (Array Int Str))
(declare-const H_actionExpr_run@pre (Array Int Int))
(declare-const H_recoveryExpr_expr@pre (Array Int Any))
(declare-const H_recoveryExpr_recoverExpr@pre (Array Int Any))
(declare-const H_andCodeExpr_run@pre (Array Int Int))
(declare-const H_notCodeExpr_run@pre (Array Int Int))
(declare-const H_stateCodeExpr_run@pre (Array Int Int))
(declare-const H_charClassMatcher_basicLatinChars@pre (Array Int (Array Int Bool)))
(assert (= (typeOf nilAny) 0))
(assert (forall ((x Any)) (! (=> (= (typeOf x) 0) (= x nilAny)) :pattern ((typeOf x)))))
(assert (forall ((s Str)) (! (>= (slen s) 0) :pattern ((slen s)))))
(assert (= (slen emptyStr) 0))
(assert (forall ((s Str)) (! (=> (= (slen s) 0) (= s emptyStr)) :pattern ((slen s)))))
(assert (forall ((a Str) (b Str)) (! (= (slen (scat a b)) (+ (slen a) (slen b))) :pattern ((scat a b)))))
(assert (forall ((a Str) (b Str) (c Str)) (! (=> (= (scat a b) (scat a c)) (= b c)) :pattern ((scat a b) (scat a c)))))
(assert (forall ((a Str) (b Str) (c Str)) (! (= (scat (scat a b) c) (scat a (scat b c))) :pattern ((scat (scat a b) c)))))
(assert (forall ((a Str)) (! (= (scat a emptyStr) a) :pattern ((scat a emptyStr)))))
(assert (forall ((a Str)) (! (= (scat emptyStr a) a) :pattern ((scat emptyStr a)))))
(assert (forall ((s Str)) (! (>= (runeCount s) 0) :pattern ((runeCount s)))))
(assert (forall ((a Str)) (! (sle a a) :pattern ((sle a a)))))
(assert (forall ((a Str) (b Str)) (! (or (sle a b) (sle b a)) :pattern ((sle a b)))))
(assert (forall ((a Str) (b Str)) (! (=> (and (sle a b) (sle b a)) (= a b)) :pattern ((sle a b) (sle b a)))))
(assert (forall ((a Str) (b Str) (c Str)) (! (=> (and (sle a b) (sle b c)) (sle a c)) :pattern ((sle a b) (sle b c)))))
(assert (forall ((s Slice_Int) (i Int)) (! (= (elem_Slice_Int s i) (select (arr_Slice_Int s) (+ (off_Slice_Int s) i))) :pattern ((elem_Slice_Int s i)))))
(assert (forall ((d (Array Str Bool))) (! (>= (card_Str d) 0) :pattern ((card_Str d)))))
(assert (= (card_Str ((as const (Array Str Bool)) false)) 0))
(assert (forall ((d (Array Str Bool)) (k Str)) (! (=> (= (card_Str d) 0) (not (select d k))) :pattern ((card_Str d) (select d k)))))
(assert (forall ((d (Array Str Bool))) (! (=> (= (card_Str d) 0) (= d ((as const (Array Str Bool)) false))) :pattern ((card_Str d)))))
(assert (forall ((d (Array Str Bool)) (k Str)) (! (= (card_Str (store d k true)) (ite (select d k) (card_Str d) (+ (card_Str d) 1))) :pattern ((card_Str (store d k true))))))
(assert (forall ((d (Array Str Bool)) (k Str)) (! (= (card_Str (store d k false)) (ite (select d k) (- (card_Str d) 1) (card_Str d))) :pattern ((card_Str (store d k false))))))
(assert (forall ((d (Array Any Bool))) (! (>= (card_Any d) 0) :pattern ((card_Any d)))))
(assert (= (card_Any ((as const (Array Any Bool)) false)) 0))
(assert (forall ((d (Array Any Bool)) (k Any)) (! (=> (= (card_Any d) 0) (not (select d k))) :pattern ((card_Any d) (select d k)))))
(assert (forall ((d (Array Any Bool))) (! (=> (= (card_Any d) 0) (= d ((as const (Array Any Bool)) false))) :pattern ((card_Any d)))))
(assert (forall ((d (Array Any Bool)) (k Any)) (! (= (card_Any (store d k true)) (ite (select d k) (card_Any d) (+ (card_Any d) 1))) :pattern ((card_Any (store d k true))))))
(assert (forall ((d (Array Any Bool)) (k Any)) (! (= (card_Any (store d k false)) (ite (select d k) (- (card_Any d) 1) (card_Any d))) :pattern ((card_Any (store d k false))))))
(assert (forall ((d (Array Int Bool))) (! (>= (card_Int d) 0) :pattern ((card_Int d)))))
(assert (= (card_Int ((as const (Array Int Bool)) false)) 0))
(assert (forall ((d (Array Int Bool)) (k Int)) (! (=> (= (card_Int d) 0) (not (select d k))) :pattern ((card_Int d) (select d k)))))
(assert (forall ((d (Array Int Bool))) (! (=> (= (card_Int d) 0) (= d ((as const (Array Int Bool)) false))) :pattern ((card_Int d)))))
(assert (forall ((d (Array Int Bool)) (k Int)) (! (= (card_Int (store d k true)) (ite (select d k) (card_Int d) (+ (card_Int d) 1))) :pattern ((card_Int (store d k true))))))
(assert (forall ((d (Array Int Bool)) (k Int)) (! (= (card_Int (store d k false)) (ite (select d k) (- (card_Int d) 1) (card_Int d))) :pattern ((card_Int (store d k false))))))
(assert (forall ((t Int) (v Int)) (! (=> (> t 0) (= (typeOf (box_Int t v)) t)) :pattern ((box_Int t v)))))
(assert (forall ((t Int) (v Int)) (! (=> (> t 0) (= (unbox_Int (box_Int t v)) v)) :pattern ((box_Int t v)))))
(assert (forall ((s Slice_Any) (i Int)) (! (= (elem_Slice_Any s i) (select (arr_Slice_Any s) (+ (off_Slice_Any s) i))) :pattern ((elem_Slice_Any s i)))))
(assert (forall ((t Int) (v Slice_Int)) (! (=> (> t 0) (= (typeOf (box_Slice_Int t v)) t)) :pattern ((box_Slice_Int t v)))))
(assert (forall ((t Int) (v Slice_Int)) (! (=> (> t 0) (= (unbox_Slice_Int (box_Slice_Int t v)) v)) :pattern ((box_Slice_Int t v)))))
(assert (forall ((t Int) (v Slice_Any)) (! (=> (> t 0) (= (typeOf (box_Slice_Any t v)) t)) :pattern ((box_Slice_Any t v)))))
(assert (forall ((t Int) (v Slice_Any)) (! (=> (> t 0) (= (unbox_Slice_Any (box_Slice_Any t v)) v)) :pattern ((box_Slice_Any t v)))))
(assert (forall ((q_d Slice_Int)) (! (and (and (bnd q_d 0) (= (lineAt q_d 0) (ite (= (decR (mk_Slice_Int (arr_Slice_Int q_d) (+ (off_Slice_Int q_d) 0) (- (len_Slice_Int q_d) 0) (- (cap_Slice_Int q_d) 0))) 10) 2 1))) (= (colAt q_d 0) (ite (= (decR (mk_Slice_Int (arr_Slice_Int q_d) (+ (off_Slice_Int q_d) 0) (- (len_Slice_Int q_d) 0) (- (cap_Slice_Int q_d) 0))) 10) 0 1))) :pattern ((bnd q_d 0))))) ; axiom pos-base
(assert (forall ((q_d Slice_Int) (q_o Int)) (! (=> (and (and (bnd q_d q_o) (<= 0 q_o)) (< q_o (len_Slice_Int q_d))) (and (and (bnd q_d (+ q_o (decW (mk_Slice_Int (arr_Slice_Int q_d) (+ (off_Slice_Int q_d) q_o) (- (len_Slice_Int q_d) q_o) (- (cap_Slice_Int q_d) q_o))))) (= (lineAt q_d (+ q_o (decW (mk_Slice_Int (arr_Slice_Int q_d) (+ (off_Slice_Int q_d) q_o) (- (len_Slice_Int q_d) q_o) (- (cap_Slice_Int q_d) q_o))))) (+ (lineAt q_d q_o) (ite (= (decR (mk_Slice_Int (arr_Slice_Int q_d) (+ (off_Slice_Int q_d) (+ q_o (decW (mk_Slice_Int (arr_Slice_Int q_d) (+ (off_Slice_Int q_d) q_o) (- (len_Slice_Int q_d) q_o) (- (cap_Slice_Int q_d) q_o))))) (- (len_Slice_Int q_d) (+ q_o (decW (mk_Slice_Int (arr_Slice_Int q_d) (+ (off_Slice_Int q_d) q_o) (- (len_Slice_Int q_d) q_o) (- (cap_Slice_Int q_d) q_o))))) (- (cap_Slice_Int q_d) (+ q_o (decW (mk_Slice_Int (arr_Slice_Int q_d) (+ (off_Slice_Int q_d) q_o) (- (len_Slice_Int q_d) q_o) (- (cap_Slice_Int q_d) q_o))))))) 10) 1 0)))) (= (colAt q_d (+ q_o (decW (mk_Slice_Int (arr_Slice_Int q_d) (+ (off_Slice_Int q_d) q_o) (- (len_Slice_Int q_d) q_o) (- (cap_Slice_Int q_d) q_o))))) (ite (= (decR (mk_Slice_Int (arr_Slice_Int q_d) (+ (off_Slice_Int q_d) (+ q_o (decW (mk_Slice_Int (arr_Slice_Int q_d) (+ (off_Slice_Int q_d) q_o) (- (len_Slice_Int q_d) q_o) (- (cap_Slice_Int q_d) q_o))))) (- (len_Slice_Int q_d) (+ q_o (decW (mk_Slice_Int (arr_Slice_Int q_d) (+ (off_Slice_Int q_d) q_o) (- (len_Slice_Int q_d) q_o) (- (cap_Slice_Int q_d) q_o))))) (- (cap_Slice_Int q_d) (+ q_o (decW (mk_Slice_Int (arr_Slice_Int q_d) (+ (off_Slice_Int q_d) q_o) (- (len_Slice_Int q_d) q_o) (- (cap_Slice_Int q_d) q_o))))))) 10) 0 (+ (colAt q_d q_o) 1))))) :pattern ((bnd q_d q_o))))) ; axiom pos-step
(assert (forall ((q_l Int) (q_d Slice_Int) (q_k Int) (q_i Int) (q_j Int)) (! (=> (and (and (and (and (LitPre q_l q_d q_k q_i q_j) (<= 0 q_k)) (< q_k (runeCount (select H_litMatcher_val@pre q_l)))) (> (decW (mk_Slice_Int (arr_Slice_Int q_d) (+ (off_Slice_Int q_d) q_j) (- (len_Slice_Int q_d) q_j) (- (cap_Slice_Int q_d) q_j))) 0)) (= (ite (select H_litMatcher_ignoreCase@pre q_l) (toLower (decR (mk_Slice_Int (arr_Slice_Int q_d) (+ (off_Slice_Int q_d) q_j) (- (len_Slice_Int q_d) q_j) (- (cap_Slice_Int q_d) q_j)))) (decR (mk_Slice_Int (arr_Slice_Int q_d) (+ (off_Slice_Int q_d) q_j) (- (len_Slice_Int q_d) q_j) (- (cap_Slice_Int q_d) q_j)))) (runeOf (select H_litMatcher_val@pre q_l) q_k))) (LitPre q_l q_d (+ q_k 1) q_i (+ q_j (decW (mk_Slice_Int (arr_Slice_Int q_d) (+ (off_Slice_Int q_d) q_j) (- (len_Slice_Int q_d) q_j) (- (cap_Slice_Int q_d) q_j)))))) :pattern ((LitPre q_l q_d q_k q_i q_j))))) ; axiom lit-step
(assert (forall ((q_l Int) (q_d Slice_Int) (q_i Int) (q_j Int) (q_v Any)) (! (=> (and (LitPre q_l q_d (runeCount (select H_litMatcher_val@pre q_l)) q_i q_j) (= q_v (box_Slice_Int 5 (mk_Slice_Int (arr_Slice_Int q_d) (+ (off_Slice_Int q_d) q_i) (- q_j q_i) (- (cap_Slice_Int q_d) q_i))))) (D (box_Int 6 q_l) q_d q_i true q_j q_v)) :pattern ((D (box_Int 6 q_l) q_d q_i true q_j q_v))))) ; axiom lit-ok
(assert (forall ((q_l Int) (q_d Slice_Int) (q_k Int) (q_i Int) (q_j Int)) (! (=> (and (and (and (LitPre q_l q_d q_k q_i q_j) (<= 0 q_k)) (< q_k (runeCount (select H_litMatcher_val@pre q_l)))) (or (= (decW (mk_Slice_Int (arr_Slice_Int q_d) (+ (off_Slice_Int q_d) q_j) (- (len_Slice_Int q_d) q_j) (- (cap_Slice_Int q_d) q_j))) 0) (not (= (ite (select H_litMatcher_ignoreCase@pre q_l) (toLower (decR (mk_Slice_Int (arr_Slice_Int q_d) (+ (off_Slice_Int q_d) q_j) (- (len_Slice_Int q_d) q_j) (- (cap_Slice_Int q_d) q_j)))) (decR (mk_Slice_Int (arr_Slice_Int q_d) (+ (off_Slice_Int q_d) q_j) (- (len_Slice_Int q_d) q_j) (- (cap_Slice_Int q_d) q_j)))) (runeOf (select H_litMatcher_val@pre q_l) q_k))))) (D (box_Int 6 q_l) q_d q_i false q_i nilAny)) :pattern ((LitPre q_l q_d q_k q_i q_j))))) ; axiom lit-fail
(assert (forall ((q_c Int) (q_d Slice_Int) (q_i Int) (q_j Int) (q_v Any)) (! (=> (and (and (and (> (decW (mk_Slice_Int (arr_Slice_Int q_d) (+ (off_Slice_Int q_d) q_i) (- (len_Slice_Int q_d) q_i) (- (cap_Slice_Int q_d) q_i))) 0) (not (= (or (or (exists ((q_k Int)) (and (and (<= 0 q_k) (< q_k (len_Slice_Int (select H_charClassMatcher_chars@pre q_c)))) (= (elem_Slice_Int (select H_charClassMatcher_chars@pre q_c) q_k) (ite (select H_charClassMatcher_ignoreCase@pre q_c) (toLower (decR (mk_Slice_Int (arr_Slice_Int q_d) (+ (off_Slice_Int q_d) q_i) (- (len_Slice_Int q_d) q_i) (- (cap_Slice_Int q_d) q_i)))) (decR (mk_Slice_Int (arr_Slice_Int q_d) (+ (off_Slice_Int q_d) q_i) (- (len_Slice_Int q_d) q_i) (- (cap_Slice_Int q_d) q_i))))))) (exists ((q_k Int)) (and (and (and (<= 0 q_k) (< (+ (* 2 q_k) 1) (len_Slice_Int (select H_charClassMatcher_ranges@pre q_c)))) (<= (elem_Slice_Int (select H_charClassMatcher_ranges@pre q_c) (* 2 q_k)) (ite (select H_charClassMatcher_ignoreCase@pre q_c) (toLower (decR (mk_Slice_Int (arr_Slice_Int q_d) (+ (off_Slice_Int q_d) q_i) (- (len_Slice_Int q_d) q_i) (- (cap_Slice_Int q_d) q_i)))) (decR (mk_Slice_Int (arr_Slice_Int q_d) (+ (off_Slice_Int q_d) q_i) (- (len_Slice_Int q_d) q_i) (- (cap_Slice_Int q_d) q_i)))))) (<= (ite (select H_charClassMatcher_ignoreCase@pre q_c) (toLower (decR (mk_Slice_Int (arr_Slice_Int q_d) (+ (off_Slice_Int q_d) q_i) (- (len_Slice_Int q_d) q_i) (- (cap_Slice_Int q_d) q_i)))) (decR (mk_Slice_Int (arr_Slice_Int q_d) (+ (off_Slice_Int q_d) q_i) (- (len_Slice_Int q_d) q_i) (- (cap_Slice_Int q_d) q_i)))) (elem_Slice_Int (select H_charClassMatcher_ranges@pre q_c) (+ (* 2 q_k) 1)))))) (exists ((q_k Int)) (and (and (<= 0 q_k) (< q_k (len_Slice_Int (select H_charClassMatcher_classes@pre q_c)))) (uniIs (elem_Slice_Int (select H_charClassMatcher_classes@pre q_c) q_k) (ite (select H_charClassMatcher_ignoreCase@pre q_c) (toLower (decR (mk_Slice_Int (arr_Slice_Int q_d) (+ (off_Slice_Int q_d) q_i) (- (len_Slice_Int q_d) q_i) (- (cap_Slice_Int q_d) q_i)))) (decR (mk_Slice_Int (arr_Slice_Int q_d) (+ (off_Slice_Int q_d) q_i) (- (len_Slice_Int q_d) q_i) (- (cap_Slice_Int q_d) q_i)))))))) (select H_charClassMatcher_inverted@pre q_c)))) (= q_j (+ q_i (decW (mk_Slice_Int (arr_Slice_Int q_d) (+ (off_Slice_Int q_d) q_i) (- (len_Slice_Int q_d) q_i) (- (cap_Slice_Int q_d) q_i)))))) (= q_v (box_Slice_Int 5 (mk_Slice_Int (arr_Slice_Int q_d) (+ (off_Slice_Int q_d) q_i) (- q_j q_i) (- (cap_Slice_Int q_d) q_i))))) (D (box_Int 7 q_c) q_d q_i true q_j q_v)) :pattern ((D (box_Int 7 q_c) q_d q_i true q_j q_v))))) ; axiom class-ok
(assert (forall ((q_c Int) (q_d Slice_Int) (q_i Int)) (! (=> (not (and (> (decW (mk_Slice_Int (arr_Slice_Int q_d) (+ (off_Slice_Int q_d) q_i) (- (len_Slice_Int q_d) q_i) (- (cap_Slice_Int q_d) q_i))) 0) (not (= (or (or (exists ((q_k Int)) (and (and (<= 0 q_k) (< q_k (len_Slice_Int (select H_charClassMatcher_chars@pre q_c)))) (= (elem_Slice_Int (select H_charClassMatcher_chars@pre q_c) q_k) (ite (select H_charClassMatcher_ignoreCase@pre q_c) (toLower (decR (mk_Slice_Int (arr_Slice_Int q_d) (+ (off_Slice_Int q_d) q_i) (- (len_Slice_Int q_d) q_i) (- (cap_Slice_Int q_d) q_i)))) (decR (mk_Slice_Int (arr_Slice_Int q_d) (+ (off_Slice_Int q_d) q_i) (- (len_Slice_Int q_d) q_i) (- (cap_Slice_Int q_d) q_i))))))) (exists ((q_k Int)) (and (and (and (<= 0 q_k) (< (+ (* 2 q_k) 1) (len_Slice_Int (select H_charClassMatcher_ranges@pre q_c)))) (<= (elem_Slice_Int (select H_charClassMatcher_ranges@pre q_c) (* 2 q_k)) (ite (select H_charClassMatcher_ignoreCase@pre q_c) (toLower (decR (mk_Slice_Int (arr_Slice_Int q_d) (+ (off_Slice_Int q_d) q_i) (- (len_Slice_Int q_d) q_i) (- (cap_Slice_Int q_d) q_i)))) (decR (mk_Slice_Int (arr_Slice_Int q_d) (+ (off_Slice_Int q_d) q_i) (- (len_Slice_Int q_d) q_i) (- (cap_Slice_Int q_d) q_i)))))) (<= (ite (select H_charClassMatcher_ignoreCase@pre q_c) (toLower (decR (mk_Slice_Int (arr_Slice_Int q_d) (+ (off_Slice_Int q_d) q_i) (- (len_Slice_Int q_d) q_i) (- (cap_Slice_Int q_d) q_i)))) (decR (mk_Slice_Int (arr_Slice_Int q_d) (+ (off_Slice_Int q_d) q_i) (- (len_Slice_Int q_d) q_i) (- (cap_Slice_Int q_d) q_i)))) (elem_Slice_Int (select H_charClassMatcher_ranges@pre q_c) (+ (* 2 q_k) 1)))))) (exists ((q_k Int)) (and (and (<= 0 q_k) (< q_k (len_Slice_Int (select H_charClassMatcher_classes@pre q_c)))) (uniIs (elem_Slice_Int (select H_charClassMatcher_classes@pre q_c) q_k) (ite (select H_charClassMatcher_ignoreCase@pre q_c) (toLower (decR (mk_Slice_Int (arr_Slice_Int q_d) (+ (off_Slice_Int q_d) q_i) (- (len_Slice_Int q_d) q_i) (- (cap_Slice_Int q_d) q_i)))) (decR (mk_Slice_Int (arr_Slice_Int q_d) (+ (off_Slice_Int q_d) q_i) (- (len_Slice_Int q_d) q_i) (- (cap_Slice_Int q_d) q_i)))))))) (select H_charClassMatcher_inverted@pre q_c))))) (D (box_Int 7 q_c) q_d q_i false q_i nilAny)) :pattern ((D (box_Int 7 q_c) q_d q_i false q_i nilAny))))) ; axiom class-no
(assert (forall ((q_a Int) (q_d Slice_Int) (q_i Int) (q_j Int) (q_v Any)) (! (=> (and (and (> (decW (mk_Slice_Int (arr_Slice_Int q_d) (+ (off_Slice_Int q_d) q_i) (- (len_Slice_Int q_d) q_i) (- (cap_Slice_Int q_d) q_i))) 0) (= q_j (+ q_i (decW (mk_Slice_Int (arr_Slice_Int q_d) (+ (off_Slice_Int q_d) q_i) (- (len_Slice_Int q_d) q_i) (- (cap_Slice_Int q_d) q_i)))))) (= q_v (box_Slice_Int 5 (mk_Slice_Int (arr_Slice_Int q_d) (+ (off_Slice_Int q_d) q_i) (- q_j q_i) (- (cap_Slice_Int q_d) q_i))))) (D (box_Int 8 q_a) q_d q_i true q_j q_v)) :pattern ((D (box_Int 8 q_a) q_d q_i true q_j q_v))))) ; axiom any-ok
(assert (forall ((q_a Int) (q_d Slice_Int) (q_i Int)) (! (=> (= (decW (mk_Slice_Int (arr_Slice_Int q_d) (+ (off_Slice_Int q_d) q_i) (- (len_Slice_Int q_d) q_i) (- (cap_Slice_Int q_d) q_i))) 0) (D (box_Int 8 q_a) q_d q_i false q_i nilAny)) :pattern ((D (box_Int 8 q_a) q_d q_i false q_i nilAny))))) ; axiom any-no
(assert (forall ((q_s Int) (q_d Slice_Int) (q_k Int) (q_i Int) (q_j Int) (q_a (Array Int Any)) (q_j2 Int) (q_v Any)) (! (=> (and (and (and (SeqPre q_s q_d q_k q_i q_j q_a) (<= 0 q_k)) (< q_k (len_Slice_Any (select H_seqExpr_exprs@pre q_s)))) (D (elem_Slice_Any (select H_seqExpr_exprs@pre q_s) q_k) q_d q_j true q_j2 q_v)) (SeqPre q_s q_d (+ q_k 1) q_i q_j2 (store q_a q_k q_v))) :pattern ((SeqPre q_s q_d q_k q_i q_j q_a) (D (elem_Slice_Any (select H_seqExpr_exprs@pre q_s) q_k) q_d q_j true q_j2 q_v))))) ; axiom seq-step
(assert (forall ((q_s Int) (q_d Slice_Int) (q_i Int) (q_j Int) (q_vs Slice_Any)) (! (=> (and (and (SeqPre q_s q_d (len_Slice_Any (select H_seqExpr_exprs@pre q_s)) q_i q_j (arr_Slice_Any q_vs)) (= (off_Slice_Any q_vs) 0)) (= (len_Slice_Any q_vs) (len_Slice_Any (select H_seqExpr_exprs@pre q_s)))) (D (box_Int 9 q_s) q_d q_i true q_j (box_Slice_Any 10 q_vs))) :pattern ((SeqPre q_s q_d (len_Slice_Any (select H_seqExpr_exprs@pre q_s)) q_i q_j (arr_Slice_Any q_vs)))))) ; axiom seq-ok
(assert (forall ((q_s Int) (q_d Slice_Int) (q_k Int) (q_i Int) (q_j Int) (q_a (Array Int Any)) (q_v Any)) (! (=> (and (and (and (SeqPre q_s q_d q_k q_i q_j q_a) (<= 0 q_k)) (< q_k (len_Slice_Any (select H_seqExpr_exprs@pre q_s)))) (D (elem_Slice_Any (select H_seqExpr_exprs@pre q_s) q_k) q_d q_j false q_j q_v)) (D (box_Int 9 q_s) q_d q_i false q_i nilAny)) :pattern ((SeqPre q_s q_d q_k q_i q_j q_a) (D (elem_Slice_Any (select H_seqExpr_exprs@pre q_s) q_k) q_d q_j false q_j q_v))))) ; axiom seq-fail
(assert (forall ((q_c Int) (q_d Slice_Int) (q_k Int) (q_i Int) (q_v Any)) (! (=> (and (and (and (ChoicePre q_c q_d q_k q_i) (<= 0 q_k)) (< q_k (len_Slice_Any (select H_choiceExpr_alternatives@pre q_c)))) (D (elem_Slice_Any (select H_choiceExpr_alternatives@pre q_c) q_k) q_d q_i false q_i q_v)) (ChoicePre q_c q_d (+ q_k 1) q_i)) :pattern ((ChoicePre q_c q_d q_k q_i) (D (elem_Slice_Any (select H_choiceExpr_alternatives@pre q_c) q_k) q_d q_i false q_i q_v))))) ; axiom choice-step
(assert (forall ((q_c Int) (q_d Slice_Int) (q_k Int) (q_i Int) (q_j Int) (q_v Any)) (! (=> (and (and (and (ChoicePre q_c q_d q_k q_i) (<= 0 q_k)) (< q_k (len_Slice_Any (select H_choiceExpr_alternatives@pre q_c)))) (D (elem_Slice_Any (select H_choiceExpr_alternatives@pre q_c) q_k) q_d q_i true q_j q_v)) (D (box_Int 11 q_c) q_d q_i true q_j q_v)) :pattern ((ChoicePre q_c q_d q_k q_i) (D (elem_Slice_Any (select H_choiceExpr_alternatives@pre q_c) q_k) q_d q_i true q_j q_v))))) ; axiom choice-ok
(assert (forall ((q_c Int) (q_d Slice_Int) (q_i Int)) (! (=> (ChoicePre q_c q_d (len_Slice_Any (select H_choiceExpr_alternatives@pre q_c)) q_i) (D (box_Int 11 q_c) q_d q_i false q_i nilAny)) :pattern ((ChoicePre q_c q_d (len_Slice_Any (select H_choiceExpr_alternatives@pre q_c)) q_i))))) ; axiom choice-fail
(assert (forall ((q_a Int) (q_d Slice_Int) (q_i Int) (q_ok Bool) (q_j Int) (q_v Any)) (! (=> (D (select H_andExpr_expr@pre q_a) q_d q_i q_ok q_j q_v) (D (box_Int 12 q_a) q_d q_i q_ok q_i nilAny)) :pattern ((D (select H_andExpr_expr@pre q_a) q_d q_i q_ok q_j q_v) (D (box_Int 12 q_a) q_d q_i q_ok q_i nilAny))))) ; axiom and-intro
(assert (forall ((q_n Int) (q_d Slice_Int) (q_i Int) (q_j Int) (q_v Any)) (! (=> (D (select H_notExpr_expr@pre q_n) q_d q_i true q_j q_v) (D (box_Int 13 q_n) q_d q_i false q_i nilAny)) :pattern ((D (select H_notExpr_expr@pre q_n) q_d q_i true q_j q_v))))) ; axiom not-true
(assert (forall ((q_n Int) (q_d Slice_Int) (q_i Int) (q_j Int) (q_v Any)) (! (=> (D (select H_notExpr_expr@pre q_n) q_d q_i false q_j q_v) (D (box_Int 13 q_n) q_d q_i true q_i nilAny)) :pattern ((D (select H_notExpr_expr@pre q_n) q_d q_i false q_j q_v))))) ; axiom not-false
(assert (forall ((q_e Any) (q_d Slice_Int) (q_k Int) (q_i Int) (q_j Int) (q_a (Array Int Any)) (q_j2 Int) (q_v Any)) (! (=> (and (and (RepPre q_e q_d q_k q_i q_j q_a) (<= 0 q_k)) (D q_e q_d q_j true q_j2 q_v)) (RepPre q_e q_d (+ q_k 1) q_i q_j2 (store q_a q_k q_v))) :pattern ((RepPre q_e q_d q_k q_i q_j q_a) (D q_e q_d q_j true q_j2 q_v))))) ; axiom rep-step
(assert (forall ((q_z Int) (q_d Slice_Int) (q_k Int) (q_i Int) (q_j Int) (q_vs Slice_Any) (q_v Any)) (! (=> (and (and (and (RepPre (select H_zeroOrMoreExpr_expr@pre q_z) q_d q_k q_i q_j (arr_Slice_Any q_vs)) (= (off_Slice_Any q_vs) 0)) (= (len_Slice_Any q_vs) q_k)) (D (select H_zeroOrMoreExpr_expr@pre q_z) q_d q_j false q_j q_v)) (D (box_Int 14 q_z) q_d q_i true q_j (box_Slice_Any 10 q_vs))) :pattern ((RepPre (select H_zeroOrMoreExpr_expr@pre q_z) q_d q_k q_i q_j (arr_Slice_Any q_vs)) (D (select H_zeroOrMoreExpr_expr@pre q_z) q_d q_j false q_j q_v))))) ; axiom star-ok
(assert (forall ((q_o Int) (q_d Slice_Int) (q_k Int) (q_i Int) (q_j Int) (q_vs Slice_Any) (q_v Any)) (! (=> (and (and (and (and (RepPre (select H_oneOrMoreExpr_expr@pre q_o) q_d q_k q_i q_j (arr_Slice_Any q_vs)) (>= q_k 1)) (= (off_Slice_Any q_vs) 0)) (= (len_Slice_Any q_vs) q_k)) (D (select H_oneOrMoreExpr_expr@pre q_o) q_d q_j false q_j q_v)) (D (box_Int 15 q_o) q_d q_i true q_j (box_Slice_Any 10 q_vs))) :pattern ((RepPre (select H_oneOrMoreExpr_expr@pre q_o) q_d q_k q_i q_j (arr_Slice_Any q_vs)) (D (select H_oneOrMoreExpr_expr@pre q_o) q_d q_j false q_j q_v))))) ; axiom plus-ok
(assert (forall ((q_o Int) (q_d Slice_Int) (q_i Int) (q_v Any)) (! (=> (D (select H_oneOrMoreExpr_expr@pre q_o) q_d q_i false q_i q_v) (D (box_Int 15 q_o) q_d q_i false q_i nilAny)) :pattern ((D (select H_oneOrMoreExpr_expr@pre q_o) q_d q_i false q_i q_v) (D (box_Int 15 q_o) q_d q_i false q_i nilAny))))) ; axiom plus-fail
(assert (forall ((q_z Int) (q_d Slice_Int) (q_i Int) (q_j Int) (q_v Any)) (! (=> (D (select H_zeroOrOneExpr_expr@pre q_z) q_d q_i true q_j q_v) (D (box_Int 16 q_z) q_d q_i true q_j q_v)) :pattern ((D (select H_zeroOrOneExpr_expr@pre q_z) q_d q_i true q_j q_v))))) ; axiom opt-some
(assert (forall ((q_z Int) (q_d Slice_Int) (q_i Int) (q_v Any)) (! (=> (D (select H_zeroOrOneExpr_expr@pre q_z) q_d q_i false q_i q_v) (D (box_Int 16 q_z) q_d q_i true q_i nilAny)) :pattern ((D (select H_zeroOrOneExpr_expr@pre q_z) q_d q_i false q_i q_v))))) ; axiom opt-none
(assert (forall ((q_l Int) (q_d Slice_Int) (q_i Int) (q_ok Bool) (q_j Int) (q_v Any)) (! (=> (D (select H_labeledExpr_expr@pre q_l) q_d q_i q_ok q_j q_v) (D (box_Int 17 q_l) q_d q_i q_ok q_j q_v)) :pattern ((D (select H_labeledExpr_expr@pre q_l) q_d q_i q_ok q_j q_v))))) ; axiom label-intro
(assert (forall ((q_a Int) (q_d Slice_Int) (q_i Int) (q_j Int) (q_v Any) (q_w Any)) (! (=> (D (select H_actionExpr_expr@pre q_a) q_d q_i true q_j q_v) (D (box_Int 18 q_a) q_d q_i true q_j q_w)) :pattern ((D (select H_actionExpr_expr@pre q_a) q_d q_i true q_j q_v) (D (box_Int 18 q_a) q_d q_i true q_j q_w))))) ; axiom action-ok
(assert (forall ((q_a Int) (q_d Slice_Int) (q_i Int) (q_v Any)) (! (=> (D (select H_actionExpr_expr@pre q_a) q_d q_i false q_i q_v) (D (box_Int 18 q_a) q_d q_i false q_i nilAny)) :pattern ((D (select H_actionExpr_expr@pre q_a) q_d q_i false q_i q_v))))) ; axiom action-fail
(assert (forall ((q_a Int) (q_d Slice_Int) (q_i Int) (q_ok Bool)) (! (D (box_Int 4 q_a) q_d q_i q_ok q_i nilAny) :pattern ((D (box_Int 4 q_a) q_d q_i q_ok q_i nilAny))))) ; axiom andcode
(assert (forall ((q_a Int) (q_d Slice_Int) (q_i Int) (q_ok Bool)) (! (D (box_Int 19 q_a) q_d q_i q_ok q_i nilAny) :pattern ((D (box_Int 19 q_a) q_d q_i q_ok q_i nilAny))))) ; axiom notcode
(assert (forall ((q_a Int) (q_d Slice_Int) (q_i Int)) (! (D (box_Int 20 q_a) q_d q_i true q_i nilAny) :pattern ((D (box_Int 20 q_a) q_d q_i true q_i nilAny))))) ; axiom statecode
(assert (forall ((q_t Int) (q_d Slice_Int) (q_i Int) (q_ok Bool) (q_j Int) (q_v Any)) (! (D (box_Int 21 q_t) q_d q_i q_ok q_j q_v) :pattern ((D (box_Int 21 q_t) q_d q_i q_ok q_j q_v))))) ; axiom throw-any
(assert (forall ((q_r Int) (q_d Slice_Int) (q_i Int) (q_ok Bool) (q_j Int) (q_v Any)) (! (D (box_Int 22 q_r) q_d q_i q_ok q_j q_v) :pattern ((D (box_Int 22 q_r) q_d q_i q_ok q_j q_v))))) ; axiom recovery-any
(assert (forall ((q_rs Slice_Int) (q_l Str) (q_d Slice_Int) (q_i Int)) (! (ThrowPre q_rs (- (len_Slice_Int q_rs) 1) q_l q_d q_i) :pattern ((ThrowPre q_rs (- (len_Slice_Int q_rs) 1) q_l q_d q_i))))) ; axiom throw-base
(assert (forall ((q_rs Slice_Int) (q_n Int) (q_l Str) (q_d Slice_Int) (q_i Int)) (! (=> (and (and (and (ThrowPre q_rs q_n q_l q_d q_i) (<= 0 q_n)) (< q_n (len_Slice_Int q_rs))) (not (and (not (= (elem_Slice_Int q_rs q_n) 0)) (select (select Mdom_map_string_any@pre (elem_Slice_Int q_rs q_n)) q_l)))) (ThrowPre q_rs (- q_n 1) q_l q_d q_i)) :pattern ((ThrowPre q_rs q_n q_l q_d q_i))))) ; axiom throw-skip
(assert (forall ((q_rs Slice_Int) (q_n Int) (q_l Str) (q_d Slice_Int) (q_i Int) (q_v Any)) (! (=> (and (and (and (and (ThrowPre q_rs q_n q_l q_d q_i) (<= 0 q_n)) (< q_n (len_Slice_Int q_rs))) (and (not (= (elem_Slice_Int q_rs q_n) 0)) (select (select Mdom_map_string_any@pre (elem_Slice_Int q_rs q_n)) q_l))) (D (select (select Mval_map_string_any@pre (elem_Slice_Int q_rs q_n)) q_l) q_d q_i false q_i q_v)) (ThrowPre q_rs (- q_n 1) q_l q_d q_i)) :pattern ((ThrowPre q_rs q_n q_l q_d q_i) (D (select (select Mval_map_string_any@pre (elem_Slice_Int q_rs q_n)) q_l) q_d q_i false q_i q_v))))) ; axiom throw-next
(assert (forall ((q_rs Slice_Int) (q_n Int) (q_l Str) (q_d Slice_Int) (q_i Int) (q_j Int) (q_v Any)) (! (=> (and (and (and (and (ThrowPre q_rs q_n q_l q_d q_i) (<= 0 q_n)) (< q_n (len_Slice_Int q_rs))) (and (not (= (elem_Slice_Int q_rs q_n) 0)) (select (select Mdom_map_string_any@pre (elem_Slice_Int q_rs q_n)) q_l))) (D (select (select Mval_map_string_any@pre (elem_Slice_Int q_rs q_n)) q_l) q_d q_i true q_j q_v)) (TH q_rs q_l q_d q_i true q_j q_v)) :pattern ((ThrowPre q_rs q_n q_l q_d q_i) (D (select (select Mval_map_string_any@pre (elem_Slice_Int q_rs q_n)) q_l) q_d q_i true q_j q_v))))) ; axiom throw-ok
(assert (forall ((q_rs Slice_Int) (q_l Str) (q_d Slice_Int) (q_i Int)) (! (=> (ThrowPre q_rs (- 0 1) q_l q_d q_i) (TH q_rs q_l q_d q_i false q_i nilAny)) :pattern ((ThrowPre q_rs (- 0 1) q_l q_d q_i))))) ; axiom throw-fail
(assert (forall ((q_r Int) (q_d Slice_Int) (q_i Int) (q_ok Bool) (q_j Int) (q_v Any)) (! (=> (D (select H_rule_expr@pre q_r) q_d q_i q_ok q_j q_v) (DR q_r q_d q_i q_ok q_j q_v)) :pattern ((D (select H_rule_expr@pre q_r) q_d q_i q_ok q_j q_v))))) ; axiom rule-intro
(assert (forall ((q_f Int) (q_r Int) (q_d Slice_Int) (q_i Int) (q_ok Bool) (q_j Int) (q_v Any)) (! (=> (and (and (DR q_r q_d q_i q_ok q_j q_v) (not (= q_r 0))) (= (select H_rule_name@pre q_r) (select H_ruleRefExpr_name@pre q_f))) (D (box_Int 23 q_f) q_d q_i q_ok q_j q_v)) :pattern ((DR q_r q_d q_i q_ok q_j q_v) (D (box_Int 23 q_f) q_d q_i q_ok q_j q_v))))) ; axiom ref-intro
(assert (forall ((q_f Int) (q_d Slice_Int) (q_i Int)) (! (=> (not (defined (select H_ruleRefExpr_name@pre q_f))) (D (box_Int 23 q_f) q_d q_i false q_i nilAny)) :pattern ((D (box_Int 23 q_f) q_d q_i false q_i nilAny))))) ; axiom ref-undef
(assert (forall ((q_e Any)) (! (= (IsNode q_e) (or (or (or (or (or (or (or (or (or (or (or (or (or (or (or (or (or (and (= (typeOf q_e) 18) (not (= (unbox_Int q_e) 0))) (and (= (typeOf q_e) 4) (not (= (unbox_Int q_e) 0)))) (and (= (typeOf q_e) 12) (not (= (unbox_Int q_e) 0)))) (and (= (typeOf q_e) 8) (not (= (unbox_Int q_e) 0)))) (and (= (typeOf q_e) 7) (not (= (unbox_Int q_e) 0)))) (and (= (typeOf q_e) 11) (not (= (unbox_Int q_e) 0)))) (and (= (typeOf q_e) 17) (not (= (unbox_Int q_e) 0)))) (and (= (typeOf q_e) 6) (not (= (unbox_Int q_e) 0)))) (and (= (typeOf q_e) 19) (not (= (unbox_Int q_e) 0)))) (and (= (typeOf q_e) 13) (not (= (unbox_Int q_e) 0)))) (and (= (typeOf q_e) 15) (not (= (unbox_Int q_e) 0)))) (and (= (typeOf q_e) 22) (not (= (unbox_Int q_e) 0)))) (and (= (typeOf q_e) 23) (not (= (unbox_Int q_e) 0)))) (and (= (typeOf q_e) 9) (not (= (unbox_Int q_e) 0)))) (and (= (typeOf q_e) 20) (not (= (unbox_Int q_e) 0)))) (and (= (typeOf q_e) 21) (not (= (unbox_Int q_e) 0)))) (and (= (typeOf q_e) 14) (not (= (unbox_Int q_e) 0)))) (and (= (typeOf q_e) 16) (not (= (unbox_Int q_e) 0))))) :pattern ((IsNode q_e))))) ; axiom node-def
(assert (forall ((q_a Int)) (! (=> (not (= q_a 0)) (and (IsNode (select H_actionExpr_expr@pre q_a)) (not (= (select H_actionExpr_run@pre q_a) 0)))) :pattern ((select H_actionExpr_expr@pre q_a))))) ; axiom wf-action
(assert (forall ((q_a Int)) (! (=> (not (= q_a 0)) (IsNode (select H_andExpr_expr@pre q_a))) :pattern ((select H_andExpr_expr@pre q_a))))) ; axiom wf-and
(assert (forall ((q_a Int)) (! (=> (not (= q_a 0)) (IsNode (select H_notExpr_expr@pre q_a))) :pattern ((select H_notExpr_expr@pre q_a))))) ; axiom wf-not
(assert (forall ((q_a Int)) (! (=> (not (= q_a 0)) (IsNode (select H_zeroOrOneExpr_expr@pre q_a))) :pattern ((select H_zeroOrOneExpr_expr@pre q_a))))) ; axiom wf-opt
(assert (forall ((q_a Int)) (! (=> (not (= q_a 0)) (IsNode (select H_zeroOrMoreExpr_expr@pre q_a))) :pattern ((select H_zeroOrMoreExpr_expr@pre q_a))))) ; axiom wf-star
(assert (forall ((q_a Int)) (! (=> (not (= q_a 0)) (IsNode (select H_oneOrMoreExpr_expr@pre q_a))) :pattern ((select H_oneOrMoreExpr_expr@pre q_a))))) ; axiom wf-plus
(assert (forall ((q_a Int)) (! (=> (not (= q_a 0)) (IsNode (select H_labeledExpr_expr@pre q_a))) :pattern ((select H_labeledExpr_expr@pre q_a))))) ; axiom wf-label
(assert (forall ((q_a Int)) (! (=> (not (= q_a 0)) (IsNode (select H_recoveryExpr_expr@pre q_a))) :pattern ((select H_recoveryExpr_expr@pre q_a))))) ; axiom wf-recovery
(assert (forall ((q_a Int)) (! (=> (not (= q_a 0)) (IsNode (select H_recoveryExpr_recoverExpr@pre q_a))) :pattern ((select H_recoveryExpr_recoverExpr@pre q_a))))) ; axiom wf-recovery2
(assert (forall ((q_s Int) (q_k Int)) (! (=> (and (and (not (= q_s 0)) (<= 0 q_k)) (< q_k (len_Slice_Any (select H_seqExpr_exprs@pre q_s)))) (IsNode (elem_Slice_Any (select H_seqExpr_exprs@pre q_s) q_k))) :pattern ((elem_Slice_Any (select H_seqExpr_exprs@pre q_s) q_k))))) ; axiom wf-seq
(assert (forall ((q_c Int) (q_k Int)) (! (=> (and (and (not (= q_c 0)) (<= 0 q_k)) (< q_k (len_Slice_Any (select H_choiceExpr_alternatives@pre q_c)))) (IsNode (elem_Slice_Any (select H_choiceExpr_alternatives@pre q_c) q_k))) :pattern ((elem_Slice_Any (select H_choiceExpr_alternatives@pre q_c) q_k))))) ; axiom wf-choice
(assert (forall ((q_a Int)) (! (=> (not (= q_a 0)) (not (= (select H_andCodeExpr_run@pre q_a) 0))) :pattern ((select H_andCodeExpr_run@pre q_a))))) ; axiom wf-andcode
(assert (forall ((q_a Int)) (! (=> (not (= q_a 0)) (not (= (select H_notCodeExpr_run@pre q_a) 0))) :pattern ((select H_notCodeExpr_run@pre q_a))))) ; axiom wf-notcode
(assert (forall ((q_a Int)) (! (=> (not (= q_a 0)) (not (= (select H_stateCodeExpr_run@pre q_a) 0))) :pattern ((select H_stateCodeExpr_run@pre q_a))))) ; axiom wf-statecode
(assert (forall ((q_c Int)) (! (=> (not (= q_c 0)) (= (mod (len_Slice_Int (select H_charClassMatcher_ranges@pre q_c)) 2) 0)) :pattern ((select H_charClassMatcher_ranges@pre q_c))))) ; axiom wf-class
(assert (forall ((q_r Int)) (! (=> (not (= q_r 0)) (IsNode (select H_rule_expr@pre q_r))) :pattern ((select H_rule_expr@pre q_r))))) ; axiom wf-rule
(assert (forall ((q_c Int) (q_r Int)) (! (=> (and (and (<= (- 2147483648) q_r) (<= q_r 2147483647)) true) (=> (and (and (not (= q_c 0)) (<= 0 q_r)) (< q_r 128)) (= (select (select H_charClassMatcher_basicLatinChars@pre q_c) q_r) (or (or (exists ((q_k Int)) (and (and (<= 0 q_k) (< q_k (len_Slice_Int (select H_charClassMatcher_chars@pre q_c)))) (= (elem_Slice_Int (select H_charClassMatcher_chars@pre q_c) q_k) (ite (select H_charClassMatcher_ignoreCase@pre q_c) (toLower q_r) q_r)))) (exists ((q_k Int)) (and (and (and (<= 0 q_k) (< (+ (* 2 q_k) 1) (len_Slice_Int (select H_charClassMatcher_ranges@pre q_c)))) (<= (elem_Slice_Int (select H_charClassMatcher_ranges@pre q_c) (* 2 q_k)) (ite (select H_charClassMatcher_ignoreCase@pre q_c) (toLower q_r) q_r))) (<= (ite (select H_charClassMatcher_ignoreCase@pre q_c) (toLower q_r) q_r) (elem_Slice_Int (select H_charClassMatcher_ranges@pre q_c) (+ (* 2 q_k) 1)))))) (exists ((q_k Int)) (and (and (<= 0 q_k) (< q_k (len_Slice_Int (select H_charClassMatcher_classes@pre q_c)))) (uniIs (elem_Slice_Int (select H_charClassMatcher_classes@pre q_c) q_k) (ite (select H_charClassMatcher_ignoreCase@pre q_c) (toLower q_r) q_r)))))))) :pattern ((select (select H_charClassMatcher_basicLatinChars@pre q_c) q_r))))) ; axiom wf-bltable
(assert (forall ((q_a Any)) (! (CloneEq q_a q_a) :pattern ((CloneEq q_a q_a))))) ; axiom cloneeq-refl
(assert (forall ((q_a Any) (q_b Any) (q_c Any)) (! (=> (and (CloneEq q_a q_b) (CloneEq q_b q_c)) (CloneEq q_a q_c)) :pattern ((CloneEq q_a q_b) (CloneEq q_b q_c))))) ; axiom cloneeq-trans
(assert (forall ((q_b Slice_Int)) (! (and (=> (= (len_Slice_Int q_b) 0) (and (= (decR q_b) 65533) (= (decW q_b) 0))) (=> (> (len_Slice_Int q_b) 0) (and (and (<= 1 (decW q_b)) (<= (decW q_b) 4)) (<= (decW q_b) (len_Slice_Int q_b))))) :pattern ((decW q_b))))) ; axiom dec-eof
(assert (forall ((q_a Any) (q_b Any) (q_c Any)) (! (> (slen (sprintf_3 str!2 q_a q_b q_c)) 0) :pattern ((sprintf_3 str!2 q_a q_b q_c))))) ; axiom sprintf-pos-nonempty
(assert (forall ((q_b Slice_Int)) (! (and (<= 0 (decR q_b)) (<= (decR q_b) 1114111)) :pattern ((decR q_b))))) ; axiom dec-range
(assert (forall ((q_l Int) (q_d Slice_Int) (q_i Int)) (! (LitPre q_l q_d 0 q_i q_i) :pattern ((LitPre q_l q_d 0 q_i q_i))))) ; axiom lit-base
(assert (forall ((q_s Int) (q_d Slice_Int) (q_i Int) (q_a (Array Int Any))) (! (SeqPre q_s q_d 0 q_i q_i q_a) :pattern ((SeqPre q_s q_d 0 q_i q_i q_a))))) ; axiom seq-base
(assert (forall ((q_c Int) (q_d Slice_Int) (q_i Int)) (! (ChoicePre q_c q_d 0 q_i) :pattern ((ChoicePre q_c q_d 0 q_i))))) ; axiom choice-base
(assert (forall ((q_e Any) (q_d Slice_Int) (q_i Int) (q_a (Array Int Any))) (! (RepPre q_e q_d 0 q_i q_i q_a) :pattern ((RepPre q_e q_d 0 q_i q_i q_a))))) ; axiom rep-base
(assert (forall ((r Int)) (! (and (<= 0 (len_Slice_Int (select H_parser_rstack@pre r))) (<= (len_Slice_Int (select H_parser_rstack@pre r)) (cap_Slice_Int (select H_parser_rstack@pre r))) (<= 0 (off_Slice_Int (select H_parser_rstack@pre r)))) :pattern ((select H_parser_rstack@pre r)))))
(assert (forall ((r Int)) (! (and (<= 0 (len_Slice_Int (select H_parser_vstack@pre r))) (<= (len_Slice_Int (select H_parser_vstack@pre r)) (cap_Slice_Int (select H_parser_vstack@pre r))) (<= 0 (off_Slice_Int (select H_parser_vstack@pre r)))) :pattern ((select H_parser_vstack@pre r)))))
(assert (forall ((r Int)) (! (and (<= 0 (len_Slice_Int (select H_parser_recoveryStack@pre r))) (<= (len_Slice_Int (select H_parser_recoveryStack@pre r)) (cap_Slice_Int (select H_parser_recoveryStack@pre r))) (<= 0 (off_Slice_Int (select H_parser_recoveryStack@pre r)))) :pattern ((select H_parser_recoveryStack@pre r)))))
(assert (forall ((r Int)) (! (and (<= 0 (len_Slice_Int (select H_parser_data@pre r))) (<= (len_Slice_Int (select H_parser_data@pre r)) (cap_Slice_Int (select H_parser_data@pre r))) (<= 0 (off_Slice_Int (select H_parser_data@pre r)))) :pattern ((select H_parser_data@pre r)))))
(assert (forall ((r Int)) (! (and (<= 0 (len_Slice_Any (select P_Slice_Any@pre r))) (<= (len_Slice_Any (select P_Slice_Any@pre r)) (cap_Slice_Any (select P_Slice_Any@pre r))) (<= 0 (off_Slice_Any (select P_Slice_Any@pre r)))) :pattern ((select P_Slice_Any@pre r)))))
(assert (forall ((r Int)) (! (and (<= 0 (len_Slice_Int (select H_charClassMatcher_chars@pre r))) (<= (len_Slice_Int (select H_charClassMatcher_chars@pre r)) (cap_Slice_Int (select H_charClassMatcher_chars@pre r))) (<= 0 (off_Slice_Int (select H_charClassMatcher_chars@pre r)))) :pattern ((select H_charClassMatcher_chars@pre r)))))
(assert (forall ((r Int)) (! (and (<= 0 (len_Slice_Int (select H_charClassMatcher_ranges@pre r))) (<= (len_Slice_Int (select H_charClassMatcher_ranges@pre r)) (cap_Slice_Int (select H_charClassMatcher_ranges@pre r))) (<= 0 (off_Slice_Int (select H_charClassMatcher_ranges@pre r)))) :pattern ((select H_charClassMatcher_ranges@pre r)))))
(assert (forall ((r Int)) (! (and (<= 0 (len_Slice_Int (select H_charClassMatcher_classes@pre r))) (<= (len_Slice_Int (select H_charClassMatcher_classes@pre r)) (cap_Slice_Int (select H_charClassMatcher_classes@pre r))) (<= 0 (off_Slice_Int (select H_charClassMatcher_classes@pre r)))) :pattern ((select H_charClassMatcher_classes@pre r)))))
(assert (forall ((r Int)) (! (and (<= 0 (len_Slice_Any (select H_seqExpr_exprs@pre r))) (<= (len_Slice_Any (select H_seqExpr_exprs@pre r)) (cap_Slice_Any (select H_seqExpr_exprs@pre r))) (<= 0 (off_Slice_Any (select H_seqExpr_exprs@pre r)))) :pattern ((select H_seqExpr_exprs@pre r)))))
(assert (forall ((r Int)) (! (and (<= 0 (len_Slice_Any (select H_choiceExpr_alternatives@pre r))) (<= (len_Slice_Any (select H_choiceExpr_alternatives@pre r)) (cap_Slice_Any (select H_choiceExpr_alternatives@pre r))) (<= 0 (off_Slice_Any (select H_choiceExpr_alternatives@pre r)))) :pattern ((select H_choiceExpr_alternatives@pre r)))))
(assert (and (and (and (and (and (and (and (and (and (and (and (and (and (and (not (= in_p 0)) (not (= (select H_parser_errs@pre in_p) 0))) (not (= (select H_parser_Stats@pre in_p) 0))) (forall ((q_k Int)) (=> (and (<= 0 q_k) (< q_k (len_Slice_Int (select H_parser_rstack@pre in_p)))) (not (= (elem_Slice_Int (select H_parser_rstack@pre in_p) q_k) 0))))) (forall ((q_k Int)) (=> (and (<= 0 q_k) (< q_k (len_Slice_Int (select H_parser_vstack@pre in_p)))) (not (= (elem_Slice_Int (select H_parser_vstack@pre in_p) q_k) 0))))) (forall ((q_k Int)) (=> (and (<= 0 q_k) (< q_k (len_Slice_Int (select H_parser_recoveryStack@pre in_p)))) (not (= (elem_Slice_Int (select H_parser_recoveryStack@pre in_p) q_k) 0))))) (forall ((q_n Str)) (! (and (= (and (not (= (select H_parser_rules@pre in_p) 0)) (select (select Mdom_map_string__rt.rule@pre (select H_parser_rules@pre in_p)) q_n)) (defined q_n)) (=> (and (not (= (select H_parser_rules@pre in_p) 0)) (select (select Mdom_map_string__rt.rule@pre (select H_parser_rules@pre in_p)) q_n)) (and (not (= (select (select Mval_map_string__rt.rule@pre (select H_parser_rules@pre in_p)) q_n) 0)) (= (select H_rule_name@pre (select (select Mval_map_string__rt.rule@pre (select H_parser_rules@pre in_p)) q_n)) q_n)))) :pattern ((select (select Mdom_map_string__rt.rule@pre (select H_parser_rules@pre in_p)) q_n))))) (not (= (select H_Stats_ChoiceAltCnt@pre (select H_parser_Stats@pre in_p)) 0))) (forall ((q_k Int)) (! (=> (and (<= 0 q_k) (< q_k (cap_Slice_Int (select H_parser_vstack@pre in_p)))) (or (= (elem_Slice_Int (select H_parser_vstack@pre in_p) q_k) 0) (select Alloc@pre (elem_Slice_Int (select H_parser_vstack@pre in_p) q_k)))) :pattern ((elem_Slice_Int (select H_parser_vstack@pre in_p) q_k))))) (and (and (forall ((q_j Int)) (! (=> (and (<= 0 q_j) (< q_j (len_Slice_Int (select H_parser_recoveryStack@pre in_p)))) (select Alloc@pre (elem_Slice_Int (select H_parser_recoveryStack@pre in_p) q_j))) :pattern ((elem_Slice_Int (select H_parser_recoveryStack@pre in_p) q_j)))) (forall ((q_j Int) (q_k Int)) (! (=> (and (and (and (<= 0 q_j) (< q_j (len_Slice_Int (select H_parser_recoveryStack@pre in_p)))) (<= 0 q_k)) (< q_k (cap_Slice_Int (select H_parser_vstack@pre in_p)))) (not (= (elem_Slice_Int (select H_parser_recoveryStack@pre in_p) q_j) (elem_Slice_Int (select H_parser_vstack@pre in_p) q_k)))) :pattern ((elem_Slice_Int (select H_parser_recoveryStack@pre in_p) q_j) (elem_Slice_Int (select H_parser_vstack@pre in_p) q_k))))) (forall ((q_j Int) (q_l Str)) (! (=> (and (and (<= 0 q_j) (< q_j (len_Slice_Int (select H_parser_recoveryStack@pre in_p)))) (and (not (= (elem_Slice_Int (select H_parser_recoveryStack@pre in_p) q_j) 0)) (select (select Mdom_map_string_any@pre (elem_Slice_Int (select H_parser_recoveryStack@pre in_p) q_j)) q_l))) (IsNode (select (select Mval_map_string_any@pre (elem_Slice_Int (select H_parser_recoveryStack@pre in_p) q_j)) q_l))) :pattern ((select (select Mdom_map_string_any@pre (elem_Slice_Int (select H_parser_recoveryStack@pre in_p) q_j)) q_l)))))) (and (and (and (and (and (and (bnd (select H_parser_data@pre in_p) (S_position_offset (S_savepoint_position (select H_parser_pt@pre in_p)))) (<= 0 (S_position_offset (S_savepoint_position (select H_parser_pt@pre in_p))))) (<= (S_position_offset (S_savepoint_position (select H_parser_pt@pre in_p))) (len_Slice_Int (select H_parser_data@pre in_p)))) (= (S_savepoint_rn (select H_parser_pt@pre in_p)) (decR (mk_Slice_Int (arr_Slice_Int (select H_parser_data@pre in_p)) (+ (off_Slice_Int (select H_parser_data@pre in_p)) (S_position_offset (S_savepoint_position (select H_parser_pt@pre in_p)))) (- (len_Slice_Int (select H_parser_data@pre in_p)) (S_position_offset (S_savepoint_position (select H_parser_pt@pre in_p)))) (- (cap_Slice_Int (select H_parser_data@pre in_p)) (S_position_offset (S_savepoint_position (select H_parser_pt@pre in_p)))))))) (= (S_savepoint_w (select H_parser_pt@pre in_p)) (decW (mk_Slice_Int (arr_Slice_Int (select H_parser_data@pre in_p)) (+ (off_Slice_Int (select H_parser_data@pre in_p)) (S_position_offset (S_savepoint_position (select H_parser_pt@pre in_p)))) (- (len_Slice_Int (select H_parser_data@pre in_p)) (S_position_offset (S_savepoint_position (select H_parser_pt@pre in_p)))) (- (cap_Slice_Int (select H_parser_data@pre in_p)) (S_position_offset (S_savepoint_position (select H_parser_pt@pre in_p)))))))) (= (S_position_line (S_savepoint_position (select H_parser_pt@pre in_p))) (lineAt (select H_parser_data@pre in_p) (S_position_offset (S_savepoint_position (select H_parser_pt@pre in_p)))))) (= (S_position_col (S_savepoint_position (select H_parser_pt@pre in_p))) (colAt (select H_parser_data@pre in_p) (S_position_offset (S_savepoint_position (select H_parser_pt@pre in_p))))))) (and (and (and (and (not (= (S_current_state (select H_parser_cur@pre in_p)) 0)) (select Alloc@pre (S_current_state (select H_parser_cur@pre in_p)))) (not (= (S_current_globalStore (select H_parser_cur@pre in_p)) 0))) (select Alloc@pre (S_current_globalStore (select H_parser_cur@pre in_p)))) (not (= (S_current_state (select H_parser_cur@pre in_p)) (S_current_globalStore (select H_parser_cur@pre in_p)))))) (and (and (forall ((q_o Int)) (! (=> (and (not (= (select H_parser_memo@pre in_p) 0)) (select (select Mdom_map_int_map_any_rt.resultTuple@pre (select H_parser_memo@pre in_p)) q_o)) (and (not (= (select (select Mval_map_int_map_any_rt.resultTuple@pre (select H_parser_memo@pre in_p)) q_o) 0)) (select Alloc@pre (select (select Mval_map_int_map_any_rt.resultTuple@pre (select H_parser_memo@pre in_p)) q_o)))) :pattern ((select (select Mdom_map_int_map_any_rt.resultTuple@pre (select H_parser_memo@pre in_p)) q_o)))) (forall ((q_o1 Int) (q_o2 Int)) (! (=> (and (and (and (not (= (select H_parser_memo@pre in_p) 0)) (select (select Mdom_map_int_map_any_rt.resultTuple@pre (select H_parser_memo@pre in_p)) q_o1)) (and (not (= (select H_parser_memo@pre in_p) 0)) (select (select Mdom_map_int_map_any_rt.resultTuple@pre (select H_parser_memo@pre in_p)) q_o2))) (not (= q_o1 q_o2))) (not (= (select (select Mval_map_int_map_any_rt.resultTuple@pre (select H_parser_memo@pre in_p)) q_o1) (select (select Mval_map_int_map_any_rt.resultTuple@pre (select H_parser_memo@pre in_p)) q_o2)))) :pattern ((select (select Mdom_map_int_map_any_rt.resultTuple@pre (select H_parser_memo@pre in_p)) q_o1) (select (select Mdom_map_int_map_any_rt.resultTuple@pre (select H_parser_memo@pre in_p)) q_o2))))) (forall ((q_o Int) (q_n Any)) (! (=> (and (and (not (= (select H_parser_memo@pre in_p) 0)) (select (select Mdom_map_int_map_any_rt.resultTuple@pre (select H_parser_memo@pre in_p)) q_o)) (and (not (= (select (select Mval_map_int_map_any_rt.resultTuple@pre (select H_parser_memo@pre in_p)) q_o) 0)) (select (select Mdom_map_any_rt.resultTuple@pre (select (select Mval_map_int_map_any_rt.resultTuple@pre (select H_parser_memo@pre in_p)) q_o)) q_n))) (and (and (and (and (and (and (and (and (and (bnd (select H_parser_data@pre in_p) (S_position_offset (S_savepoint_position (S_resultTuple_end (select (select Mval_map_any_rt.resultTuple@pre (select (select Mval_map_int_map_any_rt.resultTuple@pre (select H_parser_memo@pre in_p)) q_o)) q_n))))) (<= 0 (S_position_offset (S_savepoint_position (S_resultTuple_end (select (select Mval_map_any_rt.resultTuple@pre (select (select Mval_map_int_map_any_rt.resultTuple@pre (select H_parser_memo@pre in_p)) q_o)) q_n)))))) (<= (S_position_offset (S_savepoint_position (S_resultTuple_end (select (select Mval_map_any_rt.resultTuple@pre (select (select Mval_map_int_map_any_rt.resultTuple@pre (select H_parser_memo@pre in_p)) q_o)) q_n)))) (len_Slice_Int (select H_parser_data@pre in_p)))) (= (S_savepoint_rn (S_resultTuple_end (select (select Mval_map_any_rt.resultTuple@pre (select (select Mval_map_int_map_any_rt.resultTuple@pre (select H_parser_memo@pre in_p)) q_o)) q_n))) (decR (mk_Slice_Int (arr_Slice_Int (select H_parser_data@pre in_p)) (+ (off_Slice_Int (select H_parser_data@pre in_p)) (S_position_offset (S_savepoint_position (S_resultTuple_end (select (select Mval_map_any_rt.resultTuple@pre (select (select Mval_map_int_map_any_rt.resultTuple@pre (select H_parser_memo@pre in_p)) q_o)) q_n))))) (- (len_Slice_Int (select H_parser_data@pre in_p)) (S_position_offset (S_savepoint_position (S_resultTuple_end (select (select Mval_map_any_rt.resultTuple@pre (select (select Mval_map_int_map_any_rt.resultTuple@pre (select H_parser_memo@pre in_p)) q_o)) q_n))))) (- (cap_Slice_Int (select H_parser_data@pre in_p)) (S_position_offset (S_savepoint_position (S_resultTuple_end (select (select Mval_map_any_rt.resultTuple@pre (select (select Mval_map_int_map_any_rt.resultTuple@pre (select H_parser_memo@pre in_p)) q_o)) q_n))))))))) (= (S_savepoint_w (S_resultTuple_end (select (select Mval_map_any_rt.resultTuple@pre (select (select Mval_map_int_map_any_rt.resultTuple@pre (select H_parser_memo@pre in_p)) q_o)) q_n))) (decW (mk_Slice_Int (arr_Slice_Int (select H_parser_data@pre in_p)) (+ (off_Slice_Int (select H_parser_data@pre in_p)) (S_position_offset (S_savepoint_position (S_resultTuple_end (select (select Mval_map_any_rt.resultTuple@pre (select (select Mval_map_int_map_any_rt.resultTuple@pre (select H_parser_memo@pre in_p)) q_o)) q_n))))) (- (len_Slice_Int (select H_parser_data@pre in_p)) (S_position_offset (S_savepoint_position (S_resultTuple_end (select (select Mval_map_any_rt.resultTuple@pre (select (select Mval_map_int_map_any_rt.resultTuple@pre (select H_parser_memo@pre in_p)) q_o)) q_n))))) (- (cap_Slice_Int (select H_parser_data@pre in_p)) (S_position_offset (S_savepoint_position (S_resultTuple_end (select (select Mval_map_any_rt.resultTuple@pre (select (select Mval_map_int_map_any_rt.resultTuple@pre (select H_parser_memo@pre in_p)) q_o)) q_n))))))))) (= (S_position_line (S_savepoint_position (S_resultTuple_end (select (select Mval_map_any_rt.resultTuple@pre (select (select Mval_map_int_map_any_rt.resultTuple@pre (select H_parser_memo@pre in_p)) q_o)) q_n)))) (lineAt (select H_parser_data@pre in_p) (S_position_offset (S_savepoint_position (S_resultTuple_end (select (select Mval_map_any_rt.resultTuple@pre (select (select Mval_map_int_map_any_rt.resultTuple@pre (select H_parser_memo@pre in_p)) q_o)) q_n))))))) (= (S_position_col (S_savepoint_position (S_resultTuple_end (select (select Mval_map_any_rt.resultTuple@pre (select (select Mval_map_int_map_any_rt.resultTuple@pre (select H_parser_memo@pre in_p)) q_o)) q_n)))) (colAt (select H_parser_data@pre in_p) (S_position_offset (S_savepoint_position (S_resultTuple_end (select (select Mval_map_any_rt.resultTuple@pre (select (select Mval_map_int_map_any_rt.resultTuple@pre (select H_parser_memo@pre in_p)) q_o)) q_n))))))) (>= (S_position_offset (S_savepoint_position (S_resultTuple_end (select (select Mval_map_any_rt.resultTuple@pre (select (select Mval_map_int_map_any_rt.resultTuple@pre (select H_parser_memo@pre in_p)) q_o)) q_n)))) q_o)) (=> (not (S_resultTuple_b (select (select Mval_map_any_rt.resultTuple@pre (select (select Mval_map_int_map_any_rt.resultTuple@pre (select H_parser_memo@pre in_p)) q_o)) q_n))) (and (= (S_position_offset (S_savepoint_position (S_resultTuple_end (select (select Mval_map_any_rt.resultTuple@pre (select (select Mval_map_int_map_any_rt.resultTuple@pre (select H_parser_memo@pre in_p)) q_o)) q_n)))) q_o) (= (S_resultTuple_v (select (select Mval_map_any_rt.resultTuple@pre (select (select Mval_map_int_map_any_rt.resultTuple@pre (select H_parser_memo@pre in_p)) q_o)) q_n)) nilAny)))) (ite (= (typeOf q_n) 1) (and (not (= (unbox_Int q_n) 0)) (DR (unbox_Int q_n) (select H_parser_data@pre in_p) q_o (S_resultTuple_b (select (select Mval_map_any_rt.resultTuple@pre (select (select Mval_map_int_map_any_rt.resultTuple@pre (select H_parser_memo@pre in_p)) q_o)) q_n)) (S_position_offset (S_savepoint_position (S_resultTuple_end (select (select Mval_map_any_rt.resultTuple@pre (select (select Mval_map_int_map_any_rt.resultTuple@pre (select H_parser_memo@pre in_p)) q_o)) q_n)))) (S_resultTuple_v (select (select Mval_map_any_rt.resultTuple@pre (select (select Mval_map_int_map_any_rt.resultTuple@pre (select H_parser_memo@pre in_p)) q_o)) q_n)))) (and (IsNode q_n) (D q_n (select H_parser_data@pre in_p) q_o (S_resultTuple_b (select (select Mval_map_any_rt.resultTuple@pre (select (select Mval_map_int_map_any_rt.resultTuple@pre (select H_parser_memo@pre in_p)) q_o)) q_n)) (S_position_offset (S_savepoint_position (S_resultTuple_end (select (select Mval_map_any_rt.resultTuple@pre (select (select Mval_map_int_map_any_rt.resultTuple@pre (select H_parser_memo@pre in_p)) q_o)) q_n)))) (S_resultTuple_v (select (select Mval_map_any_rt.resultTuple@pre (select (select Mval_map_int_map_any_rt.resultTuple@pre (select H_parser_memo@pre in_p)) q_o)) q_n))))))) :pattern ((select (select Mdom_map_any_rt.resultTuple@pre (select (select Mval_map_int_map_any_rt.resultTuple@pre (select H_parser_memo@pre in_p)) q_o)) q_n)))))) (and (>= (len_Slice_Int (select H_parser_vstack@pre in_p)) 1) (>= (len_Slice_Int (select H_parser_rstack@pre in_p)) 1))) (not (= in_and 0))))
(assert (<= (select H_Stats_ExprCnt@pre (select H_parser_Stats@pre in_p)) (select H_parser_maxExprCnt@pre in_p)))
(assert (select H_parser_debug@pre in_p))
(assert (not (= in_p 0)))
(assert (= H_parser_depth!2 (store H_parser_depth@pre in_p hv!1)))
(assert (forall ((r Int)) (! (=> (select Alloc@pre r) (select Alloc!3 r)) :pattern ((select Alloc!3 r)))))
(assert (= ret_parser_in!4 str!0))
(assert (and (not (= in_p 0)) (and (and (and (and (not (= (S_current_state (select H_parser_cur@pre in_p)) 0)) (select Alloc!3 (S_current_state (select H_parser_cur@pre in_p)))) (not (= (S_current_globalStore (select H_parser_cur@pre in_p)) 0))) (select Alloc!3 (S_current_globalStore (select H_parser_cur@pre in_p)))) (not (= (S_current_state (select H_parser_cur@pre in_p)) (S_current_globalStore (select H_parser_cur@pre in_p)))))))
(assert (= H_parser_depth!6 (store H_parser_depth!2 in_p hv!5)))
(assert (forall ((r Int)) (! (=> (select Alloc!3 r) (select Alloc!7 r)) :pattern ((select Alloc!7 r)))))
(assert (and (not (= ret_parser_cloneState!8 0)) (select Alloc!7 ret_parser_cloneState!8) (not (select Alloc!3 ret_parser_cloneState!8))))
(assert (forall ((q_k Str)) (! (and (= (select (select Mdom_storeDict@pre ret_parser_cloneState!8) q_k) (select (select Mdom_storeDict@pre (S_current_state (select H_parser_cur@pre in_p))) q_k)) (=> (select (select Mdom_storeDict@pre ret_parser_cloneState!8) q_k) (CloneEq (select (select Mval_storeDict@pre ret_parser_cloneState!8) q_k) (select (select Mval_storeDict@pre (S_current_state (select H_parser_cur@pre in_p))) q_k)))) :pattern ((select (select Mdom_storeDict@pre ret_parser_cloneState!8) q_k)))))
(assert (not (and (= (S_current_pos (select H_parser_cur@pre in_p)) (S_savepoint_position (select H_parser_pt@pre in_p))) (= (len_Slice_Int (S_current_text (select H_parser_cur@pre in_p))) 0))))
(check-sat)
(get-value (in_p in_and))
