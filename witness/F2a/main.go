package main

import (
	"fmt"
	"os"
)

// F2a: a & code predicate does not see an empty text / the current position (it sees the text and
// start position of the last action). Defect present iff the parse of "abc" fails.
func main() {
	_, err := Parse("", []byte("abc"))
	if err != nil {
		fmt.Println("defect present: predicate saw stale text/pos:", err)
		os.Exit(0)
	}
	fmt.Println("defect gone")
	os.Exit(1)
}
