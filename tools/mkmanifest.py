#!/usr/bin/env python3
"""Regenerates /verif/MANIFEST.json from the table below (kept here so that claims, levels and
not-applicable reasons live in one reviewed place)."""
import json, subprocess

CLAIMED = {
 "C01": ("proof", "§7 C01",
  "Every function of the runtime interpreter (read, restore, sliceFrom, the three terminal matchers, the 15 composite parse<Kind> functions, parseExpr/parseExprWrap, parseRule*/parseRuleWrap) is verified, in every instantiation of the template produced by the real builder, against a contract whose postcondition is an introduction rule of the PEG judgement D(e,input,i,ok,j,v) written from the property statement (ordered choice, greedy repetition, zero-width predicates, i/^ flags, failure consumes nothing, documented value shapes). Obligations are discharged for symbolic grammars, inputs and parser states, with loop invariants and callee contracts only - no unrolling bound.",
  "structural induction over the run and determinacy of PEG (meta, DESIGN §12); assumed contracts of utf8.DecodeRune/unicode.*; grammar-literal well-formedness axioms (wf-*) describe what builder.writeExpr emits: the emission functions are under contract for the attribute lines the runtime relies on (literal value lower-cased iff case-insensitive, ignoreCase/inverted flags, names, labels, the Basic Latin table computed from the class's own members); left-recursive rules are outside D (C08)"),
 "C02": ("proof", "§7 C02",
  "read() is proved to keep (line, col, offset, rune, width) equal to a pure spec function of (input, offset) (SP); every savepoint ever restored is SP. Call-site obligations before each code-block call state what the block observes (action: matched ==> pos = start, text = matched bytes; predicates/state blocks: current position and empty text); labels: parseLabeledExpr binds label to value in the scope frame, pushV yields an empty frame, stacks are balanced, lower frames keep their identity.",
  "user code blocks read their arguments from the top frame through generated callon* glue (template text, trusted); defects F2a-c (predicate and state blocks saw the stale pos/text of the last action) found by the call-site obligations before the three run calls were repaired by a fix: commit (e3d2de6)"),
 "C05": ("proof", "§7 C05",
  "cloneState/restoreState/Discard are verified against snapshot contracts (fresh map, same keys, values up to Cloner.Clone; linear restore; cleared before pooling). Every parse function proves: on failure the store equals the entry store (StEq), & ! and code predicates always, the current-store map is the entry one or fresh, snapshots held by callers and the global store are not written (store frame).",
  "Cloner.Clone returns an independent copy; user blocks touch only c.state/c.globalStore; sync.Pool hands back only maps that were Put (modelled as fresh-and-empty, justified by the Put precondition 'cleared' and linear use)"),
 "C06": ("proof", "§7 C06",
  "Memo invariant: every entry (node, offset) records a derivable result, a true savepoint and the failure shape; the hit paths of parseExprWrap/parseRuleMemoize/leader prove the same postconditions as the miss paths, entries are never dropped (at-most-once evaluation), left-recursive rules and expressions inside them are never memoized; Debug/Statistics helpers are proved to touch only depth and the statistics maps.",
  "known finding F16 (a memo hit on a labeled expression does not bind the label: the postcondition 'a successful labeled expression leaves its label bound' of parseExprWrap fails on the hit path) is excused only inside the region p.memoize and while its witness reproduces. Debug: the trace depth is proved never negative (strings.Repeat cannot panic) and balanced by every parse function, also on panic paths; the generator side is linked: builder.writeRule is proved to emit the leftRecursive/leader fields from the analysed rule's own flags. Work bound follows by counting (meta); the cache key omits the label scope: known finding F4, tied to parseExprWrap:ensures[answer] (a code predicate answers for the labels in scope now, given that predicates are functions of their labels: the hit path fails it) with region p.memoize"),
 "C08": ("proof", "§7 C08",
  "parseRuleRecursiveLeader's seed-growing loop is verified with an inductive invariant (seed is a true savepoint, accepted attempts end strictly later, variant len(input)-end), with call-site obligations: each attempt starts at the start mark with the previous result seeded in the memo, a successful first attempt is always accepted, errors and state of the final non-extending attempt are not retained, the final result is memoized; parseRuleWrap's dispatch (leader / member / plain / memoized) is proved per variant.",
  "equivalence of seed growing with the iterative reading (b)(a)* is the Warth/Medeiros meta-theorem; generator side: writeRule is proved to emit leader/leftRecursive from the analysed rule, findLeader to pick the least candidate; that the candidate lies on every cycle is a BOUNDED stand-in (all graphs with <= 4 vertices), not a proof"),
 "C11": ("proof", "§7 C11",
  "addErrAt builds exactly the documented prefix (file name, line:col (offset), rule display name or name) and appends a *parserError wrapping the original error; only addErrAt and the leader's snapshot restore write the error list; code-block errors are recorded at the match start / current position and parsing continues; zero-annotation safety obligations (nil, index, slice bounds, nil-map write, type assertion) are discharged in every runtime function.",
  "parse() (deferred recover: a panic becomes the final error iff Recover is on), newParser, setOptions, errList.err/dedupe are under contract as well; user code blocks are assumed to obey their declared call contracts"),
 "C12": ("proof", "§7 C12",
  "failAt is verified against the spec update of the failure record (farthest offset, reset/add/keep of the expected set, '!' prefix under inversion); each terminal matcher performs exactly one such event per evaluation at its start position with its own text; no other function writes the record; parseNotExpr inverts around the operand only and every function restores the inversion flag.",
  "the final message is under contract too: in parse() the error is added only when no other error was recorded, at the farthest position, and its expected list is proved (loop invariants over the dedupe map and the arbitrary-order map range, sort.Strings modelled as a sorted permutation) to contain exactly the recorded terminals, sorted, without duplicates, with '!.' shown last as EOF. The farthest position is proved to be the position OF its offset (line and column included) except for known finding F8 (input starting with a newline, farthest failure at offset 0). That the record holds the GLOBAL maximum over the whole run is the induction over the run (meta), and it assumes that every derivation step is evaluated: with Memoize(true) a memo hit replays no failure events and the message can differ (defect F14, DESIGN 16.3, documented, no obligation); the claim is for Memoize(false)."),
 "C14": ("proof", "§7 C14",
  "pushRecovery installs exactly the listed labels bound to the recovery expression; parseRecoveryExpr keeps them in force exactly during the guarded call; parseThrowExpr is verified against the inductive judgement TH (innermost handler first, failed recovery expressions are skipped, no handler = failure without consumption); handler maps in force are never written by any parse function (RecStable).",
  "known findings F18 (while a recovery expression runs, its own handler and the ones above it are still in force: the call-site obligation 'handlers out of force' in parseThrowExpr fails) and F19 (Memoize caches throw outcomes whatever handlers are in force: parseExprWrap:ensures[throw-now] fails on the hit path) are excused only inside their regions and while their witnesses reproduce; with -support-left-recursion the leader's memo replays results under other handlers (documented, DESIGN 16.3b, not decided); interaction with the state store is disclaimed by the documentation"),
 "C16": ("proof", "§7 C16",
  "parseExpr charges one unit before any work and panics with errMaxExprCnt exactly when the budget would be exceeded; every parse function keeps the counter within the budget and never decreases it; the unbounded loops of * and + carry the variant maxExprCnt-ExprCnt, the throw loop i+1, the leader loop len(input)-end.",
  "known findings F6 (a memo hit is not charged: Memoize defeats the budget), F21 (with Recover(false) the exhausted budget escapes as a panic instead of being reported: parse:panics[budget-is-an-error]) and F22 (the Statistics option can install a used Stats object, so the count does not start at zero: newParser:ensures[budget-from-zero], proved when no option is given) are excused only inside their regions and while their witnesses reproduce; ExprCnt++ treated as mathematical (wrap needs 2^64 steps)"),
 "C17": ("proof", "§7 C17",
  "read(): offset advances by the previous width, (rune,width) are DecodeRune of the remaining bytes, an invalid byte (U+FFFD, width 1) adds exactly one errInvalidEncoding error at its position unless AllowInvalidUTF8, otherwise the error list is untouched; the any and class matchers test EOF as width 0, so an invalid byte is matched; matched values are the original bytes.",
  "utf8.DecodeRune's contract is assumed; known finding F1 (U+FFFD literal at EOF)"),
 "C18": ("other", "§7 C18",
  "Thread confinement by frames: every heap store in every runtime function is checked against the function's modifies clause (frame obligations): no store to a grammar node, to a package-level variable or outside the parser's own state and fresh allocations; the only shared object is statePool, reached through Get/Put only, and a map is proved cleared before Put and never used after it.",
  "no schedule is explored; confinement implies race freedom by a standard meta-theorem; sync.Pool is trusted to be goroutine-safe; ASSUMES that user code blocks do not keep c.state beyond the block: the live state map is cleared and pooled when the block returns, so a block that keeps it (the project's own test/emptystate grammar returns c.state) shares it with other parsers -- defect F17 (DESIGN 16.3, witness/F17), which the frame obligations cannot see"),
 "C07": ("proof", "§7 C07",
  "Every implementation of InitialNames is verified against one First-set equation per node kind (edges across flagged-nullable prefixes, through & and ! predicates, through both arms of a recovery expression), every IsNullable against the flag it must report, and every NullableVisit against coverage obligations (must-call: each child whose flags InitialNames later reads is visited; a choice visits all alternatives). MakeFirstGraph is proved to build exactly the First edges of every rule, ComputeLeftRecursives to report left recursion exactly when a component has several members or a self-loop, buildParser to turn an analysis error or unsupported left recursion into a build error.",
  "Tarjan SCC and cycle enumeration (scc.go, recursive closures over maps) are outside the verified subset: BOUNDED stand-in (labelled bounded, never counted as proved): StronglyConnectedComponents, FindCyclesInSCC and findLeader are run on every directed graph with <= 4 vertices (66066 graphs, several vertex orders, repeated calls) against a transitive-closure oracle by an in-package test injected with go test -overlay. PrepareGrammar is proved to analyse the rule table the generated parser builds (last definition of a name wins on both sides). 'no cycle in the First graph implies no same-offset re-entry at run time' is Ford's well-formedness theorem (meta). The First set of a throw is taken from the property (its handlers' First sets): ThrowExpr.InitialNames returns nothing, known finding F13. Defects F5a/F5b/F20 (a character class was called nullable) found by these obligations were repaired by fix: commits."),
 "C09": ("other", "§7 C09",
  "Local obligations of the grammar optimizer: cloneExpr returns a fresh node of the same kind for every expression kind (no node shared with the inlined rule), optimizeRule only inlines rules that refer to no other rule and never dereferences an undefined rule, the class/literal merge arms only build unions of non-inverted classes with equal case sensitivity and only concatenate literals of equal case sensitivity, cleanupCharClassMatcher keeps chars/ranges/classes as sets and keeps first occurrences in order.",
  "cloneExpr's copy of a character class is proved to own fresh backing arrays (slice model with backing-array identity) and to clone every child; Walk to walk every child when the visitor descends; optimize to offer every child of every kind to optimizeRule (this obligation failed for recovery expressions: defect F15, repaired by a fix: commit). The in-place slice surgery of the optimize visitor is outside the value model of slices: language preservation of the whole rewriting and the label-scope interaction of inlining (defect F7c) are not decided; Walk assumes visitors keep the tree well-formed"),
 "C13": ("other", "§7 C13",
  "Zero-annotation safety obligations (nil dereference, index, slice bounds, nil-map write, type assertion, explicit panic) are discharged for Walk, cloneExpr, optimizeRule(s), cleanupCharClassMatcher, every NullableVisit/IsNullable/InitialNames, MakeFirstGraph, ComputeNullables, ComputeLeftRecursives, findLeader, PrepareGrammar, rangeTable, BasicLatinLookup under the AST well-formedness the front-end establishes (which does NOT include 'referenced rules are defined'); buildParser rejects what the analysis rejects.",
  "also under contract: main()'s exit paths (every error path ends in exit(non-zero): argument, parse, build, format, write, close errors; all-calls obligations on exit), every builder function that writes the grammar literal and the code-block methods (writeGrammar/writeRule/writeExpr/write<Kind>/writeFunc/...: no panic on any tree the front-end builds), CharClassMatcher.parse's loops terminate (reader model of strings.Reader assumed), optimizeRule's bookkeeping (a rule's entry is dropped only when its set of referenced rules is empty: the leaf test the inlining relies on). Not under contract: the front-end's own parse (pigeon.go), termination of the optimizer fixpoint and of NullableVisit, writeStaticCode (text/template), the optimize visitor's slice surgery. Defects F9a/F9b/F12 found by these obligations were repaired by fix: commits."),
 "C15": ("proof", "§7 C15",
  "BasicLatinLookup is verified for symbolic chars/ranges/classes of arbitrary length: for case-sensitive classes the table equals the general matching procedure on all 128 runes (loop invariants with quantifiers, no enumeration); for case-insensitive classes every Basic Latin member and both of its case forms are hits; the runtime fast path and the general path of parseCharClassMatcher both satisfy the same class semantics given that table.",
  "known finding F10 (case-insensitive classes: table and general procedure disagree) is excused only inside the region ignoreCase and while its witness reproduces; unicode.Is is uninterpreted, ToLower/ToUpper/IsLower facts on Basic Latin are computed from the toolchain's tables at check time"),
 "C19": ("proof", "§7 C19",
  "Map-order independence of the functions under contract: findLeader's result is proved to be the least element of the candidate set under the arbitrary-enumeration semantics of map range (every iteration order), MakeFirstGraph's result is a function of the rule table, cleanupCharClassMatcher keeps first occurrences in their original order.",
  "the optimizer's removal of an unused rule is proved to release every rule it referred to whatever the map order; SCC/cycle enumeration and 'the leader is the same on every run' are a BOUNDED stand-in (all graphs with <= 4 vertices, repeated calls, several vertex orders), labelled bounded. ComputeNullables' flags depend on visit order inside cycles (defect F11, demonstrated in DESIGN §9, not expressible as a discharged obligation)"),
 "C04": ("other", "§7 C04",
  "The static part of 'the emitted file compiles' is decided exhaustively through the real builder: all 32 instantiations of the runtime template (5 booleans) are emitted by builder.BuildParser + imports.Process and type-checked with go/types, and -nolint is shown to change comments only; every Unicode class name the front-end accepts is looked up in the tables of the toolchain in use (rangeTable cannot panic at package initialisation); rangeTable itself is verified; funcName is verified to return \"on\"+rule+itoa(index) and the injectivity of that scheme is posed to z3's string theory (it fails: known finding F3, with the solver's model in the replay file and a compile-error witness); writeExprCode is verified to open a label scope for exactly the expression kinds for which the runtime pushes a variable frame (call-site obligations per recursive call), balanced, with lower scopes untouched.",
  "also decided: the Unicode class name handed to rangeTable is made of exactly the runes between the braces of \\p{...} (ghost-state contract on CharClassMatcher.parse), each code block is rendered once. 'compiles together with the user's package and passes go vet for every grammar' needs Go's static semantics of user code as a specification: not decided. The grammar-dependent part of the emission (var g literal, on*/callon* glue) is printf text whose denotation is trusted (the attribute lines the runtime relies on are proved to carry the node's own attributes); F7c (label clash after inlining) is not decided."),
 "C10": ("proof", "§7 C10",
  "Layer 1 of the design: for every function of the runtime, the optimized and the standard instantiation (and every left-recursion / state / basic-latin combination) are verified against the SAME contract set -- the PEG judgement and value shapes (C01), what code blocks observe (C02), state-store rollback (C05), seed growing (C08), error list contents (C11), failure record (C12), throw/recover (C14), budget (C16), invalid UTF-8 (C17) -- so both are pinned to one functional specification; the variant-specific dispatch of parseRuleWrap is proved to send exactly the leader to the growth loop, members of a cycle past every rule-level memo, and plain rules to parseRule; template arms that exist in only one of the two (Debug/Memoize/Statistics) are proved to touch only depth, the memo and the statistics maps.",
  "relational layer 2 (same value for the same oracle answers of code blocks) is a meta-argument over the shared contracts, not machine-checked; the flag wiring (main() builds builder.Optimize from -optimize-parser, etc.) and the option closures (builder.Optimize sets b.optimize, ...) are under contract, the application of an option value is an assumed generic contract"),
}

NOT_APPLICABLE = {
 "C03": "relates a language of grammar texts to ASTs through the generic interpreter applied to the compiled pigeon.peg; a contract would have to restate that grammar, and equivalence of two grammars is not a function-local obligation; no printer exists for the round-trip clause",
 "C20": "clause 1 is equivalence of two whole parsers, clause 2 is a ground regeneration fact about ~50 files: translation validation, not a contract obligation",
 "C04": "not yet claimed in this revision (contracts for funcName injectivity / argsStack scoping are planned, DESIGN §7 C04)",
 "C07": "not yet claimed in this revision (interface contracts for NullableVisit/InitialNames planned, DESIGN §7 C07)",
 "C09": "not yet claimed in this revision (cloneExpr freshness and merge-arm contracts planned, DESIGN §7 C09)",
 "C10": "not yet claimed in this revision (the same contracts are discharged on optimized and standard instantiations; the relational layer is planned, DESIGN §7 C10)",
 "C13": "not yet claimed in this revision (no-panic sweep over ast/builder planned, DESIGN §7 C13)",
 "C15": "not yet claimed in this revision (BasicLatinLookup contract planned, DESIGN §7 C15)",
 "C19": "not yet claimed in this revision (map-range order-independence contracts planned, DESIGN §7 C19)",
}

def main():
    commits = subprocess.run(["git", "-C", "/repo", "log", "--format=%H %s"], capture_output=True, text=True).stdout.strip().split("\n")
    hooks = [c.split()[0] for c in commits if c.split(" ", 1)[1].startswith("verif:")]
    checks = []
    for pid in sorted(CLAIMED):
        cat, ref, text, note = CLAIMED[pid]
        checks.append({
            "property_id": pid,
            "quick_cmd": "./check %s quick" % pid,
            "thorough_cmd": "./check %s thorough" % pid,
            "evidence_file": "/verif/evidence/%s.json" % pid,
            "replay_cmd_template": "cat {path}",
            "engine": "govc",
            "level_claimed": {"category": cat, "text": text, "design_ref": ref},
            "level_note": note,
            "technique": "contract-based deductive verification: weakest-precondition style VC generation over go/ast+go/types of the real functions against //@ contracts, discharged by z3/cvc5",
        })
    na = [{"property_id": k, "reason": v} for k, v in sorted(NOT_APPLICABLE.items()) if k not in CLAIMED]
    m = {
        "version": 1,
        "setup_cmd": "./setup.sh",
        "hooks": {
            "guard": "verif",
            "enable": "contracts are comment-only Go files with //go:build verif inside /repo (builder/verif_contracts_runtime.go, ...); govc reads them directly, /repo is never built with the tag",
            "baseline_off_cmd": "cd /repo && export GOFLAGS=-mod=mod GOPROXY=off GOTOOLCHAIN=local && go1.26 test -vet=off -count=1 ./...",
            "source_commits": hooks,
            "add_only": True,
        },
        "engines": [{
            "name": "govc",
            "path": "/verif/govc",
            "serves_properties": sorted(CLAIMED),
            "kind_free_text": "VC generator for Go written for this task (go/ast + go/types, stdlib only): forward symbolic execution per function, calls by contract, loops cut at invariants, Burstall-Bornat heap, frame obligations; SMT-LIB discharged by z3 5.1.0 / z3 4.8.12 / cvc5 1.0.3",
        }],
        "checks": checks,
        "notes": "quick = 6 template instantiations covering every flag both ways; thorough = all 16 with longer solver timeouts. Known findings: known_findings.json. Inventory of obligations that must exist and discharge: obligations.json.",
        "not_applicable": na,
    }
    json.dump(m, open("/verif/MANIFEST.json", "w"), indent=1)
    print("wrote MANIFEST.json with", len(checks), "checks;", len(na), "not applicable")

main()
