#!/bin/bash
# usage: run.sh <pigeon source tree>
# exits 0 when the violation is observed (the parser generated with
# -optimize-grammar hands a different label value to an action than the
# parser generated without it), 1 otherwise.
set -u
export GOFLAGS=-mod=mod GOPROXY=off GOSUMDB=off GOTOOLCHAIN=local
GO=${GO:-go1.26}
src=$(cd "$1" && pwd)
here=$(cd "$(dirname "$0")" && pwd)
tmp=$(mktemp -d)
trap 'rm -rf "$tmp"' EXIT

(cd "$src" && $GO build -o "$tmp/pigeon" .) || { echo "cannot build pigeon"; exit 1; }

observed=1
run_variant() { # grammar input
	local g=$1 input=$2 out_base out_opt
	for v in base opt; do
		mkdir -p "$tmp/$g/$v"
		printf 'module demo\ngo 1.25\n' > "$tmp/$g/$v/go.mod"
		cp "$here/main.go" "$tmp/$g/$v/main.go"
		fl=""; [ $v = opt ] && fl="-optimize-grammar"
		"$tmp/pigeon" $fl -o "$tmp/$g/$v/parser.go" "$here/$g.peg" || { echo "$g/$v: pigeon failed"; return; }
		(cd "$tmp/$g/$v" && $GO build -o prog .) || { echo "$g/$v: generated parser does not compile"; return; }
	done
	out_base=$("$tmp/$g/base/prog" "$input")
	out_opt=$("$tmp/$g/opt/prog" "$input")
	echo "[$g] without -optimize-grammar: $out_base"
	echo "[$g] with    -optimize-grammar: $out_opt"
	if [ "$out_base" != "$out_opt" ]; then
		echo "[$g] VIOLATION: results/label values differ"
		observed=0
	fi
}
run_variant recovery ab
run_variant throw aZ
exit $observed
