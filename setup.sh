#!/bin/sh
# Builds the verification machinery from files on disk only (offline).
set -e
cd "$(dirname "$0")"
export GOFLAGS=-mod=mod GOPROXY=off GOSUMDB=off GOTOOLCHAIN=local CGO_ENABLED=0
mkdir -p .work bin evidence replays
(cd govc && go1.26 build -o ../bin/govc .)
cp /repo/go.sum inst/go.sum
(cd inst && go1.26 build -o ../bin/inst .)
echo setup ok
