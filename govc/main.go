package main

import (
	"flag"
	"fmt"
	"os"
)

func main() {
	if len(os.Args) > 1 && os.Args[1] == "selftest-parse" {
		e, err := parseSpecExpr(os.Args[2])
		fmt.Println(e, err)
		return
	}
	var d Driver
	flag.StringVar(&d.Repo, "repo", "/repo", "repository root")
	flag.StringVar(&d.Verif, "verif", "/verif", "verif root")
	flag.StringVar(&d.Work, "work", "", "scratch directory")
	flag.StringVar(&d.Prop, "prop", "", "property id (empty = all obligations)")
	flag.StringVar(&d.Tier, "tier", "quick", "quick|thorough")
	flag.StringVar(&d.OnlyFunc, "func", "", "only this function key")
	flag.StringVar(&d.OnlyVariant, "variant", "", "only this runtime variant")
	flag.StringVar(&d.Targets, "targets", "rt", "comma list: rt,ast,builder,main")
	flag.BoolVar(&d.Verbose, "v", false, "verbose")
	flag.BoolVar(&keepSMT, "keep", false, "keep all .smt2 files")
	flag.IntVar(&d.Timeout, "timeout", 10, "per-query timeout (s)")
	flag.StringVar(&d.Evidence, "evidence", "", "evidence file to write")
	flag.BoolVar(&d.WriteInv, "write-inventory", false, "record discharged obligations in obligations.json")
	flag.Parse()
	os.Exit(d.Run())
}
