package main

import (
	"fmt"
	"os"
	"os/exec"
	"runtime/debug"
	"strings"
)

func main() {
	debug.SetMaxStack(32 << 20)
	if len(os.Args) > 1 && os.Args[1] == "crash" {
		// child process: expected to print a value; actually dies with a fatal stack overflow
		v, err := Parse("", []byte("ac"), Entrypoint("Crash"))
		fmt.Printf("CHILD-RETURNED v=%v err=%v\n", v, err)
		return
	}

	observed := false

	// Variant B
	v, err := Parse("", []byte("abc"))
	fmt.Printf("variant B: Parse(\"abc\") = %v, %v\n", v, err)
	if err == nil {
		fmt.Println("  -> VIOLATION: \"abc\" accepted; the throw inside the inner recovery expression was handled by that same operator again (\"c\" matched), expected a failed parse")
		observed = true
	}

	// Variant A, in a child process because a Go stack overflow is fatal
	out, cerr := exec.Command(os.Args[0], "crash").CombinedOutput()
	s := string(out)
	switch {
	case strings.Contains(s, "stack overflow") || strings.Contains(s, "stack exceeds"):
		fmt.Printf("variant A: child died: %v; fatal error: stack overflow (unbounded parseThrowExpr recursion), Recover(true) cannot contain it\n", cerr)
		observed = true
	default:
		fmt.Printf("variant A: child output: %s (err=%v)\n", strings.TrimSpace(s), cerr)
	}

	if observed {
		os.Exit(0)
	}
	os.Exit(1)
}
