package main

import (
	"go/token"
	"fmt"
	"os"
	"runtime/debug"
	"go/ast"
	"go/types"
	"strings"
)

// State is one symbolic execution path.
type State struct {
	vars   map[types.Object]Val // Go locals / params / named results
	named  map[string]Val       // names visible to spec expressions
	heap   map[string]string    // heap array -> current term
	facts  []string
	guards []string // temporary premises (short-circuit evaluation)

	panicking bool
	panicVal  string // Any term
	defers    []deferred
	retVals   []Val
	pathID    int
	trace     []string
	calls     []callRec
}

type callRec struct {
	key   string
	named map[string]Val
	heap  map[string]string // the caller's heap immediately before the call (for atcall(e))
}

type deferred struct {
	call    *ast.CallExpr // deferred call (static callee)
	lit     *ast.FuncLit  // or closure
	recv    *Val
	args    []Val
	callee  *calleeInfo
}

func (s *State) clone() *State {
	n := &State{vars: make(map[types.Object]Val, len(s.vars)), named: make(map[string]Val, len(s.named)), heap: make(map[string]string, len(s.heap)),
		panicking: s.panicking, panicVal: s.panicVal, pathID: s.pathID}
	for k, v := range s.vars {
		n.vars[k] = v
	}
	for k, v := range s.named {
		n.named[k] = v
	}
	for k, v := range s.heap {
		n.heap[k] = v
	}
	n.facts = append([]string(nil), s.facts...)
	n.guards = append([]string(nil), s.guards...)
	n.defers = append([]deferred(nil), s.defers...)
	n.retVals = append([]Val(nil), s.retVals...)
	n.trace = append([]string(nil), s.trace...)
	n.calls = append([]callRec(nil), s.calls...)
	return n
}

func (s *State) assume(f string) {
	if f == "true" {
		return
	}
	if len(s.guards) > 0 {
		f = "(=> (and " + strings.Join(s.guards, " ") + " true) " + f + ")"
	}
	s.facts = append(s.facts, f)
}

// Env is the evaluation environment of a spec expression.
type Env struct {
	named    map[string]Val
	heap     map[string]string // current heap (nil entries resolved lazily to initial constants)
	old      *Env              // environment for old(...)
	bound    map[string]Val    // quantifier-bound / macro params (innermost first via copy)
	callHeap map[string]string // heap immediately before the call a must-call/all-calls clause is evaluated for
	callee   map[string]Val    // parameter/result names of the callee a caller-side clause talks about; outer(e) hides them
	st       *State            // for lazily created heap constants (shared maps)
}

func (e *Env) with(name string, v Val) *Env {
	n := *e
	n.bound = make(map[string]Val, len(e.bound)+1)
	for k, x := range e.bound {
		n.bound[k] = x
	}
	n.bound[name] = v
	return &n
}

// FnCtx is the per-function verification context.
type FnCtx struct {
	pkg     *Pkg
	cs      *Contracts
	sc      *SortCtx
	fc      *FuncContract
	decl    *ast.FuncDecl
	key     string
	queries []*Query
	heapSort map[string]string // heap array -> sort
	heapInit map[string]string // heap array -> initial constant
	entry    *Env              // old environment of the function
	loopOrd  map[ast.Stmt]int
	errs     []string // unsupported constructs
	results  []*types.Var
	resultNames []string
	nPaths   int
	usedAxioms map[string]bool
	usedSpecs  map[string]bool
	lemmaMode  bool
	modsEntry  []modTarget // function's own modifies, evaluated at entry
	wherePos   string
	localTypes map[string]types.Type
	inPattern bool
	qcount int
	hiddenNames map[string]bool
	callOrd map[*ast.CallExpr]int
	stmtAssertHit map[*Clause]bool
	stmtOrd       map[ast.Stmt]int
	globalFacts []string
	pendingPanics []*State
	hasRecover bool
	modelVars []string
	axiomNames []string
	cells     map[*types.Var]string   // captured-and-assigned locals -> heap name (closures.go)
	ownCells  map[string]bool        // cell heaps of locals declared by the function being verified
	closureOf map[*types.Var]string   // local closure variable -> contract key
	closureRO map[string][]*types.Var // contract key -> read-only captured variables (leading parameters)
}

type unsupported struct{ msg string }

func (fx *FnCtx) fail(format string, a ...any) {
	if os.Getenv("GOVC_DEBUG") != "" {
		debug.PrintStack()
	}
	panic(unsupported{fmt.Sprintf(format, a...)})
}

// heapArr returns the current term of a heap array in a heap map, creating the initial
// constant on first use.
func (fx *FnCtx) heapArr(h map[string]string, name, sort string) string {
	if t, ok := h[name]; ok {
		return t
	}
	return fx.heapInitConst(name, sort)
}

func (fx *FnCtx) heapInitConst(name, sort string) string {
	if c, ok := fx.heapInit[name]; ok {
		return c
	}
	c := name + "@pre"
	c = strings.ReplaceAll(c, " ", "_")
	fx.heapInit[name] = c
	fx.heapSort[name] = sort
	fx.sc.consts = append(fx.sc.consts, fmt.Sprintf("(declare-const %s %s)", c, sort))
	if f := heapWF(c, sort); f != "" {
		fx.globalFacts = append(fx.globalFacts, f)
	}
	return c
}

// heapWF: every slice stored in the heap is well-formed (0 <= len <= cap, 0 <= off): a Go invariant.
func heapWF(c, sort string) string {
	const pfx = "(Array Int Slice_"
	if strings.HasPrefix(sort, "Slice_") {
		// a cell holding a slice (captured local variable)
		return fmt.Sprintf("(and (<= 0 (len_%s %s)) (<= (len_%s %s) (cap_%s %s)) (<= 0 (off_%s %s)))", sort, c, sort, c, sort, c, sort, c)
	}
	if !strings.HasPrefix(sort, pfx) {
		return ""
	}
	ss := strings.TrimSuffix(strings.TrimPrefix(sort, "(Array Int "), ")")
	return fmt.Sprintf("(forall ((r Int)) (! (and (<= 0 (len_%s (select %s r))) (<= (len_%s (select %s r)) (cap_%s (select %s r))) (<= 0 (off_%s (select %s r)))) :pattern ((select %s r))))", ss, c, ss, c, ss, c, ss, c, c)
}

func (fx *FnCtx) setHeap(st *State, name, sort, term string) {
	fx.heapInitConst(name, sort)
	c := fx.sc.Fresh(name, sort)
	st.facts = append(st.facts, fmt.Sprintf("(= %s %s)", c, term))
	st.heap[name] = c
}

func (fx *FnCtx) havocHeap(st *State, name, sort string) string {
	fx.heapInitConst(name, sort)
	c := fx.sc.Fresh(name, sort)
	st.heap[name] = c
	if f := heapWF(c, sort); f != "" {
		st.facts = append(st.facts, f)
	}
	return c
}

// names of heap arrays
func fieldHeap(structName, field string) string { return "H_" + structName + "_" + field }
func derefHeap(sort string) string              { return "P_" + mangle(sort) }
func globalHeap(name string) string             { return "G_" + name }

const allocHeap = "Alloc"
const allocSort = "(Array Int Bool)"

func (fx *FnCtx) env(st *State) *Env {
	return &Env{named: st.named, heap: st.heap, old: fx.entry, st: st}
}

// envAt is env with Go's block scoping applied to the names a spec expression may mention: a name
// that Go resolves at pos to a local of this function denotes that local (an inner-scope variable of
// the same name declared earlier, e.g. `if _, ok := m[k]; ok {...}`, does not shadow it any more).
func (fx *FnCtx) envAt(st *State, pos token.Pos) *Env {
	e := fx.env(st)
	if !pos.IsValid() {
		return e
	}
	sc := fx.pkg.Types.Scope().Innermost(pos)
	if sc == nil {
		return e
	}
	var named map[string]Val
	for k, cur := range st.named {
		if fx.hiddenNames[k] {
			continue
		}
		_, obj := sc.LookupParent(k, pos)
		vo, isVar := obj.(*types.Var)
		if !isVar {
			continue
		}
		v, ok := st.vars[vo]
		if !ok || v == cur {
			continue
		}
		if os.Getenv("GOVC_SCOPEDEBUG") != "" {
			fmt.Fprintf(os.Stderr, "SCOPE %s %s: %q is the variable in scope here, not the most recently assigned one of that name\n", fx.key, fx.pkg.Fset.Position(pos), k)
		}
		if named == nil {
			named = make(map[string]Val, len(st.named))
			for k2, v2 := range st.named {
				named[k2] = v2
			}
		}
		named[k] = v
	}
	if named != nil {
		e.named = named
	}
	return e
}

// loopScopePos is a position inside the body of a loop statement (loop variables are in scope there).
func loopScopePos(n ast.Node) token.Pos {
	switch x := n.(type) {
	case *ast.ForStmt:
		return x.Body.Lbrace + 1
	case *ast.RangeStmt:
		return x.Body.Lbrace + 1
	}
	return n.Pos()
}

func (fx *FnCtx) pos(n ast.Node) string {
	p := fx.pkg.Fset.Position(n.Pos())
	return fmt.Sprintf("%s:%d", shortFile(p.Filename), p.Line)
}

func shortFile(f string) string {
	i := strings.LastIndex(f, "/")
	return f[i+1:]
}

// structName returns the declared name for a struct type (named) or "".
func namedStruct(t types.Type) (string, *types.Struct) {
	t = types.Unalias(t)
	if n, ok := t.(*types.Named); ok {
		if st, ok := n.Underlying().(*types.Struct); ok {
			return n.Obj().Name(), st
		}
	}
	return "", nil
}

func derefType(t types.Type) (types.Type, bool) {
	if p, ok := types.Unalias(t).Underlying().(*types.Pointer); ok {
		return p.Elem(), true
	}
	return nil, false
}
