package main

// Driver: extraction, contract loading, verification, solving, verdicts, evidence.

import (
	"bytes"
	"encoding/json"
	"go/ast"
	"crypto/sha256"
	"encoding/hex"
	"fmt"
	"go/printer"
	"go/token"
	"os"
	"os/exec"
	"path/filepath"
	"sort"
	"strings"
	"sync"
	"time"
)

type Driver struct {
	Repo, Verif, Work string
	Prop, Tier        string
	OnlyFunc          string
	OnlyVariant       string
	Targets           string
	Verbose           bool
	Timeout           int
	Evidence          string
	WriteInv          bool

	start     time.Time
	queries   []*Query
	notProved []string // functions outside the subset
	unreachable []string // functions of the front-end copy that its grammar cannot reach (not verified, listed)
	funcsDone []funcInfo
	known     []KnownFinding
	knownHit  map[string]bool
	retried   int
	nBounded, boundedHeld int
}

type funcInfo struct {
	Target   string   `json:"target"`
	Func     string   `json:"func"`
	Hash     string   `json:"source_sha256"`
	SharedBy []string `json:"shared_by_variants,omitempty"`
	Queries  int      `json:"queries"`
}

type KnownFinding struct {
	ID         string   `json:"id"`
	Properties []string `json:"properties"`
	Status     string   `json:"status"` // known | fixed
	Obligation string   `json:"obligation"` // obligation name suffix (without the target prefix) or full name
	Targets    []string `json:"targets,omitempty"`
	Region     string   `json:"region"` // spec expression over the function's parameters/entry state; the obligation must hold outside it
	What       string   `json:"what"`
	Witness    string   `json:"witness"` // command (relative to /verif) that exits 0 iff the defect is still present
	Commit     string   `json:"commit,omitempty"`
}

var rtVariantsAll = []string{
	"o0b0l0s0", "o0b1l0s0", "o0b0l1s0", "o0b1l1s0",
	"o0b0l0s1", "o0b1l0s1", "o0b0l1s1", "o0b1l1s1",
	"o1b0l0s0", "o1b1l0s0", "o1b0l1s0", "o1b1l1s0",
	"o1b0l0s1", "o1b1l0s1", "o1b0l1s1", "o1b1l1s1",
}

// quick tier: six instantiations in which every template flag occurs both ways and the
// interesting pairs (optimize x state, optimize x left recursion) are covered.
var rtVariantsQuick = []string{"o0b0l0s0", "o0b1l1s1", "o1b0l0s0", "o1b1l1s1", "o1b0l1s0", "o1b1l0s1"}

func variantFlags(v string) map[string]bool {
	f := map[string]bool{}
	f["opt"] = v[1] == '1'
	f["bl"] = v[3] == '1'
	f["lr"] = v[5] == '1'
	gs := v[7] == '1'
	f["gstate"] = gs
	f["state"] = gs || !f["opt"]      // state store code present
	f["memo"] = f["lr"] || !f["opt"]  // memo table present
	f["dbg"] = !f["opt"]              // debug/memoize/stats options present
	f["rt"] = true
	return f
}

func (d *Driver) logf(format string, a ...any) {
	if d.Verbose {
		fmt.Fprintf(os.Stderr, format+"\n", a...)
	}
}

func hashNode(pkg *Pkg, key string) string {
	var buf bytes.Buffer
	printer.Fprint(&buf, pkg.Fset, pkg.Funcs[key])
	h := sha256.Sum256(buf.Bytes())
	return hex.EncodeToString(h[:])
}

func (d *Driver) contractFiles(target string) []string {
	var fs []string
	switch target {
	case "rt":
		fs = []string{filepath.Join(d.Repo, "builder/verif_contracts_runtime.go")}
	case "ast":
		fs = []string{filepath.Join(d.Repo, "ast/verif_contracts_iface.go"), filepath.Join(d.Repo, "ast/verif_contracts.go")}
	case "builder":
		// contracts of package ast are loaded first (vocabulary, framesets) and are assumed here: they are verified by the ast target
		fs = []string{filepath.Join(d.Repo, "ast/verif_contracts_iface.go"), "trusted:" + filepath.Join(d.Repo, "ast/verif_contracts.go"), filepath.Join(d.Repo, "builder/verif_contracts_builder.go")}
	case "main":
		fs = []string{filepath.Join(d.Repo, "verif_contracts.go")}
	}
	fs = append(fs, filepath.Join(d.Verif, "specs/extern.spec"))
	var out []string
	for _, f := range fs {
		if _, err := os.Stat(strings.TrimPrefix(f, "trusted:")); err == nil {
			out = append(out, f)
		}
	}
	return out
}

type job struct {
	target  string // display name of the package instance
	pkg     *Pkg
	cs      *Contracts
	key     string
	variants []string
}

var currentProp string

func (d *Driver) Run() int {
	d.start = time.Now()
	currentProp = d.Prop
	if d.Prop != "" {
		propTags[d.Prop] = true
		if b, err := os.ReadFile(filepath.Join(d.Verif, "aliases.json")); err == nil {
			var al map[string][]string
			if json.Unmarshal(b, &al) == nil {
				for _, t := range al[d.Prop] {
					propTags[t] = true
				}
			}
		}
	}
	if d.Work == "" {
		d.Work = filepath.Join(d.Verif, ".work", fmt.Sprintf("run%d", os.Getpid()))
	}
	os.MkdirAll(d.Work, 0o755)
	if !keepSMT {
		defer os.RemoveAll(d.Work)
	}
	if d.Tier == "thorough" && d.Timeout < 30 {
		d.Timeout = 30
	}
	if err := d.loadKnown(); err != nil {
		fmt.Fprintln(os.Stderr, "known findings:", err)
		return 2
	}
	repoRoot = d.Repo
	loader := NewLoader()
	var jobs []*job
	// a property check always covers every package in which the inventory lists obligations of the property
	// (the targets argument can only widen that), so a contract added in another package is never skipped
	if d.Prop != "" && d.OnlyFunc == "" {
		if b, err := os.ReadFile(filepath.Join(d.Verif, "obligations.json")); err == nil {
			var inv map[string][]string
			if json.Unmarshal(b, &inv) == nil {
				for _, n := range inv[d.Prop] {
					for pre, tg := range map[string]string{"rt:": "rt", "ast:": "ast", "builder:": "builder", "main:": "main", "bounded:": "builder", "inst[": "rt", "classes:": "rt", "lemma:": "rt"} {
						if strings.HasPrefix(n, pre) && !strings.Contains(","+d.Targets+",", ","+tg+",") {
							d.Targets += "," + tg
						}
					}
				}
			}
		}
	}
	// packages are always loaded in dependency order (ast before builder before main), whatever the order asked
	// for: a package loaded by the verifier must be the one its importers see
	{
		want := map[string]bool{}
		for _, tg := range strings.Split(d.Targets, ",") {
			want[strings.TrimSpace(tg)] = true
		}
		if want["main"] {
			want["ast"], want["builder"] = true, true
		}
		if want["builder"] {
			want["ast"] = true
		}
		var ord []string
		for _, tg := range []string{"rt", "ast", "builder", "main"} {
			if want[tg] {
				ord = append(ord, tg)
			}
		}
		d.Targets = strings.Join(ord, ",")
	}
	for _, tg := range strings.Split(d.Targets, ",") {
		switch tg {
		case "rt":
			js, err := d.rtJobs(loader)
			if err != nil {
				fmt.Fprintln(os.Stderr, "ERROR:", err)
				return 2
			}
			jobs = append(jobs, js...)
		case "ast", "builder", "main":
			js, err := d.repoJobs(loader, tg)
			if err != nil {
				fmt.Fprintln(os.Stderr, "ERROR:", err)
				return 2
			}
			jobs = append(jobs, js...)
		}
	}
	if (d.Prop == "" || d.Prop == "C04") && strings.Contains(","+d.Targets+",", ",rt,") && d.OnlyFunc == "" && d.OnlyVariant == "" {
		d.extraC04(loader, filepath.Join(d.Work, "rt"))
	}
	if (d.Prop == "" || d.Prop == "C04" || d.Prop == "C13" || d.Prop == "C19") && strings.Contains(","+d.Targets+",", ",rt,") && d.OnlyFunc == "" && d.OnlyVariant == "" {
		d.extraInst(filepath.Join(d.Work, "rt"))
	}
	if d.wantsBoundedSCC() {
		d.extraBoundedSCC()
	}
	// generate VCs
	activeDriver = d
	for _, j := range jobs {
		fx, err := VerifyFunc(j.pkg, j.cs, j.key)
		if err != nil {
			d.notProved = append(d.notProved, j.target+": "+err.Error())
			fmt.Fprintf(os.Stderr, "NOT-PROVED (outside subset) %s: %v\n", j.target, err)
			continue
		}
		func() {
			defer func() {
				if r := recover(); r != nil {
					if u, ok := r.(unsupported); ok {
						d.notProved = append(d.notProved, j.target+":"+j.key+": "+u.msg)
						fmt.Fprintf(os.Stderr, "NOT-PROVED (outside subset) %s:%s: %v\n", j.target, j.key, u.msg)
						fx.queries = nil
						return
					}
					panic(r)
				}
			}()
			fx.applyKnownRegions(d)
			if d.Prop != "" {
				// render only the queries of this property
				var keep []*Query
				for _, q := range fx.queries {
					if q.IsCover || hasTag(q.Tags, d.Prop) || d.frontendQuery(q) {
						keep = append(keep, q)
					}
				}
				fx.queries = keep
			}
			fx.Finalize()
		}()
		n := 0
		for _, q := range fx.queries {
			if d.Prop != "" && !q.IsCover && !hasTag(q.Tags, d.Prop) && !d.frontendQuery(q) {
				continue
			}
			d.queries = append(d.queries, q)
			n++
		}
		d.funcsDone = append(d.funcsDone, funcInfo{Target: j.target, Func: j.key, Hash: hashNode(j.pkg, j.key), SharedBy: j.variants, Queries: n})
	}
	d.logf("generated %d queries for %d functions in %.1fs", len(d.queries), len(d.funcsDone), time.Since(d.start).Seconds())
	d.solveAll()
	return d.report()
}

// propTags: the tags that count for the property being checked (C10 is decided by discharging the
// functional obligations of the other runtime properties on BOTH the optimized and the standard
// instantiations, see aliases.json).
var propTags = map[string]bool{}

func matchesProp(tags []string) bool {
	for _, t := range tags {
		if propTags[t] {
			return true
		}
	}
	return false
}

func hasTag(tags []string, p string) bool {
	if len(propTags) > 0 && p != "" && propTags[p] && p == currentProp {
		return matchesProp(tags)
	}
	for _, t := range tags {
		if t == p {
			return true
		}
	}
	return false
}

// contractMentions: does the contract of key carry any clause for property p?
func contractMentions(fc *FuncContract, p string) bool {
	if p == "" {
		return true
	}
	for _, c := range fc.Requires {
		_ = c
	}
	check := func(cs []*Clause) bool {
		for _, c := range cs {
			if hasTag(c.Tags, p) {
				return true
			}
		}
		return false
	}
	if check(fc.MustCalls) || check(fc.AllCalls) {
		return true
	}
	for _, ca := range fc.StmtAsserts {
		if check(ca) {
			return true
		}
	}
	for _, ca := range fc.CallAsserts {
		if check(ca) {
			return true
		}
	}
	if check(fc.Ensures) || check(fc.Panics) || hasTag(fc.SafetyTag, p) || hasTag(fc.FrameTag, p) {
		return true
	}
	for _, l := range fc.Loops {
		if check(l) {
			return true
		}
	}
	return false
}

func (d *Driver) rtJobs(loader *Loader) ([]*job, error) {
	out := filepath.Join(d.Work, "rt")
	// the harness links the REAL builder package of /repo's working tree: rebuild it on every run
	env := append(os.Environ(), "GOFLAGS=-mod=mod", "GOPROXY=off", "GOSUMDB=off", "GOTOOLCHAIN=local", "CGO_ENABLED=0")
	instBin := filepath.Join(d.Work, "inst")
	// the harness module is copied into the scratch directory with its replace directive pointing at
	// the repository being checked (normally /repo; a scratch copy in the self-test)
	instSrc := filepath.Join(d.Work, "instsrc")
	os.MkdirAll(instSrc, 0o755)
	for _, f := range []string{"main.go", "go.mod"} {
		b, err := os.ReadFile(filepath.Join(d.Verif, "inst", f))
		if err != nil {
			return nil, err
		}
		if f == "go.mod" {
			b = []byte(strings.Replace(string(b), "=> /repo", "=> "+d.Repo, 1))
		}
		os.WriteFile(filepath.Join(instSrc, f), b, 0o644)
	}
	if b, err := os.ReadFile(filepath.Join(d.Repo, "go.sum")); err == nil {
		os.WriteFile(filepath.Join(instSrc, "go.sum"), b, 0o644)
	}
	bc := exec.Command("go1.26", "build", "-o", instBin, ".")
	bc.Dir = instSrc
	bc.Env = env
	if b, err := bc.CombinedOutput(); err != nil {
		return nil, fmt.Errorf("building the instantiation harness against /repo failed (does /repo compile?): %v\n%s", err, b)
	}
	cmd := exec.Command(instBin, out)
	cmd.Env = env
	if b, err := cmd.CombinedOutput(); err != nil {
		return nil, fmt.Errorf("instantiation harness failed: %v\n%s", err, b)
	}
	variants := rtVariantsAll
	if d.Tier == "quick" {
		variants = rtVariantsQuick
	}
	if d.OnlyVariant != "" {
		variants = []string{d.OnlyVariant}
	}
	type inst struct {
		v   string
		pkg *Pkg
		cs  *Contracts
		csHash string
	}
	var insts []inst
	for _, v := range variants {
		pkg, err := loader.LoadDir(filepath.Join(out, v), "verif/rt/"+v, "rt["+v+"]", nil)
		if err != nil {
			// the instantiation does not compile: none of its obligations can be generated (they are
			// then reported as vanished against the inventory; C04 reports the type error itself)
			d.notProved = append(d.notProved, fmt.Sprintf("rt[%s]: instantiation does not type-check: %v", v, err))
			fmt.Fprintf(os.Stderr, "NOT-PROVED rt[%s]: instantiation does not type-check: %v\n", v, err)
			continue
		}
		pkg.Flags = variantFlags(v)
		cs := NewContracts()
		h := sha256.New()
		for _, f := range d.contractFiles("rt") {
			if err := cs.LoadFile(f, pkg.Flags); err != nil {
				return nil, err
			}
		}
		h.Write([]byte(dumpContracts(cs)))
		// type declarations matter too
		h.Write([]byte(typeDeclHash(pkg)))
		insts = append(insts, inst{v, pkg, cs, hex.EncodeToString(h.Sum(nil))})
	}
	// The runtime copy inside /repo/pigeon.go (the grammar front-end: the standard instantiation, generated by
	// an earlier build of the tool). It is checked against the same contracts: a function whose text and type
	// declarations equal an instantiation verified on this run is discharged by identity (it joins that job's
	// variant list), any other is verified on its own. Functions for node kinds that do not occur in the
	// front-end's grammar literal are unreachable there (parseExpr dispatches on the node's type) and are
	// listed as such instead of being verified.
	tmplNames := map[string]bool{}
	for _, in := range insts {
		for n := range declNames(in.pkg) {
			tmplNames[n] = true
		}
	}
	for i := range insts {
		h := sha256.New()
		h.Write([]byte(dumpContracts(insts[i].cs)))
		h.Write([]byte(typeDeclHashNames(insts[i].pkg, tmplNames)))
		insts[i].csHash = hex.EncodeToString(h.Sum(nil))
	}
	var feAbsent map[string]bool
	if (d.OnlyVariant == "" || d.OnlyVariant == "pigeon.go") && os.Getenv("GOVC_NO_FRONTEND") == "" {
		if _, err := os.Stat(filepath.Join(d.Repo, "pigeon.go")); err == nil {
			pkg, err := loader.LoadDir(d.Repo, "verif/rt/frontend", "rt[pigeon.go]", nil)
			if err != nil {
				d.notProved = append(d.notProved, fmt.Sprintf("rt[pigeon.go]: the front-end's runtime copy does not type-check on its own: %v", err))
				fmt.Fprintf(os.Stderr, "NOT-PROVED rt[pigeon.go]: %v\n", err)
			} else {
				pkg.Flags = variantFlags("o0b0l0s0")
				cs := NewContracts()
				for _, f := range d.contractFiles("rt") {
					if err := cs.LoadFile(f, pkg.Flags); err != nil {
						return nil, err
					}
				}
				h := sha256.New()
				h.Write([]byte(dumpContracts(cs)))
				h.Write([]byte(typeDeclHashNames(pkg, tmplNames)))
				insts = append(insts, inst{"pigeon.go", pkg, cs, hex.EncodeToString(h.Sum(nil))})
				feAbsent = absentNodeKinds(pkg)
				if os.Getenv("GOVC_FEDEBUG") != "" {
					for _, in := range insts {
						fmt.Fprintln(os.Stderr, "FEDEBUG", in.v, in.csHash, typeDeclHashNames(in.pkg, tmplNames))
					}
				}
			}
		}
	}
	// nolint instantiations: token streams must equal the plain ones (comments aside)
	seen := map[string]*job{}
	var jobs []*job
	for _, in := range insts {
		keys := sortedKeys(in.cs.Funcs)
		for _, k := range keys {
			fc := in.cs.Funcs[k]
			if fc.Trusted {
				continue
			}
			if _, ok := in.pkg.Funcs[k]; !ok {
				continue // function absent from this variant
			}
			if d.OnlyFunc != "" && d.OnlyFunc != k {
				continue
			}
			if !contractMentions(fc, d.Prop) && !callsTagged(in.pkg, k, in.cs, d.Prop) && !(d.frontendErrorContract() && in.v == "pigeon.go" && contractMentions(fc, "C11")) {
				continue
			}
			if in.v == "pigeon.go" && strings.HasPrefix(k, "parser.parse") {
				kind := strings.TrimPrefix(k, "parser.parse")
				if len(kind) > 0 && feAbsent[strings.ToLower(kind[:1])+kind[1:]] {
					d.unreachable = append(d.unreachable, "rt[pigeon.go]:"+k+" (no "+strings.ToLower(kind[:1])+kind[1:]+" node in the front-end's grammar literal)")
					continue
				}
			}
			id := k + "|" + hashNode(in.pkg, k) + "|" + in.csHash
			if j, ok := seen[id]; ok {
				j.variants = append(j.variants, in.v)
				continue
			}
			j := &job{target: in.pkg.Name, pkg: in.pkg, cs: in.cs, key: k, variants: []string{in.v}}
			seen[id] = j
			jobs = append(jobs, j)
		}
	}
	return jobs, nil
}

// declNames: names declared by the non-function declarations of a package (the probe grammar aside)
func declNames(pkg *Pkg) map[string]bool {
	m := map[string]bool{}
	for _, f := range pkg.Files {
		for _, dcl := range f.Decls {
			gd, ok := dcl.(*ast.GenDecl)
			if !ok || isVarG(dcl) {
				continue
			}
			for _, sp := range gd.Specs {
				switch x := sp.(type) {
				case *ast.TypeSpec:
					m[x.Name.Name] = true
				case *ast.ValueSpec:
					for _, n := range x.Names {
						m[n.Name] = true
					}
				}
			}
		}
	}
	return m
}

// typeDeclHashNames hashes the declarations (specs) of pkg whose names are in names, in source order.
func typeDeclHashNames(pkg *Pkg, names map[string]bool) string {
	var buf bytes.Buffer
	for _, f := range pkg.Files {
		for _, dcl := range f.Decls {
			gd, ok := dcl.(*ast.GenDecl)
			if !ok || isVarG(dcl) || gd.Tok == token.IMPORT {
				continue
			}
			for _, sp := range gd.Specs {
				keep := false
				switch x := sp.(type) {
				case *ast.TypeSpec:
					keep = names[x.Name.Name]
				case *ast.ValueSpec:
					for _, n := range x.Names {
						if names[n.Name] {
							keep = true
						}
					}
				}
				if keep {
					// trailing and doc comments of the spec (the -nolint markers) are not code
					switch x := sp.(type) {
					case *ast.TypeSpec:
						x.Comment, x.Doc = nil, nil
					case *ast.ValueSpec:
						x.Comment, x.Doc = nil, nil
					}
					buf.WriteString(gd.Tok.String() + " ")
					printer.Fprint(&buf, pkg.Fset, sp)
					buf.WriteString("\n")
				}
			}
		}
	}
	if d := os.Getenv("GOVC_FEDEBUG"); d != "" {
		os.WriteFile(filepath.Join(d, "decls_"+sanitize(pkg.Name)+".txt"), buf.Bytes(), 0o644)
	}
	h := sha256.Sum256(buf.Bytes())
	return hex.EncodeToString(h[:])
}

// absentNodeKinds: the expression node types of the runtime (struct types with a parse<Kind> method of parser)
// that do not occur in the package's grammar literal `var g`.
func absentNodeKinds(pkg *Pkg) map[string]bool {
	present := map[string]bool{}
	for _, f := range pkg.Files {
		for _, dcl := range f.Decls {
			if !isVarG(dcl) {
				continue
			}
			ast.Inspect(dcl, func(n ast.Node) bool {
				if cl, ok := n.(*ast.CompositeLit); ok {
					if id, ok := cl.Type.(*ast.Ident); ok {
						present[id.Name] = true
					}
				}
				return true
			})
		}
	}
	absent := map[string]bool{}
	for k := range pkg.Funcs {
		if strings.HasPrefix(k, "parser.parse") {
			kind := strings.TrimPrefix(k, "parser.parse")
			if kind == "" {
				continue
			}
			kind = strings.ToLower(kind[:1]) + kind[1:]
			if pkg.Types.Scope().Lookup(kind) != nil && !present[kind] {
				absent[kind] = true
			}
		}
	}
	return absent
}

// C13 (the tool never crashes: a parse error is a diagnostic and a non-zero exit) depends on the error contract of
// the front-end's OWN parser: the runtime copy inside pigeon.go must contain panics and return a non-nil error with a
// nil value exactly as C11 says of every generated parser. For C13 the C11 obligations are therefore generated for the
// pigeon.go pseudo-instantiation (only for it) and count as obligations of C13.
func (d *Driver) frontendErrorContract() bool { return d.Prop == "C13" }

func (d *Driver) frontendQuery(q *Query) bool {
	if !d.frontendErrorContract() || !strings.HasPrefix(q.Obligation, "rt[pigeon.go]:") {
		return false
	}
	for _, t := range q.Tags {
		if t == "C11" {
			return true
		}
	}
	return false
}

func typeDeclHash(pkg *Pkg) string {
	var buf bytes.Buffer
	for _, f := range pkg.Files {
		for _, dcl := range f.Decls {
			if isFuncDecl(dcl) || isVarG(dcl) {
				continue
			}
			printer.Fprint(&buf, pkg.Fset, dcl)
		}
	}
	h := sha256.Sum256(buf.Bytes())
	return hex.EncodeToString(h[:])
}

func dumpContracts(cs *Contracts) string {
	var b strings.Builder
	for _, k := range sortedKeys(cs.Funcs) {
		fc := cs.Funcs[k]
		b.WriteString("func " + k + " " + fc.Header + "\n")
		for _, c := range fc.Requires {
			b.WriteString(" requires " + c.Label + " " + c.Src + "\n")
		}
		for _, c := range fc.Ensures {
			b.WriteString(" ensures " + c.Label + strings.Join(c.Tags, ",") + " " + c.Src + "\n")
		}
		for _, c := range fc.Panics {
			b.WriteString(" panics " + c.Label + " " + c.Src + "\n")
		}
		for _, m := range fc.Modifies {
			b.WriteString(" modifies " + m.Src + "\n")
		}
		var ords []int
		for o := range fc.Loops {
			ords = append(ords, o)
		}
		sort.Ints(ords)
		for _, o := range ords {
			for _, c := range fc.Loops[o] {
				b.WriteString(fmt.Sprintf(" loop#%d %s %s %s\n", o, c.Kind, c.Label, c.Src))
			}
		}
	}
	for _, k := range sortedKeys(cs.Specs) {
		sf := cs.Specs[k]
		b.WriteString("spec " + k + fmt.Sprint(sf.Params) + sf.Result)
		if sf.Body != nil {
			b.WriteString(" = " + sf.Body.String())
		}
		b.WriteString("\n")
	}
	for _, a := range cs.Axioms {
		b.WriteString("axiom " + a.Name + ": " + a.Src + "\n")
	}
	return b.String()
}

func (d *Driver) repoJobs(loader *Loader, tg string) ([]*job, error) {
	dirs := map[string][2]string{
		"ast":     {filepath.Join(d.Repo, "ast"), "github.com/mna/pigeon/ast"},
		"builder": {filepath.Join(d.Repo, "builder"), "github.com/mna/pigeon/builder"},
		"main":    {d.Repo, "github.com/mna/pigeon"},
	}
	if tg != "ast" {
		if _, ok := loader.imp.known["github.com/mna/pigeon/ast"]; !ok {
			if _, err := loader.LoadDir(dirs["ast"][0], dirs["ast"][1], "ast", nil); err != nil {
				return nil, err
			}
		}
	}
	if tg == "main" {
		if _, ok := loader.imp.known["github.com/mna/pigeon/builder"]; !ok {
			if _, err := loader.LoadDir(dirs["builder"][0], dirs["builder"][1], "builder", nil); err != nil {
				return nil, err
			}
		}
	}
	pkg, err := loader.LoadDir(dirs[tg][0], dirs[tg][1], tg, nil)
	if err != nil {
		return nil, err
	}
	pkg.Flags = map[string]bool{"rt": false, "opt": false, "bl": false, "lr": false, "state": false, "memo": false, "dbg": false, "gstate": false}
	cs := NewContracts()
	cs.OwnPkg = tg
	for _, f := range d.contractFiles(tg) {
		if err := cs.LoadFile(f, pkg.Flags); err != nil {
			return nil, err
		}
	}
	// C19 (generation is a function of the grammar and the flags only): besides map-order independence of the
	// functions whose postconditions say so, NO function on the generation path (packages ast and builder) may keep
	// state between builds or write outside its declared frame: the frame obligations of every function under contract
	// in these two packages are obligations of C19 as well (and so is staying inside the verifiable subset).
	if tg == "ast" || tg == "builder" {
		for _, fc := range cs.Funcs {
			if fc.Trusted {
				continue
			}
			has := false
			for _, t := range fc.FrameTag {
				if t == "C19" {
					has = true
				}
			}
			if !has {
				fc.FrameTag = append(fc.FrameTag, "C19")
			}
		}
	}
	var jobs []*job
	for _, k := range sortedKeys(cs.Funcs) {
		fc := cs.Funcs[k]
		if fc.Trusted {
			continue
		}
		if _, ok := pkg.Funcs[k]; !ok {
			if strings.Contains(fc.File, "iface") || strings.Contains(k, "$") {
				continue
			}
			return nil, fmt.Errorf("contract for %s: function not found in package %s (vanished function is an error, not a pass)", k, tg)
		}
		if d.OnlyFunc != "" && d.OnlyFunc != k {
			continue
		}
		if !contractMentions(fc, d.Prop) && !callsTagged(pkg, k, cs, d.Prop) {
			continue
		}
		jobs = append(jobs, &job{target: tg, pkg: pkg, cs: cs, key: k})
	}
	return jobs, nil
}

func (d *Driver) solveAll() {
	var wg sync.WaitGroup
	ch := make(chan *Query)
	nw := 16
	for i := 0; i < nw; i++ {
		wg.Add(1)
		go func() {
			defer wg.Done()
			for q := range ch {
				solve(q, d.Work, d.Timeout, d.Tier == "thorough")
			}
		}()
	}
	for _, q := range d.queries {
		if q.Result != "" {
			continue // decided outside the solver race (exhaustive checks, excused lemma)
		}
		ch <- q
	}
	close(ch)
	wg.Wait()
	// second pass: whatever did not discharge is retried with little parallel load and a
	// four times longer timeout (solver time under 16-way load is noisy; an alarm must not
	// depend on it)
	var again []*Query
	for _, q := range d.queries {
		if !q.IsCover && q.Result != "unsat" && q.Solver != "exhaustive" && q.Kind != "lemma" && q.Kind != "bounded" {
			again = append(again, q)
		}
	}
	if len(again) == 0 {
		return
	}
	// many failures mean a real break, not solver noise: then nothing is retried
	if len(again) > 64 {
		return
	}
	d.retried = len(again)
	ch2 := make(chan *Query)
	var wg2 sync.WaitGroup
	for i := 0; i < 4; i++ {
		wg2.Add(1)
		go func() {
			defer wg2.Done()
			for q := range ch2 {
				first := q.Result
				q.Result, q.Solver, q.Model = "", "", ""
				solve(q, d.Work, d.Timeout*4, true)
				if q.Result == "unsat" {
					q.Solver += " (retry after " + first + ")"
				}
			}
		}()
	}
	for _, q := range again {
		ch2 <- q
	}
	close(ch2)
	wg2.Wait()
}

// callsTagged: does the body of key call (by name) a function whose contract has a
// requires clause tagged with property p? (call-site obligations inherit those tags)
func callsTagged(pkg *Pkg, key string, cs *Contracts, p string) bool {
	fd := pkg.Funcs[key]
	if fd == nil || fd.Body == nil {
		return false
	}
	names := map[string]bool{}
	ast.Inspect(fd.Body, func(n ast.Node) bool {
		if c, ok := n.(*ast.CallExpr); ok {
			switch f := ast.Unparen(c.Fun).(type) {
			case *ast.Ident:
				names[f.Name] = true
			case *ast.SelectorExpr:
				names[f.Sel.Name] = true
			}
		}
		return true
	})
	for k, fc := range cs.Funcs {
		last := k
		if i := strings.LastIndex(k, "."); i >= 0 {
			last = k[i+1:]
		}
		if !names[last] {
			continue
		}
		for _, r := range fc.Requires {
			if hasTag(r.Tags, p) {
				return true
			}
		}
	}
	return false
}
